"""Reference model of YAQL's scalar operators (property C15).

Written from the operator docstrings / language reference; imports nothing
from yaql.  A result is ('v', value) | ('e', 'nomatch') | ('e', 'zerodiv') |
None (= outside the documented domain: enumerated, counted, not judged).
"""

NOMATCH = ('e', 'nomatch')
ZERODIV = ('e', 'zerodiv')

ARITH = ('+', '-', '*', '/', 'mod')
ORDER = ('<', '<=', '>', '>=')
EQ = ('=', '!=')
LOGIC = ('and', 'or')
BINARY = ARITH + ORDER + EQ + LOGIC + ('in',)
UNARY = ('+', '-', 'not')

MAX_REP = 10 ** 4     # repetition counts above this are resource questions (C08), not arithmetic


def kind(v):
    if v is None:
        return 'null'
    if isinstance(v, bool):
        return 'bool'
    if isinstance(v, int):
        return 'int'
    if isinstance(v, float):
        return 'float'
    if isinstance(v, str):
        return 'str'
    if isinstance(v, (list, tuple)):
        return 'list'
    raise TypeError(v)


def is_num(k):
    return k in ('int', 'float')


def _float_op(op, a, b):
    a = float(a)
    b = float(b)
    if op == '+':
        return a + b
    if op == '-':
        return a - b
    if op == '*':
        return a * b
    if op == '/':
        if b == 0:
            raise ZeroDivisionError
        return a / b
    if op == 'mod':
        if b == 0:
            raise ZeroDivisionError
        return a % b
    raise AssertionError(op)


def binary(op, a, b):
    ka, kb = kind(a), kind(b)
    if op in ARITH:
        if is_num(ka) and is_num(kb):
            if ka == 'int' and kb == 'int':
                if op == '+':
                    return ('v', a + b)
                if op == '-':
                    return ('v', a - b)
                if op == '*':
                    return ('v', a * b)
                if b == 0:
                    return ZERODIV
                # floor division and the matching modulo, exact at any magnitude
                q = a // b
                if op == '/':
                    return ('v', q)
                return ('v', a - q * b)
            try:
                return ('v', _float_op(op, a, b))
            except ZeroDivisionError:
                return ZERODIV
            except OverflowError:
                return None       # int too large for a float: resource/implementation limit
        if op == '+' and ka == 'str' and kb == 'str':
            return ('v', a + b)
        if op == '+' and ka == 'list' and kb == 'list':
            return ('v', list(a) + list(b))
        if op == '*':
            # repetition: sequence/string by integer, either order; bool is not an integer
            for s, n, ks, kn in ((a, b, ka, kb), (b, a, kb, ka)):
                if ks in ('str', 'list') and kn == 'int':
                    if abs(n) > MAX_REP:
                        return None
                    return ('v', (s * n) if ks == 'str' else list(s) * n)
        return NOMATCH
    if op in ORDER:
        if ka == 'null' or kb == 'null':
            # null is lowest; equal only to itself
            ra = 0 if ka == 'null' else 1
            rb = 0 if kb == 'null' else 1
        elif is_num(ka) and is_num(kb):
            ra, rb = a, b
        elif ka == 'str' and kb == 'str':
            ra, rb = a, b     # code point order
        else:
            return NOMATCH
        if op == '<':
            return ('v', ra < rb)
        if op == '<=':
            return ('v', ra <= rb)
        if op == '>':
            return ('v', ra > rb)
        return ('v', ra >= rb)
    if op in EQ:
        if ('bool' in (ka, kb)) and (is_num(ka) or is_num(kb)):
            return None           # the statement does not define bool = number
        if ka == 'list' or kb == 'list':
            return None
        if is_num(ka) and is_num(kb):
            eq = a == b
        elif ka == kb:
            eq = a == b
        else:
            eq = False
        return ('v', eq if op == '=' else not eq)
    if op == 'and':
        if ka == 'list' or kb == 'list':
            return None
        return ('v', b if truth(a) else a)
    if op == 'or':
        if ka == 'list' or kb == 'list':
            return None
        return ('v', a if truth(a) else b)
    if op == 'in':
        if ka == 'str' and kb == 'str':
            return ('v', a in b)
        if kb == 'list':
            return None
        return NOMATCH
    raise AssertionError(op)


def truth(v):
    return not (v is None or v is False or v == 0 or v == '' or v == [] or v == ())


def unary(op, a):
    ka = kind(a)
    if op == 'not':
        if ka == 'list':
            return None
        return ('v', not truth(a))
    if is_num(ka):
        return ('v', a if op == '+' else -a)
    return NOMATCH


def same(x, y):
    """Equality of observed and expected values that distinguishes kinds and -0.0."""
    if kind(x) != kind(y):
        return False
    if isinstance(x, float):
        if x != x and y != y:
            return True
        import math
        return x == y and math.copysign(1, x) == math.copysign(1, y)
    if isinstance(x, (list, tuple)):
        return len(x) == len(y) and all(same(p, q) for p, q in zip(x, y))
    return x == y
