"""C08 - iterator limit and memory quota bound every evaluation.

Three exhaustive enumerations against the real engine (oracles: models/limits.py):

(a) limit per parameter: every registered definition x every visible position
    whose declared type admits a lazy sequence (Iterable/Iterator/any/lambda
    body/mapping rule/*args/**kwargs) receives an endless instrumented source
    (horizon N + 50); the other arguments run through a small typed corpus;
    yaql.limitIterators = N.  Oracle: pulls <= N + 1, never HORIZON, a returned
    value holds no collection larger than N.  Hand-written templates add
    lambda-produced sequences (generateMany, generate, selectMany, accumulate...).
(b) result shapes: every nesting of depth <= 3 of {list, dict value, set,
    one-shot iterator} with sizes {N-1, N, N+1} per level x N x the 4 output
    conversion combinations: `$` raises CollectionTooLargeException iff some
    level exceeds N, otherwise returns the canonical image.
(r) result kinds: every kind of collection a function can hand back - yaql list / tuple, set / frozenset, dict,
    the keys / values / items views of a dictionary, iterator / generator, and raw host list, set, dict, views,
    deque, range returned by a host function - of N-1, N, N+1 elements, as the result itself and inside 1..2
    containers built by the expression ([X], {w => X}, set(X) where X can be a set member), the leaf coming from
    the input data `$`, from a context variable, from literals of the expression, or from a host function;
    x N x the 4 conversion combinations.  Oracle: CollectionTooLargeException iff the leaf (or a pair of an
    items view, or a wrapper) exceeds N, otherwise the canonical image (dictionaries are never size-checked
    while they are passed around: `$.keys()` over an oversized input dictionary reaches the finaliser).
(b') dict keys: a dict whose KEY is a collection (tuple of N-1, N, N+1 elements, one-shot iterator,
    endless source) inside 0..2 containers, as host data and built by an expression, under the 4
    conversion combinations and the legacy engine (tuple keys survive when tuples are not converted).
(w) ways: a subset of (a), (b), (c) with N / Q supplied per expression (engine(text, options)) and by
    engine.copy(options), on an engine created without or with looser options: same observations as
    with factory.create(options).
(c) memory quota: every payload of a private context is tapped; all chains of
    growth steps over base sizes x Q: no argument and no returned value has
    own size > Q, the repetition payloads never produce an object larger than
    Q (refusal before allocation), a value equals the model's, refusal is
    monotone in Q.
"""
import itertools
import resource
import sys
import tracemalloc

import vf.loader  # noqa: F401
from vf import core
from vf.core import Result
from vf import yq
from models import limits as M

import yaql
from yaql.language import specs as yspecs
from yaql.language import utils as yutils
from yaql.language import yaqltypes

ID = 'C08'
TITLE = 'iterator limit and memory quota'
RULE = ('(a) one case per distinct (call text, source flavour, N): call texts are generated from every '
        'registered definition x every source-admitting position x the typed corpus product; non-trivial '
        'when the source was pulled at least once; (b) one case per (shape, N, conversion options), '
        'non-trivial when in domain (no unhashable set member, which is C10); (c) one case per '
        '(chain, base size, Q), non-trivial when at least one tapped payload ran; (b\') one case per (key shape, '
        'N, engine, form); (w) one case per (subset case, way of supplying the options); (r) one case per '
        '(wrappers, result kind, size, origin of the leaf, N, conversion options), non-trivial when the value can be '
        'built (set() needs hashable non-iterator members) and its image needs no unhashable set member (C10)')
ASSUMPTIONS = ['"own size" is sys.getsizeof(value, 0), the accounting the options document; memory held by '
               'nested or lazily produced objects is outside the statement',
               'a lazy sequence is "handed to a library function" when it is bound directly to a parameter '
               'or returned by a lambda argument; sources nested inside other collections occur only in the '
               'hand-written templates',
               'one source is handed over once per case: two hand-overs of the same iterator are each allowed '
               'N + 1 pulls, so templates with two sequence arguments use two sources',
               'sized Sequence() positions cannot receive a lazy source and are not source positions']
BOUNDS = {
    'quick': '(a) all definitions x source positions x corpus x 3 source flavours (integers, pairs, empty lists) x N in {0,1,2,5}; '
             '(b) depth <= 3, N in {-1,0,1,2,5} x 4 conversion combos; '
             '(c) chains of <= 2 steps x base sizes {0,1,2,10,1000} x Q in {200,1000,10000} (+ no-quota control), '
             'chains whose unconstrained length exceeds 2e6 are outside the space; '
             "(b') 13 wrappings x 7 keys x N x 6 engines x {data, expression}; (w) hand-written templates + every 10th call "
             'text x N x 2 tightening ways, shapes of depth <= 2 x 3 ways, 1-step chains x Q x 3 ways; '
             '(r) 10 result kinds from data / variable, 7 from literals, 12 raw from a host function x sizes '
             '{N-1,N,N+1} x 0..2 wrappers of {list, dict value, set member} x N in {-1,0,1,2,5} x 4 conversion combos',
    'thorough': '(a) N in {0,1,2,5,10,100}; (b) N in {-1,0,1,2,5,10,100}; (c) chains of <= 3 steps; '
                '(r) 0..3 wrappers, N in {-1,0,1,2,5,10,100}',
}
JOB_LIMIT = {'quick': 600, 'thorough': 3600}

NS = {'quick': [0, 1, 2, 5], 'thorough': [0, 1, 2, 5, 10, 100]}
HORIZON_SLACK = 50
BASE_SIZES = [0, 1, 2, 10, 1000]
QUOTAS = [200, 1000, 10000]
MAX_STEPS = {'quick': 2, 'thorough': 3}
VOLUME_BOUND = 2 * 10 ** 6      # elements / characters of any unconstrained intermediate value
CONTROL_VOLUME = 3000           # the no-quota control really builds the values
PEAK_FLOOR = 4096               # products at least this large are also watched with tracemalloc


# ---------------------------------------------------------------------------
# ways of handing N and Q to the library (doc/source/extending_yaql.rst: options go to factory.create();
# the engine can be cloned with other options by engine.copy(); engine(expression, options) applies
# options to one expression).  Every way must enforce the same limits.
# ---------------------------------------------------------------------------
LOOSE = {'yaql.limitIterators': 1000, 'yaql.memoryQuota': 10 ** 7}
WAYS = ('call', 'call-tighten', 'copy-tighten')


def statement(text, opts, way='create', delegates=False, legacy=False):
    """A parsed statement that must run under `opts`.
    create: factory.create(opts)(text);  call: an engine created WITHOUT options, options given per
    expression;  call-tighten / copy-tighten: an engine created with the much looser LOOSE options,
    tightened per expression / by engine.copy()."""
    if way == 'create' or not opts:
        return yq.parse(text, opts, delegates, legacy)
    loose = {k: v for k, v in LOOSE.items() if k in opts}      # loosen only what this case tightens
    base = yq.engine(loose if way.endswith('tighten') else None, delegates, legacy)
    if way.startswith('call'):
        return base(text, options=dict(opts))
    return base.copy(dict(opts))(text)


# ---------------------------------------------------------------------------
# instrumented source that remembers who over-pulled
# ---------------------------------------------------------------------------
class Tap(yq.Source):
    """yq.Source + at the first pull beyond n + 1 the innermost yaql frame is
    recorded (function, line, and the argument name bound to this source)."""

    def __init__(self, n, items_fn=None):
        yq.Source.__init__(self, n + HORIZON_SLACK, fn=items_fn)
        self.n = n
        self.site = None

    def __next__(self):
        if self.pulls == self.n + 1 and self.site is None:
            self.site = _puller(self)
        return yq.Source.__next__(self)


def _puller(source):
    """The innermost library frame that asked for the item.  If that is the
    limiter's own generator, the limiter itself let the item through."""
    f = sys._getframe(2)
    while f is not None:
        code = f.f_code
        fname = code.co_filename.replace('\\', '/')
        if '/yaql/' in fname and '/verif/' not in fname:
            argnames = code.co_varnames[:code.co_argcount + code.co_kwonlyargcount]
            bound = [a for a in argnames if f.f_locals.get(a) is source]
            return {'function': code.co_name, 'file': fname.split('/yaql/')[-1], 'line': f.f_lineno,
                    'param': bound[0] if bound else None, 'code': code}
        f = f.f_back
    return {'function': '?', 'file': '?', 'line': 0, 'param': None, 'code': None}


# 'empty': an endless source of EMPTY collections - a consumer that looks into its elements (flatten, selectMany)
# finds nothing to hand on, so no downstream limit ever counts anything: only a limit on the pulls themselves ends it
FLAVOURS = {'int': None, 'pair': lambda i: (i, i), 'empty': lambda i: ()}


# ---------------------------------------------------------------------------
# (a) call texts from the registered definitions and a typed corpus
# ---------------------------------------------------------------------------
def slot_kind(p):
    t = p.value_type
    n = type(t).__name__
    if isinstance(t, yaqltypes.HiddenParameterType):
        return 'hidden'
    if n == 'Iterable':
        return 'seq'
    if n == 'Sequence':
        return 'sized'
    if n == 'MappingRule':
        return 'rule'
    if n == 'PythonType':
        pt = t.python_type
        name = getattr(pt, '__name__', str(pt))
        return {'Mapping': 'map', 'Set': 'set', 'object': 'any', 'int': 'int', 'bool': 'bool',
                'timedelta': 'ts', 'datetime': 'dt', 'NoneType': 'none', 'Pattern': 'rx',
                'Iterator': 'iter', 'Iterable': 'seq', 'Sequence': 'sized', 'MappingRule': 'rule', 'ContextBase': 'ctx',
                'OrderingIterable': 'ordering'}.get(name, 'other:' + name)
    return {'Integer': 'int', 'Number': 'int', 'DateTime': 'dt', 'Iterator': 'iter'}.get(n, n)


# kinds of positions that admit a lazy sequence (directly, as a lambda body, or inside a mapping rule)
SOURCE_KINDS = ('seq', 'iter', 'any', 'Lambda', 'rule')
SOURCE_TEXTS = {'rule': ['k => $s', '$s => 1']}

CORPUS = {
    'String': ["'a'"], 'int': ['0', '2', '-1'], 'bool': ['true', 'false'],
    # '[$]' and not '[$, $]': as a producer/accumulator the latter doubles the value at every step (2^N leaves)
    'Lambda': ['$', 'true', 'false', '[$]'],
    'seq': ['[]', '[7]', '[7, 8, 9]'], 'sized': ['[]', '[7]', '[7, 8, 9]'], 'iter': ['[7, 8].select($)'],
    'map': ['{}', '{a => 1}'], 'set': ['set()', 'set(1)'], 'any': ['1', 'null'],
    'Keyword': ['foo'], 'StringConstant': ["'s'"], 'rule': ['a => 1'],
    'ts': ['timespan(hours => 1)'], 'dt': ['datetime(2015, 1, 2)'], 'none': ['null'], 'rx': ["regex('a')"],
    'ctx': ['let(x => 1)'], 'ordering': ['[2, 1].orderBy($)'],
    'YaqlExpression': ['toList()', 'len()'],
}
# right operand of `.` / `?.` is a method call, not a free expression
DOT_RIGHT = ['toList()', 'len()', 'foo']
UNSPELLABLE = ('#get_context_data', '#finalize', '#iter')


def _visible(fd):
    ps = [p for k, p in fd.parameters.items()
          if p.position is not None and k not in ('*', '**')
          and not isinstance(p.value_type, yaqltypes.HiddenParameterType)]
    return sorted(ps, key=lambda p: p.position)


def _spellings(fd, args, kw):
    """YAQL texts calling this definition with these argument texts."""
    name = fd.name
    if name.startswith('#operator_'):
        op = name[len('#operator_'):]
        if len(args) != 2 or kw:
            return []
        if op in ('.', '?.'):
            return ['(%s)%s%s' % (args[0], op, args[1])]
        return ['(%s) %s (%s)' % (args[0], op, args[1])]
    if name.startswith('#unary_operator_'):
        return ['%s (%s)' % (name[len('#unary_operator_'):], args[0])] if len(args) == 1 and not kw else []
    if name in ('*equal', '*not_equal'):
        return ['(%s) %s (%s)' % (args[0], '=' if name == '*equal' else '!=', args[1])]
    if name == '#indexer':
        return ['(%s)[%s]' % (args[0], ', '.join(args[1:]))] if len(args) >= 2 else []
    if name == '#list':
        return ['[%s]' % ', '.join(args)]
    if name == '#map':
        return ['{%s}' % ', '.join(args)] if args else []
    if name == '#call':
        return ['%s(%s)' % (args[0], ', '.join(list(args[1:]) + kw))] if args else []
    if name.startswith('#') or name.startswith('*'):
        return []
    out = []
    allargs = list(args) + list(kw)
    if fd.is_function:
        out.append('%s(%s)' % (name, ', '.join(allargs)))
    if fd.is_method and args and '=>' not in args[0]:
        out.append('(%s).%s(%s)' % (args[0], name, ', '.join(allargs[1:])))
    return out


def _fills(fd, p):
    kind = slot_kind(p)
    if fd.name in ('#operator_.', '#operator_?.') and p.position is not None and kind in ('Lambda', 'YaqlExpression', 'Keyword'):
        return DOT_RIGHT if kind != 'Keyword' else ['foo']
    if fd.name == '#call' and p.name == 'callable_':
        return ['lambda($)', 'lambda($.toList())']
    if fd.name == 'call' and p.name == 'name':
        return ['toList', 'len']
    return CORPUS.get(kind)


def call_texts():
    """[(text, definition name, payload name, parameter name)] - every distinct
    call text with `$s` in one source-admitting position, simplest first."""
    root = yaql.create_context(delegates=True)
    seen = set()
    out = []
    skipped = []
    for _layer, name, fd in yq.all_definitions(root):
        if name in UNSPELLABLE or name.startswith('#property#'):
            continue
        vis = _visible(fd)
        req = [p for p in vis if p.default is yspecs.NO_DEFAULT]
        opt = [p for p in vis if p.default is not yspecs.NO_DEFAULT]
        star = fd.parameters.get('*')
        kwargs = fd.parameters.get('**')
        arglists = []                     # [(params positional, n varargs, with kwarg)]
        for k in range(len(opt) + 1):
            arglists.append((req + opt[:k], 0, False))
        if star is not None:
            arglists.append((req + opt, 1, False))
            arglists.append((req + opt, 2, False))
        if kwargs is not None:
            arglists.append((req + opt, 0, True))
        for params, nstar, withkw in arglists:
            slots = list(params) + [star] * nstar + ([kwargs] if withkw else [])
            for i, sp in enumerate(slots):
                kind = slot_kind(sp)
                if kind not in SOURCE_KINDS:
                    continue
                if fd.name in ('#operator_.', '#operator_?.') and i == 1:
                    continue               # the right operand of a dot is a method name, not a value
                if fd.name == '#call' and i == 0:
                    continue
                pools = []
                ok = True
                for j, q in enumerate(slots):
                    if j == i:
                        pools.append(SOURCE_TEXTS.get(kind, ['$s']))
                        continue
                    f = _fills(fd, q)
                    if f is None:
                        ok = False
                        break
                    pools.append(f)
                if not ok:
                    skipped.append('%s/%s' % (name, fd.payload.__name__))
                    continue
                for combo in itertools.product(*pools):
                    args = list(combo[:len(params) + nstar])
                    kw = ['kw => ' + combo[-1]] if withkw else []
                    for text in _spellings(fd, args, kw):
                        if text not in seen:
                            seen.add(text)
                            pname = sp.name if sp is not star and sp is not kwargs else ('*' if sp is star else '**')
                            out.append((text, name, fd.payload.__name__, pname))
    return out, sorted(set(skipped))


# hand-written: lambda-produced sequences, indirect calls, nesting in the result, bounded generators.
# `tick()` is a registered probe that counts calls and raises Horizon beyond the budget, so that
# generator loops driven by a lambda are observed without an endless native iterator.
EXTRA_TEXTS = [
    '$s', '[$s]', '[[$s]]', '{k => $s}', '{k => [$s]}', '[$s, $t]',
    'generateMany(0, $s)', 'generateMany(0, $s, decycle => true)', 'generateMany(0, $s, depthFirst => true)',
    'generateMany(0, $s, $, true, true)', 'generateMany(0, $s, [$])',
    'generateMany(0, [$ + tick(), $ + 2])',
    'generate(0, tick() >= 0, $ + 1)', 'generate(0, tick() >= 0, $ + 1, decycle => true)',
    'generate(0, tick() >= 0, $ + 1, [$, $])', 'generate(0, $ < 3, $ + tick())',
    '[0, 1].selectMany($s)', '$s.selectMany([$, $])', '$s.selectMany($t)', '[[0]].selectMany($s.take(2))',
    '$s.accumulate($1 + $2)', '$s.accumulate([$1, $2])', '[1, 2].accumulate($s)', '$s.accumulate($1, 0)',
    '[1, 2].select($s)', '[1, 2].toDict($, $s)', '[1, 2].groupBy($, $s)', '[1, 2].groupBy($, $, $s)',
    '$s.groupBy($ mod 2)', '$s.groupBy(1, $, $.len())', '$s.toDict($ mod 2)', '$s.distinct($ mod 2)',
    '$s.orderBy(-$)', '$s.where($ mod 2 = 0).select($ * 2).take(3)', '$s.skip(3).take(2)', '$s.take(3).len()',
    '$s.select($).len()', '$s.memorize().len()', '$s.memorize().take(2)', '$s.where(true).count()',
    'call(toList, [$s], {})', 'call(len, [$s], {})', 'call(toList, [], {}, $s)', 'call(sum, [$s], {})',
    'lambda($.toList())($s)', 'lambda($.len())($s)',
    'let($s) -> $.toList()', 'let(x => $s) -> $x.len()', 'let(x => $s) -> $x.sum()', 'let(x => $s) -> [$x]',
    '$s.zip($t)', '$s.join($t, true, [$1, $2])', '[1].join($s, true, $2)', '$s.join([1], true, $1)',
    '$s.concat($t)', '$s + $t', '($s + [1]).len()', '($s + [1]).toList()', '$s.append(1).len()',
    '$s.cycle().take(3)', '$s.flatten()', '[$s].flatten()', '[$s, [1]].flatten()', '[[$s]].flatten()',
    '[$s].sum()', '[$s].selectMany($)', '[$s].select($.toList())', '[$s].select($.len())', '{k => $s}.k.len()',
    '{k => $s}.values().first().toList()', '[$s].first().len()', '[$s][0].toList()', 'list($s, $t)', 'set($s)',
    'set($s, 1)', 'list([$s])', 'dict($s)', '$s.toSet()', '$s.toList().len()', 'len($s.toList())',
    '$s.sliceWhere($ mod 2 = 0)', '$s.splitWhere($ mod 2 = 0)', '$s.splitAt(1)', '$s.slice(2)', '$s.reverse()',
    '$s.last()', '$s.last(0)', '$s.single()', '$s.max()', '$s.min()', '$s.sum()', '$s.sum(0)', '$s.aggregate($1 + $2)',
    '$s.any($ > 100)', '$s.all($ >= 0)', '$s.indexOf(1000)', '$s.lastIndexOf(0)', '$s.indexWhere($ > 100)',
    '$s.lastIndexWhere($ = 0)', '$s.contains(1000)', '1000 in $s', '$s.takeWhile($ >= 0)', '$s.skipWhile($ >= 0)',
    '$s.delete(0, -1)', '$s.replace(0, 9, -1)', '$s.replaceMany(0, $t)', '$s.insertMany(0, $t)', '$s.insert(100, 1)',
    '$s.defaultIfEmpty([1])', '[].defaultIfEmpty($s)', '$s.enumerate()', '$s.zipLongest([1])', '$s.limit(100)',
    "$s.select(str($)).join(',')", "','.join($s.select(str($)))", "$s.unpack(a, b)", "$s.unpack(a, b) -> $a",
    '{a => 1}.deleteAll($s)', "{a => 1}.mergeWith({a => 2}, $s)", 'switch($s => 1)', 'coalesce(null, $s)',
    'selectCase(false, $s)', '0.switchCase($s, 1)', 'selectAllCases($s, $t)', 'examine($s, $t)',
    '$s and $t', '$s or 1', 'not $s', 'bool($s)', 'str($s)', '$s = $t', '$s != 1', 'isIterable($s)', 'isList($s)',
    '1.repeat(3).select($s)', '$s.repeat(2)', 'max($s, 1)', '$s?.toList()', '$s?.len()', 'null?.foo($s)',
    'def(f, $s) -> f()', 'def(f, $s) -> f().len()', 'with($s) -> $.toList()', 'with($s) -> $.len()',
]


def _safety():
    """A worker that meets a broken limiter must die of MemoryError, not take the machine with it."""
    soft, hard = resource.getrlimit(resource.RLIMIT_AS)
    cap = 6 * 2 ** 30
    if soft == resource.RLIM_INFINITY or soft > cap:
        resource.setrlimit(resource.RLIMIT_AS, (cap, hard))


def limit_texts():
    """Generated call texts, then the hand-written templates not already among them."""
    texts = [c[0] for c in call_texts()[0]]
    seen = set(texts)
    return texts + [t for t in EXTRA_TEXTS if t not in seen]


_code_defs = {}


def _definitions_of(code):
    """FunctionDefinitions whose payload has this code object."""
    if not _code_defs:
        for _l, _name, fd in yq.all_definitions(yq.root(delegates=True)):
            c = getattr(fd.payload, '__code__', None)
            if c is not None:
                _code_defs.setdefault(c, []).append(fd)
    return _code_defs.get(code, [])


def _tick_context(budget):
    ctx = yq.root(delegates=True).create_child_context()
    count = [0]

    def tick():
        count[0] += 1
        if count[0] > budget:
            raise yq.Horizon(count[0])
        return 0
    ctx.register_function(tick, name='tick')
    return ctx, count


def run_limit(text, flavour, n, way='create'):
    """Execute one (a)-case: $s (and $t, for the templates that use two) are
    fresh endless sources.  Returns the observation dict."""
    srcs = [Tap(n, FLAVOURS[flavour]), Tap(n, FLAVOURS[flavour])]
    ctx, ticks = _tick_context(n + HORIZON_SLACK)
    ctx['s'], ctx['t'] = srcs
    st = statement(text, {'yaql.limitIterators': n}, way, delegates=True)
    obs = {'horizon': False}
    try:
        v = st.evaluate(context=ctx)
        obs['out'] = 'value'
        obs['max'] = M.max_collection(v)
    except yq.Horizon:
        obs['out'] = 'HORIZON'
        obs['horizon'] = True
    except Exception as e:
        obs['out'] = type(e).__name__
        obs['msg'] = str(e)[:120]
    worst = max(srcs, key=lambda s: s.pulls)
    obs['pulls'] = worst.pulls
    obs['ticks'] = ticks[0]
    obs['site'] = worst.site
    return obs


def judge_limit(text, n, obs):
    """None when the case satisfies the statement, else (key, detail)."""
    site = obs['site']
    if obs['pulls'] > n + 1:
        defs = _definitions_of(site['code'])
        fn = defs[0].name if defs else site['function']
        where = '%s:%d in %s' % (site['file'], site['line'], site['function'])
        # a parameter *declared* as a collection that is iterated without the limit, or a sequence the
        # function obtained some other way (returned by a lambda argument, found inside a value)
        declared = [slot_kind(fd.parameters[site['param']]) for fd in defs
                    if site['param'] in fd.parameters]
        if site['function'] == 'limiting_iterator':
            key = 'limiter-overrun site=%s' % site['file']
        elif declared and declared[0] in ('seq', 'iter', 'sized', 'set', 'map'):
            key = 'unlimited-parameter fn=%s param=%s' % (fn, site['param'])
        else:
            key = 'unlimited-produced fn=%s' % fn
        return key, ('%s with limitIterators=%d pulled %d items from the endless source (outcome %s); '
                     'expected at most %d pulls and CollectionTooLargeException; over-pulled at %s'
                     % (text, n, obs['pulls'], obs['out'], n + 1, where))
    if obs['horizon'] or obs['ticks'] > n + 1:
        return ('unlimited-generator text=%s' % text.split('(')[0],
                '%s with limitIterators=%d ran its lambda %d times (outcome %s); expected CollectionTooLargeException '
                'after at most N+1 produced items' % (text, n, obs['ticks'], obs['out']))
    if obs['out'] == 'value' and obs['max'] > n:
        return ('oversized-result', '%s with limitIterators=%d returned a collection of %d elements'
                % (text, n, obs['max']))
    if obs['out'] in ('MemoryError', 'RecursionError'):
        return ('resource-error %s' % obs['out'], '%s with limitIterators=%d raised %s' % (text, n, obs['out']))
    return None


def _strip(obs):
    o = dict(obs)
    if o.get('site'):
        o['site'] = {k: v for k, v in o['site'].items() if k != 'code'}
    return o


def job_limit(tier, k, nchunks):
    _safety()
    res = Result()
    for text in limit_texts()[k::nchunks]:     # strided: similar cost per job
        for flavour in ('int', 'pair', 'empty'):
            for n in NS[tier]:
                case = {'kind': 'limit', 'text': text, 'flavour': flavour, 'n': n}
                core.CURRENT_CASE[0] = case
                res.case(('limit', text, flavour, n))
                obs = run_limit(text, flavour, n)
                res.evaluations += 1
                res.transitions += 1
                if obs['pulls'] or obs['ticks']:
                    res.nontrivial += 1
                label = obs['out'] if obs['out'] in ('value', 'HORIZON', 'CollectionTooLargeException') else 'error:' + obs['out']
                res.outcomes['limit %s%s' % (label, '' if obs['pulls'] or obs['ticks'] else ' (source untouched)')] += 1
                bad = judge_limit(text, n, obs)
                if bad:
                    res.fail(bad[0], case, bad[1])
                elif obs['pulls'] == n + 1 and len(res.samples) < 1 and flavour == 'int':
                    res.sample({'text': text, 'limitIterators': n, 'pulls': obs['pulls'], 'outcome': obs['out']})
    return res


# ---------------------------------------------------------------------------
# (b) result shapes
# ---------------------------------------------------------------------------
OPTION_COMBOS = [(t, s) for t in (True, False) for s in (False, True)]


def run_shape(shape, n, t2l, s2l, way='create'):
    opts = {'yaql.limitIterators': n, 'yaql.convertTuplesToLists': t2l, 'yaql.convertSetsToLists': s2l}
    doc = M.build(shape)
    try:
        return ('v', statement('$', opts, way).evaluate(data=doc, context=yq.root().create_child_context()))
    except Exception as e:
        return ('e', type(e).__name__, str(e)[:120])


def judge_shape(shape, n, t2l, s2l, obs):
    if M.too_large(shape, n):
        if obs[0] == 'e' and obs[1] == 'CollectionTooLargeException':
            return None
        big = [i for i, (_k, size) in enumerate(shape) if size > n]
        return ('oversized-result-accepted kind=%s depth=%d' % (shape[big[0]][0], big[0]),
                'expected CollectionTooLargeException (level %d has %d > %d elements), observed %r'
                % (big[0], shape[big[0]][1], n, _short(obs)))
    if obs[0] == 'e':
        return ('spurious-refusal kind=%s' % '/'.join(k for k, _s in shape),
                'no level exceeds %d, expected the image of the document, observed %r' % (n, _short(obs)))
    if not M.same_image(obs[1], M.image(shape, t2l, s2l)):
        return ('wrong-image kind=%s' % '/'.join(k for k, _s in shape),
                'expected %r observed %r' % (M.image(shape, t2l, s2l), obs[1]))
    return None


def _short(obs):
    return obs if obs[0] == 'e' else ('v', repr(obs[1])[:100])


def job_shapes(tier, n, k, nchunks):
    _safety()
    res = Result()
    for shape in M.shapes(n, 3)[k::nchunks]:
        for t2l, s2l in OPTION_COMBOS:
            case = {'kind': 'shape', 'shape': [list(l) for l in shape], 'n': n, 't2l': t2l, 's2l': s2l}
            core.CURRENT_CASE[0] = case
            res.case(('shape', shape, n, t2l, s2l))
            if not M.buildable(shape):
                res.out_of_domain += 1
                res.outcomes['shape not a host document (dict inside set)'] += 1
                continue
            obs = run_shape(shape, n, t2l, s2l)
            res.evaluations += 1
            res.transitions += 1
            if M.unhashable_member(shape, t2l, s2l) and not M.too_large(shape, n):
                res.out_of_domain += 1
                res.outcomes['shape ood: unhashable member of a kept set (C10)'] += 1
                continue
            res.nontrivial += 1
            res.outcomes['shape %s' % ('value' if obs[0] == 'v' else obs[1])] += 1
            bad = judge_shape(shape, n, t2l, s2l, obs)
            if bad:
                res.fail(bad[0], case, bad[1])
    if k == 0 and n == 2:
        res.sample({'shape': [['iter', 3], ['list', 2]], 'limitIterators': 2,
                    'observed': repr(_short(run_shape((('iter', 3), ('list', 2)), 2, True, False)))})
    return res


# ---------------------------------------------------------------------------
# (r) result kinds: what functions return (views, sets, iterators, raw host collections), from oversized inputs too
# ---------------------------------------------------------------------------
RK_DEPTH = {'quick': 2, 'thorough': 3}
_rk = {}


def _rk_context():
    """A child of the standard context with mk(), a host function returning the raw object of the case."""
    if 'ctx' not in _rk:
        ctx = yq.root().create_child_context()
        ctx.register_function(lambda: _rk['value'], name='mk')
        _rk['ctx'] = ctx
    return _rk['ctx'].create_child_context()


def run_result_kind(spec, n, t2l, s2l):
    _wrappers, kind, size, origin = spec
    opts = {'yaql.limitIterators': n, 'yaql.convertTuplesToLists': t2l, 'yaql.convertSetsToLists': s2l}
    ctx = _rk_context()
    data = yq.NO_VALUE
    if origin == 'data':
        data = M.rk_input(kind, size)
    elif origin == 'var':
        ctx['v'] = yutils.convert_input_data(M.rk_input(kind, size))
    elif origin == 'host':
        _rk['value'] = M.rk_host(kind, size)
    try:
        return ('v', yq.parse(M.rk_text(spec), opts).evaluate(data=data, context=ctx))
    except Exception as e:
        return ('e', type(e).__name__, str(e)[:120])


def judge_result_kind(spec, n, t2l, s2l, obs):
    """'ood' | None | (key, detail)"""
    wrappers, kind, size, origin = spec
    text = M.rk_text(spec)
    what = '%s (result kind %s of %d elements, leaf from %s)' % (text if len(text) <= 80 else text[:77] + '...', kind, size, origin)
    if M.rk_too_large(spec, n):
        if obs[0] == 'e' and obs[1] == 'CollectionTooLargeException':
            return None
        part = ('result-kind=%s' % kind if size > n or (kind == 'items' and size and n < 2)
                else 'wrapper=%s' % wrappers[0])
        return ('oversized-result-accepted ' + part,
                '%s with limitIterators=%d: expected CollectionTooLargeException, observed %r' % (what, n, _short(obs)))
    if M.rk_unhashable_final(spec, t2l, s2l):
        return 'ood'
    if obs[0] == 'e':
        return ('spurious-refusal result-kind=%s' % kind,
                '%s with limitIterators=%d: nothing exceeds the limit, observed %r' % (what, n, obs))
    img = M.rk_image(spec, t2l, s2l)
    if not M.same_image(obs[1], img):
        return ('wrong-image result-kind=%s' % kind, '%s: expected %r observed %r' % (what, img, obs[1]))
    return None


def job_result_kinds(tier, n, origin):
    _safety()
    res = Result()
    for spec in M.rk_specs(n, RK_DEPTH[tier]):
        if spec[3] != origin:
            continue
        for t2l, s2l in OPTION_COMBOS:
            case = {'kind': 'result-kind', 'wrappers': list(spec[0]), 'leaf': spec[1], 'size': spec[2],
                    'origin': origin, 'n': n, 't2l': t2l, 's2l': s2l}
            core.CURRENT_CASE[0] = case
            res.case(('result-kind', spec, n, t2l, s2l))
            if not M.rk_buildable(spec):
                res.out_of_domain += 1
                res.outcomes['result-kind ood: not a member set() can hold (unhashable, or an iterator it flattens)'] += 1
                continue
            obs = run_result_kind(spec, n, t2l, s2l)
            res.evaluations += 1
            res.transitions += 1
            verdict = judge_result_kind(spec, n, t2l, s2l, obs)
            if verdict == 'ood':
                res.out_of_domain += 1
                res.outcomes['result-kind ood: unhashable member of a kept set (C10)'] += 1
                continue
            res.nontrivial += 1
            res.outcomes['result-kind %s %s' % (spec[1], 'value' if obs[0] == 'v' else obs[1])] += 1
            if verdict:
                res.fail(verdict[0], case, verdict[1], size=len(spec[0]) * 1000 + max(n, 0) * 10 + spec[2])
    if n == 2 and origin == 'data':
        spec = (('list',), 'keys', 3, 'data')
        res.sample({'text': M.rk_text(spec), 'data': 'dict of 3 entries', 'limitIterators': 2,
                    'observed': repr(_short(run_result_kind(spec, 2, True, False)))})
    return res


# ---------------------------------------------------------------------------
# (b') collections used as dict keys (tuple keys survive when tuples are not converted: option or legacy engine)
# ---------------------------------------------------------------------------
KEY_ENGINES = [(t, s, False) for t, s in OPTION_COMBOS] + [(False, False, True), (False, True, True)]   # (t2l, s2l, legacy)


def _key_text(wrappers):
    """The same shape built by an expression around the key held in $k."""
    text = 'dict($k => 1)'
    for w in reversed(wrappers):
        text = {'list': '[%s]', 'dict': 'dict(z => %s)', 'iter': '[%s].select($)'}[w] % text
    return text


def run_key_shape(kshape, n, t2l, s2l, legacy, form='data'):
    """form 'data': the whole document is host data and the expression is `$`;
    form 'expr': only the key is host data, the containers are built by the expression."""
    opts = {'yaql.limitIterators': n, 'yaql.convertSetsToLists': s2l}
    if not legacy:
        opts['yaql.convertTuplesToLists'] = t2l      # the legacy factory forces False
    src = Tap(n)
    ctx = yq.root(legacy=legacy).create_child_context()
    try:
        if form == 'data':
            obs = ('v', yq.parse('$', opts, legacy=legacy).evaluate(data=M.key_build(kshape, src), context=ctx))
        else:
            ctx['k'] = yutils.convert_input_data(next(iter(M.key_build(((), kshape[1], kshape[2]), src))))
            obs = ('v', yq.parse(_key_text(kshape[0]), opts, legacy=legacy).evaluate(context=ctx))
    except yq.Horizon:
        obs = ('e', 'HORIZON', '')
    except Exception as e:
        obs = ('e', type(e).__name__, str(e)[:120])
    return obs, src.pulls


def judge_key_shape(kshape, n, t2l, obs, pulls):
    """'ood' | None | (key, detail)"""
    wrappers, kind, size = kshape
    where = 'kind=%s depth=%d' % (kind, len(wrappers))
    if pulls > n + 1 >= 0 or (obs[0] == 'e' and obs[1] == 'HORIZON'):
        return ('unlimited-dict-key ' + where, 'a lazy sequence used as a dict key was pulled %d times (limit %d), observed %r'
                % (pulls, n, _short(obs)))
    if M.key_too_large(kshape, n):
        if obs[0] == 'e' and obs[1] == 'CollectionTooLargeException':
            return None
        return ('oversized-dict-key-accepted ' + where,
                'the result holds a dict whose key is a %s of %s elements (and %d one-element containers around it), '
                'limit %d: expected CollectionTooLargeException, observed %r'
                % (kind, 'endlessly many' if size is None else size, len(wrappers) + 1, n, _short(obs)))
    img = M.key_image(kshape, t2l)
    if img is None:
        return 'ood'
    if obs[0] == 'e':
        return ('spurious-refusal dict-key ' + where, 'nothing exceeds %d, observed %r' % (n, obs))
    if not M.same_image(obs[1], img):
        return ('wrong-image dict-key ' + where, 'expected %r observed %r' % (img, obs[1]))
    return None


def job_keys(n):
    _safety()
    res = Result()
    for kshape in M.key_shapes(n):
        for (t2l, s2l, legacy), form in itertools.product(KEY_ENGINES, ('data', 'expr')):
            case = {'kind': 'key-shape', 'wrappers': list(kshape[0]), 'key': kshape[1], 'size': kshape[2],
                    'n': n, 't2l': t2l, 's2l': s2l, 'legacy': legacy, 'form': form}
            core.CURRENT_CASE[0] = case
            res.case(('key-shape', kshape, n, t2l, s2l, legacy, form))
            obs, pulls = run_key_shape(kshape, n, t2l, s2l, legacy, form)
            res.evaluations += 1
            res.transitions += 1
            verdict = judge_key_shape(kshape, n, t2l and not legacy, obs, pulls)
            if verdict == 'ood':
                res.out_of_domain += 1
                res.outcomes['key-shape ood: the key would become an unhashable list (C10)'] += 1
                continue
            res.nontrivial += 1
            res.outcomes['key-shape %s %s' % (kshape[1], 'value' if obs[0] == 'v' else obs[1])] += 1
            if verdict:
                res.fail(verdict[0], case, verdict[1])
    if n == 2:
        res.sample({'key-shape': [['list'], 'tuple', 3], 'limitIterators': 2, 'convertTuplesToLists': False,
                    'observed': repr(_short(run_key_shape((('list',), 'tuple', 3), 2, False, False, False)[0]))})
    return res


# ---------------------------------------------------------------------------
# (w) the same limits through the other ways of supplying options: a representative subset of (a), (b), (c)
# ---------------------------------------------------------------------------
def _same_limit_obs(a, b):
    return (a['out'], a['pulls'], a['ticks'], a.get('max')) == (b['out'], b['pulls'], b['ticks'], b.get('max'))


def job_ways(tier, part):
    """The reference is the factory.create(options) run, which the main enumerations judge against the
    models; here every other way must give the same observation."""
    _safety()
    res = Result()
    if part == 'limit':
        texts = EXTRA_TEXTS + [c[0] for c in call_texts()[0]][::10]
        for text in texts:
            for n in NS[tier]:
                ref = run_limit(text, 'int', n)
                for way in WAYS[1:]:      # only tightening ways: with no base limit at all a lambda-driven generator is endless
                    case = {'kind': 'way-limit', 'text': text, 'n': n, 'way': way}
                    core.CURRENT_CASE[0] = case
                    res.case(('way-limit', text, n, way))
                    obs = run_limit(text, 'int', n, way)
                    res.evaluations += 2
                    res.transitions += 1
                    res.nontrivial += 1 if obs['pulls'] or obs['ticks'] else 0
                    res.outcomes['way=%s limit %s' % (way, 'same as factory.create' if _same_limit_obs(obs, ref) else 'DIFFERS')] += 1
                    if not _same_limit_obs(obs, ref):
                        res.fail('options-way-differs way=%s option=yaql.limitIterators' % way, case,
                                 '%s with limitIterators=%d given by %s: outcome %s after %d pulls; given to factory.create(): %s after %d pulls'
                                 % (text, n, way, obs['out'], obs['pulls'], ref['out'], ref['pulls']), size=len(text) + 10 * n)
    elif part == 'shape':
        for n in NS[tier]:
            for shape in M.shapes(n, 2):
                if not M.buildable(shape) or M.unhashable_member(shape, True, False):
                    continue
                for way in WAYS:
                    case = {'kind': 'way-shape', 'shape': [list(l) for l in shape], 'n': n, 'way': way}
                    core.CURRENT_CASE[0] = case
                    res.case(('way-shape', shape, n, way))
                    obs = run_shape(shape, n, True, False, way)
                    res.evaluations += 1
                    res.transitions += 1
                    res.nontrivial += 1
                    bad = judge_shape(shape, n, True, False, obs)
                    res.outcomes['way=%s shape %s' % (way, 'value' if obs[0] == 'v' else obs[1])] += 1
                    if bad:
                        res.fail('options-way-differs way=%s option=yaql.limitIterators' % way, case,
                                 'result shape %r, limitIterators=%d given by %s: %s' % (shape, n, way, bad[1]))
    else:
        for chain in M.chains(1, BASE_SIZES):
            for q in QUOTAS:
                ref, rlog = run_quota(chain, q)
                for way in WAYS:
                    case = {'kind': 'way-quota', 'base': chain[0], 'size': chain[1], 'steps': list(chain[2]), 'q': q, 'way': way}
                    core.CURRENT_CASE[0] = case
                    res.case(('way-quota', chain, q, way))
                    obs, log = run_quota(chain, q, way)
                    res.evaluations += 2
                    res.transitions += log['calls']
                    res.nontrivial += 1
                    same = (obs[0], obs[1] if obs[0] == 'e' else None, [b[0] for b in log['bad']]) == \
                        (ref[0], ref[1] if ref[0] == 'e' else None, [b[0] for b in rlog['bad']])
                    res.outcomes['way=%s quota %s' % (way, 'same as factory.create' if same else 'DIFFERS')] += 1
                    if not same:
                        res.fail('options-way-differs way=%s option=yaql.memoryQuota' % way, case,
                                 '%s base size %d memoryQuota=%d given by %s: %s (largest argument %d bytes); given to factory.create(): %s'
                                 % (M.chain_text(chain), chain[1], q, way, 'value' if obs[0] == 'v' else obs[1], log['maxarg'],
                                    'value' if ref[0] == 'v' else ref[1]))
    return res


# ---------------------------------------------------------------------------
# (c) memory quota with payload taps
# ---------------------------------------------------------------------------
REPETITION = ('string_by_int', 'int_by_string', 'list_by_int', 'int_by_list')
_tapped = {}


def _handed(a):
    """The value the caller handed over: Iterable.convert wraps an iterator argument in its own
    limiting generator *after* the quota check; that wrapper (a 200+ byte generator object) is the
    library's bookkeeping, not a value of the expression."""
    while (type(a).__name__ == 'generator' and a.gi_code.co_name == 'limiting_iterator'
           and a.gi_frame is not None and 'iterable' in a.gi_frame.f_locals):
        a = a.gi_frame.f_locals['iterable']
    return a


def tapped_context():
    """A private standard-library context whose every payload is wrapped
    (FunctionDefinition.payload is an assignable slot); never the shared root."""
    if 'ctx' in _tapped:
        return _tapped['ctx']
    ctx = yaql.create_context()
    for _layer, name, fd in yq.all_definitions(ctx):
        fd.payload = _wrap(name, fd)
    _tapped['ctx'] = ctx
    _tapped['log'] = None
    return ctx


def _wrap(name, fd):
    inner = fd.payload
    pname = getattr(inner, '__name__', '?')
    by_pos = {}
    for key, p in fd.parameters.items():
        if p.position is not None and key != '*':
            by_pos[p.position] = (p.name, isinstance(p.value_type, yaqltypes.HiddenParameterType))
    hidden_kw = {key for key, p in fd.parameters.items()
                 if p.position is None and isinstance(p.value_type, yaqltypes.HiddenParameterType)}
    rep = pname in REPETITION
    getsizeof = sys.getsizeof

    def tap(*args, **kwargs):
        log = _tapped['log']
        if log is None:
            return inner(*args, **kwargs)
        q = log['q']
        log['calls'] += 1
        for i, a in enumerate(args):
            pn, hid = by_pos.get(i, ('*', False))
            if not hid:
                a = _handed(a)
                sz = getsizeof(a, 0)
                if sz > log['maxarg']:
                    log['maxarg'] = sz
                if 0 < q < sz:
                    log['bad'].append(('oversized-argument fn=%s param=%s' % (name, pn), sz, type(a).__name__))
        for kname, a in kwargs.items():
            if kname not in hidden_kw:
                a = _handed(a)
                sz = getsizeof(a, 0)
                if 0 < q < sz:
                    log['bad'].append(('oversized-argument fn=%s param=%s' % (name, kname), sz, type(a).__name__))
        if not rep:
            return inner(*args, **kwargs)
        # repetition must refuse *before* allocating: a returned product larger than Q, or (for
        # products of at least PEAK_FLOOR bytes, well above the cost of raising an exception) a
        # traced allocation peak as large as the product, shows that the product existed
        operand = [a for a in args[:2] if not isinstance(a, int)]
        count = [a for a in args[:2] if isinstance(a, int)]
        floor = 0
        if operand and count and count[0] > 0:
            floor = len(operand[0]) * count[0] * (1 if isinstance(operand[0], str) else 8)
        traced = 0 < q < floor and floor >= PEAK_FLOOR
        log['reps'] += 1
        if traced:
            tracemalloc.start()
        sz = 0
        try:
            r = inner(*args, **kwargs)
            sz = getsizeof(r, 0)
            return r
        finally:
            if traced:
                peak = tracemalloc.get_traced_memory()[1]
                tracemalloc.stop()
                log['traced'] += 1
                if peak >= floor:
                    sz = max(sz, peak)
            if sz > log['maxrep']:
                log['maxrep'] = sz
            if 0 < q < sz:
                log['bad'].append(('repetition-allocates-before-refusing operand=%s'
                                   % (type(operand[0]).__name__ if operand else '?'), sz, pname))
    return tap


def run_quota(chain, q, way='create'):
    ctx = tapped_context().create_child_context()
    kind, size, _steps = chain
    text = M.chain_text(chain)
    opts = {'yaql.memoryQuota': q} if q else {}
    log = {'q': q, 'calls': 0, 'maxarg': 0, 'maxrep': 0, 'reps': 0, 'traced': 0, 'bad': []}
    st = statement(text, opts, way)
    ctx['b'] = yutils.convert_input_data(M.base_value(kind, size))
    _tapped['log'] = log
    try:
        v = st.evaluate(context=ctx)
        obs = ('v', v)
    except Exception as e:
        obs = ('e', type(e).__name__, str(e)[:120])
    finally:
        _tapped['log'] = None
    return obs, log


def judge_quota(chain, q, obs, log):
    """[(key, detail)] - every way this case contradicts the statement."""
    out = []
    text = M.chain_text(chain)
    for key, sz, what in log['bad'][:1]:      # the first breach; later ones are its consequences
        out.append((key, '%s with base %s of size %d, memoryQuota=%d: object of own size %d bytes (%s); '
                    'expected MemoryQuotaExceededException before it exists / is passed on'
                    % (text, chain[0], chain[1], q, sz, what)))
    if obs[0] == 'v':
        if q and sys.getsizeof(obs[1], 0) > q:
            out.append(('oversized-return', '%s memoryQuota=%d returned a value of own size %d'
                        % (text, q, sys.getsizeof(obs[1], 0))))
        if M.chain_volume(chain) <= CONTROL_VOLUME or not q:
            exp = M.chain_value(chain)
            if not M.same_value(obs[1], exp):
                out.append(('wrong-value step=%s' % chain[2][-1],
                            '%s: expected %s observed %s' % (text, repr(exp)[:120], repr(obs[1])[:120])))
    elif obs[1] != 'MemoryQuotaExceededException' or not q:
        out.append(('unexpected-error step=%s error=%s' % (chain[2][-1], obs[1]),
                    '%s base size %d memoryQuota=%d raised %r; expected a value or MemoryQuotaExceededException'
                    % (text, chain[1], q, obs)))
    return out


def quota_chains(tier):
    return [c for c in M.chains(MAX_STEPS[tier], BASE_SIZES) if M.chain_volume(c) <= VOLUME_BOUND]


def job_quota(tier, k, nchunks):
    _safety()
    res = Result()
    allc = quota_chains(tier)
    for chain in allc[k::nchunks]:
        refused = {}
        for q in [0] + QUOTAS:
            if q == 0 and M.chain_volume(chain) > CONTROL_VOLUME:
                continue
            case = {'kind': 'quota', 'base': chain[0], 'size': chain[1], 'steps': list(chain[2]), 'q': q}
            core.CURRENT_CASE[0] = case
            res.case(('quota', chain, q))
            obs, log = run_quota(chain, q)
            res.evaluations += 1
            res.transitions += log['calls']
            res.nontrivial += 1 if log['calls'] else 0
            label = 'value' if obs[0] == 'v' else obs[1]
            res.outcomes['quota Q=%s %s' % (q or 'off', label)] += 1
            if log['reps']:
                res.outcomes['quota repetition payload ran'] += 1
            if log['traced']:
                res.outcomes['quota repetition refusal watched with tracemalloc'] += 1
            for key, detail in judge_quota(chain, q, obs, log):
                res.fail(key, case, detail)
            refused[q] = obs[0] == 'e'
            if len(res.samples) < 1 and obs[0] == 'e' and q == 1000 and len(chain[2]) == 2:
                res.sample({'text': M.chain_text(chain), 'base': chain[0], 'size': chain[1], 'memoryQuota': q,
                            'outcome': obs[1], 'largest_argument_seen': log['maxarg']})
        # law: refusal is monotone in the quota (a smaller quota never admits what a larger one refuses)
        qs = sorted(QUOTAS)
        for small, large in zip(qs, qs[1:]):
            if refused.get(large) and not refused.get(small):
                res.fail('refusal-not-monotone step=%s' % chain[2][-1],
                         {'kind': 'quota-law', 'base': chain[0], 'size': chain[1], 'steps': list(chain[2])},
                         '%s refused under Q=%d but accepted under Q=%d' % (M.chain_text(chain), large, small))
    return res


# (c') an oversized LITERAL handed directly to a function (constants travel in a wrapper object until the
# parameter type unwraps them: the quota applies to the value, not to the wrapper)
LITERAL_CALLS = ["len('{s}')", "isString('{s}')", "'b' in '{s}'", "'{s}'.len()", "str('{s}')", "['{s}'].len()",
                 "'{s}'.toUpper().len()", "'{s}' = 'b'", "len('{s}' + 'c')", "coalesce(null, '{s}').len()"]


def run_text_under_quota(text, q):
    ctx = tapped_context().create_child_context()
    log = {'q': q, 'calls': 0, 'maxarg': 0, 'maxrep': 0, 'reps': 0, 'traced': 0, 'bad': []}
    st = yq.parse(text, {'yaql.memoryQuota': q} if q else {})
    _tapped['log'] = log
    try:
        obs = ('v', st.evaluate(context=ctx))
    except Exception as e:
        obs = ('e', type(e).__name__, str(e)[:120])
    finally:
        _tapped['log'] = None
    return obs, log


def job_quota_literals():
    _safety()
    res = Result()
    for q in QUOTAS:
        for n in (q // 2, q - 60, q + 60, 3 * q):      # own size of a str is 49 + n: two below, two above the quota
            lit = 'a' * n
            over = sys.getsizeof(lit) > q
            for tmpl in LITERAL_CALLS:
                text = tmpl.replace('{s}', lit)
                case = {'kind': 'quota-literal', 'template': tmpl, 'n': n, 'q': q}
                core.CURRENT_CASE[0] = case
                res.case(('quota-literal', tmpl, n, q))
                obs, log = run_text_under_quota(text, q)
                res.evaluations += 1
                res.transitions += log['calls']
                res.nontrivial += 1
                shown = tmpl.replace('{s}', 'a...(%d chars)' % n)
                res.outcomes['quota literal %s -> %s' % ('over' if over else 'under', 'value' if obs[0] == 'v' else obs[1])] += 1
                for key, sz, what in log['bad'][:1]:
                    res.fail(key.replace('oversized-argument', 'oversized-literal-argument'), case,
                             '%s with memoryQuota=%d: a %d byte literal was passed on to a function (%s)' % (shown, q, sz, what))
                if over and obs[0] == 'v' and not log['bad'] and tmpl.startswith(("len(", "isString(", "str(")):
                    res.fail('oversized-literal-argument accepted', case,
                             '%s with memoryQuota=%d evaluated to %.40r instead of MemoryQuotaExceededException' % (shown, q, obs[1]))
                if not over and obs[0] == 'e':
                    res.fail('unexpected-error literal under quota error=%s' % obs[1], case,
                             '%s with memoryQuota=%d raised %r' % (shown, q, obs))
    res.sample({'kind': 'quota-literal', 'templates': LITERAL_CALLS[:3], 'quotas': QUOTAS})
    return res


# ---------------------------------------------------------------------------
def jobs(tier, seed):
    out = []
    nl = 24
    for k in range(nl):
        out.append(('limit-%02d' % k, 'job_limit', (tier, k, nl)))
    for n in [-1] + NS[tier]:
        ns = 2 if n < 10 else 8
        for k in range(ns):
            out.append(('shape-N%d-%d' % (n, k), 'job_shapes', (tier, n, k, ns)))
    nq = 24 if tier == 'quick' else 48
    for k in range(nq):
        out.append(('quota-%02d' % k, 'job_quota', (tier, k, nq)))
    out.append(('quota-literals', 'job_quota_literals', ()))
    for n in [-1] + NS[tier]:
        out.append(('key-shapes-N%d' % n, 'job_keys', (n,)))
    for part in ('limit', 'shape', 'quota'):
        out.append(('ways-' + part, 'job_ways', (tier, part)))
    for n in [-1] + NS[tier]:
        for origin in M.RK_ORIGINS:
            out.append(('result-kinds-N%d-%s' % (n, origin), 'job_result_kinds', (tier, n, origin)))
    return out


def finish(total, tier):
    gen, skipped = call_texts()
    total.extra['definitions_without_corpus_for_some_position'] = skipped
    total.extra['limit_call_texts'] = len(limit_texts())
    total.extra['source_positions_covered'] = len({(fn, payload, param) for _t, fn, payload, param in gen})


def replay(case):
    k = case['kind']
    if k == 'quota-literal':
        text = case['template'].replace('{s}', 'a' * case['n'])
        obs, log = run_text_under_quota(text, case['q'])
        return {'observed': repr((obs[:2], log['bad'][:1])), 'expected': 'MemoryQuotaExceededException iff the literal is larger than the quota; never handed to a function when larger',
                'ok': not log['bad'] and not (sys.getsizeof('a' * case['n']) > case['q'] and obs[0] == 'v' and case['template'].startswith(('len(', 'isString(', 'str(')))}
    if k == 'result-kind':
        spec = (tuple(case['wrappers']), case['leaf'], case['size'], case['origin'])
        obs = run_result_kind(spec, case['n'], case['t2l'], case['s2l'])
        bad = judge_result_kind(spec, case['n'], case['t2l'], case['s2l'], obs)
        return {'text': M.rk_text(spec), 'observed': repr(_short(obs)),
                'expected': 'CollectionTooLargeException' if M.rk_too_large(spec, case['n'])
                else repr(M.rk_image(spec, case['t2l'], case['s2l'])),
                'ok': bad in (None, 'ood'), 'key': bad[0] if isinstance(bad, tuple) else None}
    if k == 'key-shape':
        kshape = (tuple(case['wrappers']), case['key'], case['size'])
        obs, pulls = run_key_shape(kshape, case['n'], case['t2l'], case['s2l'], case['legacy'], case.get('form', 'data'))
        bad = judge_key_shape(kshape, case['n'], case['t2l'] and not case['legacy'], obs, pulls)
        return {'observed': repr((_short(obs), 'pulls=%d' % pulls)),
                'expected': 'CollectionTooLargeException' if M.key_too_large(kshape, case['n']) else repr(M.key_image(kshape, case['t2l'] and not case['legacy'])),
                'ok': bad in (None, 'ood'), 'key': bad[0] if isinstance(bad, tuple) else None}
    if k == 'way-limit':
        ref = run_limit(case['text'], 'int', case['n'])
        obs = run_limit(case['text'], 'int', case['n'], case['way'])
        return {'observed': _strip(obs), 'expected': _strip(ref), 'ok': _same_limit_obs(obs, ref)}
    if k == 'way-shape':
        shape = tuple((a, b) for a, b in case['shape'])
        obs = run_shape(shape, case['n'], True, False, case['way'])
        bad = judge_shape(shape, case['n'], True, False, obs)
        return {'observed': repr(_short(obs)), 'expected': 'CollectionTooLargeException' if M.too_large(shape, case['n'])
                else repr(M.image(shape, True, False)), 'ok': bad is None}
    if k == 'way-quota':
        chain = (case['base'], case['size'], tuple(case['steps']))
        ref, rlog = run_quota(chain, case['q'])
        obs, log = run_quota(chain, case['q'], case['way'])
        return {'observed': (obs[0] == 'v' and 'value') or obs[1], 'expected': (ref[0] == 'v' and 'value') or ref[1],
                'ok': (obs[0], obs[0] == 'e' and obs[1]) == (ref[0], ref[0] == 'e' and ref[1])}
    if k == 'limit':
        obs = run_limit(case['text'], case['flavour'], case['n'])
        bad = judge_limit(case['text'], case['n'], obs)
        return {'observed': _strip(obs), 'expected': 'pulls <= %d, no HORIZON, no collection larger than N in the result'
                % (case['n'] + 1), 'ok': bad is None, 'key': bad[0] if bad else None}
    if k == 'shape':
        shape = tuple((a, b) for a, b in case['shape'])
        obs = run_shape(shape, case['n'], case['t2l'], case['s2l'])
        bad = judge_shape(shape, case['n'], case['t2l'], case['s2l'], obs)
        exp = ('CollectionTooLargeException' if M.too_large(shape, case['n'])
               else repr(M.image(shape, case['t2l'], case['s2l'])))
        return {'observed': repr(_short(obs)), 'expected': exp, 'ok': bad is None, 'key': bad[0] if bad else None}
    if k in ('quota', 'quota-law'):
        chain = (case['base'], case['size'], tuple(case['steps']))
        outs = {}
        ok = True
        for q in ([case['q']] if k == 'quota' else QUOTAS):
            obs, log = run_quota(chain, q)
            bad = judge_quota(chain, q, obs, log)
            ok = ok and not bad
            outs['Q=%d' % q] = {'outcome': 'value' if obs[0] == 'v' else obs[1], 'violations': [b[0] for b in bad],
                                'largest_argument': log['maxarg'], 'largest_repetition_product': log['maxrep']}
        return {'observed': outs, 'text': M.chain_text(chain),
                'expected': 'no argument, product of a repetition or returned value with own size > Q',
                'ok': ok and k == 'quota'}
    return {'ok': False, 'observed': 'unknown case kind'}
