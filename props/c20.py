"""C20 - date/time values denote instants consistently.

E3 small-scope enumeration.  Every datetime of a boundary grid (years 1, 2,
1969, 1970, 1971, 2000, 2038, 9998, 9999 x 4 month/day edges x 3 times of
day) at every offset of a 41-offset core, and a 12-datetime core at every
minute offset in (-24 h, 24 h), is built by the implementation's own
datetime(...), read back *unfinalised* field by field, and compared with the
integer model of models/instants.py (instant = microseconds since the epoch,
offset in minutes).  On each value the laws of the statement are executed:
.timestamp, .utc, .offset, datetime(d.timestamp, d.offset), datetime(s, o),
d + t, t + d, d - t, (d + t) - t, (d + t) - d; all six comparison operators on
pairs of values that are the same instant at two offsets / 1 us apart / the
same wall clock at two offsets; timespans from integer components of either
sign with their unit properties; host-supplied naive and aware datetimes.
Float tolerance max(1 us, 2 ulp) only where the statement says "up to
rounding"; everything else is exact.
"""
import datetime
import itertools
import os
import time
from fractions import Fraction

import vf.loader  # noqa: F401
from vf import yq
from vf.core import Result
from models import instants as I

ID = 'C20'
TITLE = 'date/time values denote instants'
RULE = ('one case = (law, datetime fields, offset[, timespan | second offset and relation | timestamp]); a case is '
        'non-trivial when every value the law mentions is representable (wall clock and, where UTC is formed, the UTC '
        'reading within years 1..9999) - otherwise it is counted out of domain; distinct by (law, arguments)')
ASSUMPTIONS = [
    'proleptic Gregorian calendar, no leap seconds, fixed offsets (the documented datetime(...) takes an offset, not a zone)',
    'values whose wall clock or UTC reading leaves years 1..9999 are out of domain (the host type cannot represent them)',
    'float tolerance max(1 us, 2 ulp) is applied to .timestamp, datetime(float), datetime(d.timestamp, d.offset) and the '
    'float unit properties only',
    'host objects are read through their public fields (year..microsecond, utcoffset(); days/seconds/microseconds)',
    'the check runs with the process time zone set to UTC+05:45 so that local time differs from UTC',
    'engine options (yaql.convertInputData, yaql.convertOutputData, yaql.limitIterators, yaql.memoryQuota) do not change '
    'what a date/time function computes; in particular a naive host datetime is UTC under every option set and by every '
    'route it can arrive ($ data, context variable, context(name, engine)(...))',
]
BOUNDS = {
    'quick': '108 grid datetimes x 41 offsets x (construct, fields, offset, timestamp, utc, round trip, 2 timestamps x 2, '
             '2 timespans x 5 arithmetic laws); 2 core datetimes x all 2879 minute offsets and the 2 extreme ones x every 5th '
             'minute x (construct, offset, timestamp, utc, round trip); 4 datetimes x 41 x 13 offsets x 3 relations x 6 '
             'comparison operators; timespans with <= 2 non-zero components over {0,+-1,+-59,+-86399,+-10^6} and 3 non-zero '
             'ones over {1,-59,86399,-10^6} x (construct, 6 unit properties, rebuild); 108 naive '
             'host datetimes x 4 option sets x 3 routes (data, variable, host call) and 108 x 9 aware host datetimes; 4 x 41 '
             'aware values under 3 non-default option sets',
    'thorough': '108 grid datetimes x 41 offsets x (..., 3 timestamps x 2, 11 timespans x 5 arithmetic laws); 12 core '
                'datetimes x all 2879 minute offsets x (construct, offset, timestamp, utc, round trip, from-timestamp x 2); '
                '12 core datetimes x 41 x 41 offsets and the other 96 grid datetimes x 41 x 13 offsets x 3 relations x 6 comparison '
                'operators; timespans with <= 4 non-zero '
                'components plus the full product over {0, 1, -59, 86399, -10^6}; 108 naive (x 4 option sets x 3 routes) and 108 x 41 aware host datetimes; '
                '4 x 41 aware values under 3 non-default option sets',
}

OPTS = {'yaql.convertOutputData': False}
# engine options that must not change what a date/time function computes (in particular: a naive host
# datetime is taken as UTC whether or not the engine converts its input data)
OPTION_SETS = {
    'raw-input': {'yaql.convertInputData': False, 'yaql.convertOutputData': False},
    'raw-input-finalised': {'yaql.convertInputData': False},
    'limits': {'yaql.limitIterators': 1000, 'yaql.memoryQuota': 1000000},
}

# The host's own zone must not be UTC, or "a naive datetime is taken as UTC" could not be told from
# "... is taken as local time".  A POSIX TZ string needs no zone database: UTC+05:45, no DST.
os.environ['TZ'] = 'VRF-05:45'
time.tzset()

# ---------------------------------------------------------------------------
# alphabets
# ---------------------------------------------------------------------------
YEARS = [1970, 2000, 1969, 1971, 2038, 1, 2, 9998, 9999]
TIMES = [(0, 0, 0, 0), (12, 34, 56, 789012), (23, 59, 59, 999999)]


def grid():
    out = []
    for y in YEARS:
        for mo, d in ((1, 1), (2, I.days_in_month(y, 2)), (3, 1), (12, 31)):
            for t in TIMES:
                out.append((y, mo, d) + t)
    return out


GRID = grid()
CORE12 = [(y, mo, d) + t for y in (1970, 2000, 1969, 2038, 1, 9999)
          for (mo, d, t) in ((1, 1, TIMES[0]), (12, 31, TIMES[2]))]
CORE4 = [(1970, 1, 1) + TIMES[0], (2000, 12, 31) + TIMES[2], (1, 1, 1) + TIMES[2], (9999, 12, 31) + TIMES[0]]
OFFSETS = [0] + [s * m for m in (1, 2, 29, 30, 59, 60, 61, 120, 180, 330, 345, 540, 570, 719, 720, 765, 840,
                                 1380, 1438, 1439) for s in (1, -1)]
ALL_MINUTES = list(range(-1439, 1440))
O2_FEW = [0] + [s * m for m in (1, 60, 330, 720, 765, 1439) for s in (1, -1)]
VALUES = [0, 1, -1, 59, -59, 86399, -86399, 10 ** 6, -10 ** 6]
SPANS = [{'microseconds': 1}, {'seconds': -86399}, {'days': 1, 'microseconds': -1}, {'days': 10 ** 6},
         {'hours': -1, 'minutes': 59},
         {}, {'microseconds': -1}, {'seconds': 59}, {'days': -10 ** 6}, {'milliseconds': 10 ** 6, 'minutes': -59},
         {'hours': 10 ** 6, 'days': -1}]
OPS = ('=', '!=', '<', '<=', '>', '>=')

BUILD = 'datetime($y, $mo, $d, $h, $mi, $s, $us, offset => timespan(minutes => $o))'
BUILD_SPAN = ('timespan(days => $a, hours => $b, minutes => $c, seconds => $e, '
              'milliseconds => $f, microseconds => $g)')
COMPARE = '[%s]' % ', '.join('$a %s $b' % op for op in OPS)
UNITS = ('microseconds', 'milliseconds', 'seconds', 'minutes', 'hours', 'days')
UNITS_TEXT = '[%s]' % ', '.join('$x.' + u for u in UNITS)

KEY_UTC = ('utc keeps the original offset: d.utc is d - d.offset with the zone unchanged '
           '(instant shifted by the offset, result not at offset zero)')
KEY_TS = ('timestamp of a datetime with non-zero offset is off by the offset '
          '(computed through the defective utc: the offset is subtracted twice)')
KEY_NAIVE_TS = ('naive host datetime: .timestamp raises TypeError '
                '(property declared with the bare datetime type, value not taken as UTC)')
KEY_NAIVE_EQ = ('naive host datetime: = and != do not take it as UTC '
                '(generic equality compares a naive with an aware value)')


# ---------------------------------------------------------------------------
# observation
# ---------------------------------------------------------------------------
def observe(text, variables=None, data=yq.NO_VALUE, options=OPTS):
    try:
        return ('v', yq.evaluate(text, data=data, variables=variables, options=options))
    except Exception as e:
        return ('e', type(e).__name__)


def host_call(name, options, *args):
    """The host-facing way to call a function: context(name, engine)(*args)."""
    try:
        return ('v', yq.root()(name, yq.engine(options))(*args))
    except Exception as e:
        return ('e', type(e).__name__)


def span_us(x):
    """A host timespan as integer microseconds, or None."""
    if not isinstance(x, datetime.timedelta):
        return None
    return (x.days * 86400 + x.seconds) * I.US + x.microseconds


def read(x):
    """A host datetime as the model's (instant, offset) pair; None if it is
    not an aware datetime with a whole-minute offset."""
    if not isinstance(x, datetime.datetime):
        return None
    off = span_us(x.utcoffset())
    if off is None or off % I.MIN_US:
        return None
    return I.make(x.year, x.month, x.day, x.hour, x.minute, x.second, x.microsecond, off // I.MIN_US)


def show(obs):
    if obs[0] == 'v' and isinstance(obs[1], datetime.datetime):
        return 'datetime %s -> %r' % (obs[1].isoformat(), read(obs[1]))
    return repr(obs)[:300]


def build_vars(civil, o):
    v = dict(zip(('y', 'mo', 'd', 'h', 'mi', 's', 'us'), civil))
    v['o'] = o
    return v


class Laws(object):
    """Bookkeeping shared by all jobs: one `law` call = one judged transition."""

    def __init__(self, res, label=None):
        self.res = res
        self.label = label                      # name of a non-default option set
        self.options = OPTION_SETS[label] if label else OPTS

    def count(self, law, ident):
        self.res.case((law,) + ((self.label,) if self.label else ()) + tuple(ident))
        self.res.evaluations += 1

    def run(self, law, ident, text, variables=None, data=yq.NO_VALUE):
        self.count(law, ident)
        return observe(text, variables, data, self.options)

    def call(self, law, ident, name, *args):
        self.count(law, ident)
        return host_call(name, self.options, *args)

    def ood(self, law):
        self.res.transitions += 1
        self.res.out_of_domain += 1
        self.res.outcomes[law + ' out-of-domain'] += 1

    def verdict(self, law, ok, obs, expected, case, key=None):
        self.res.transitions += 1
        self.res.nontrivial += 1
        self.res.outcomes['%s %s' % (law, 'value' if obs[0] == 'v' else 'error:' + obs[1])] += 1
        if not ok:
            case = dict(case, law=law)
            if self.label:
                case['options'] = self.label
                key = key or 'model-mismatch law=%s options=%s' % (law, self.label)
            self.res.fail(key or 'model-mismatch law=%s' % law, case,
                          'observed %s expected %s' % (show(obs), expected))


def dt_equal(obs, exp):
    return obs[0] == 'v' and read(obs[1]) == exp


def span_equal(obs, us):
    return obs[0] == 'v' and span_us(obs[1]) == us


def ts_range(us, o):
    """A timestamp is safely inside the range in which datetime(s, o) exists."""
    lo, hi = I.LOCAL_MIN + I.US, I.LOCAL_MAX - I.US
    return lo <= us <= hi and lo <= us + o * I.MIN_US <= hi


# ---------------------------------------------------------------------------
# the laws on one datetime
# ---------------------------------------------------------------------------
def check_value(L, exp, d, case, ident, level):
    """Laws on one datetime value `d` (a host object produced by the
    implementation or supplied by the host) that the model reads as `exp`."""
    o = exp[1]
    dv = {'d': d}
    utc_ok = I.utc_representable(exp)
    shifted = exp[0] - o * I.MIN_US            # what the known defect makes of the instant

    obs = L.run('offset', ident, '$d.offset', dv)
    L.verdict('offset', span_equal(obs, o * I.MIN_US), obs, '%d minutes' % o, case)

    obs = L.run('timestamp', ident, '$d.timestamp', dv)
    ts_wrong = False
    if not utc_ok:
        L.ood('timestamp')
    else:
        ok = obs[0] == 'v' and I.close(obs[1], Fraction(exp[0], I.US), I.US)
        ts_wrong = not ok
        key = KEY_TS if (o and obs[0] == 'v' and I.close(obs[1], Fraction(shifted, I.US), I.US)) else None
        L.verdict('timestamp', ok, obs, 'about %s' % (exp[0] / I.US,), case, key)

    obs = L.run('utc', ident, '$d.utc', dv)
    if not utc_ok:
        L.ood('utc')
    else:
        key = KEY_UTC if (o and obs[0] == 'v' and read(obs[1]) == (shifted, o)) else None
        L.verdict('utc', dt_equal(obs, I.utc(exp)), obs, repr(I.utc(exp)), case, key)

    obs = L.run('round-trip', ident, 'datetime($d.timestamp, $d.offset)', dv)
    if not (utc_ok and ts_range(exp[0], o)):
        L.ood('round-trip')
    else:
        r = read(obs[1]) if obs[0] == 'v' else None
        ok = r is not None and r[1] == o and I.instant_close(r[0], exp[0])
        # a wrong .timestamp (judged above under its own key) necessarily breaks this law as well
        # (either a value built from the shifted instant, or no value when the shifted instant is out of range)
        key = KEY_TS if (not ok and ts_wrong and o and (
            I.instant_close(r[0], shifted) if r is not None
            else obs[0] == 'e' and not ts_range(shifted, o))) else None
        L.verdict('round-trip', ok, obs, 'about %r' % (exp,), case, key)

    if level == 'light':
        return
    obs = L.run('fields', ident, '[$d.year, $d.month, $d.day, $d.hour, $d.minute, $d.second, $d.microsecond]', dv)
    want = list(I.fields(exp))
    L.verdict('fields', obs[0] == 'v' and list(obs[1]) == want, obs, repr(want), case)


def check_from_timestamp(L, s, o, case, ident):
    exact = Fraction(s) * I.US
    if not ts_range(int(exact), o):
        L.run('from-timestamp', ident, 'datetime($s, timespan(minutes => $o))', {'s': s, 'o': o})
        L.ood('from-timestamp')
        return
    v = {'s': s, 'o': o}
    case = dict(case, s=repr(s))
    obs = L.run('from-timestamp', ident, 'datetime($s, timespan(minutes => $o))', v)
    r = read(obs[1]) if obs[0] == 'v' else None
    ok = r is not None and r[1] == o and (r[0] == exact if isinstance(s, int) else I.instant_close(r[0], exact))
    L.verdict('from-timestamp', ok, obs, 'instant %s at offset %d' % (exact, o), case)
    obs = L.run('from-timestamp.timestamp', ident, 'datetime($s, timespan(minutes => $o)).timestamp', v)
    ok = obs[0] == 'v' and I.close(obs[1], Fraction(s), I.US)
    key = KEY_TS if (o and obs[0] == 'v' and I.close(obs[1], Fraction(s) - o * 60, I.US)) else None
    L.verdict('from-timestamp.timestamp', ok, obs, 'about %r' % (s,), case, key)


_spans = {}


def host_span(spec):
    """The host timespan for a component dict, built by the implementation
    (once per worker), with the model's microseconds."""
    k = tuple(sorted(spec.items()))
    if k not in _spans:
        text = 'timespan(%s)' % ', '.join('%s => %d' % kv for kv in sorted(spec.items()))
        _spans[k] = (observe(text), I.timespan(**spec))
    return _spans[k]


def check_arithmetic(L, exp, d, spec, case, ident):
    tobs, t = host_span(spec)
    if tobs[0] != 'v' or span_us(tobs[1]) != t:
        L.verdict('timespan-construct', False, tobs, '%d us' % t, dict(case, span=spec))
        return
    v = {'d': d, 't': tobs[1]}
    case = dict(case, span=spec)
    ident = ident + (tuple(sorted(spec.items())),)
    later, earlier = I.plus(exp, t), I.plus(exp, -t)
    for law, text, want, dom in (
            ('d+t', '$d + $t', later, I.representable(later)),
            ('t+d', '$t + $d', later, I.representable(later)),
            ('d-t', '$d - $t', earlier, I.representable(earlier)),
            ('(d+t)-t', '($d + $t) - $t', exp, I.representable(later))):
        obs = L.run(law, ident, text, v)
        if not dom:
            L.ood(law)
        else:
            L.verdict(law, dt_equal(obs, want), obs, repr(want), case)
    obs = L.run('(d+t)-d', ident, '($d + $t) - $d', v)
    if not I.representable(later):
        L.ood('(d+t)-d')
    else:
        L.verdict('(d+t)-d', span_equal(obs, t), obs, '%d us' % t, case)


def build(L, civil, o, case, ident):
    """datetime(fields, offset) through the implementation; judged against the model."""
    exp = I.make(*civil, o)
    obs = L.run('construct', ident, BUILD, build_vars(civil, o))
    L.verdict('construct', dt_equal(obs, exp), obs, repr(exp), case)
    return exp, (obs[1] if dt_equal(obs, exp) else None)


# ---------------------------------------------------------------------------
# jobs
# ---------------------------------------------------------------------------
def job_grid(tier, civils):
    res = Result()
    L = Laws(res)
    spans = SPANS if tier == 'thorough' else SPANS[1:3]
    for civil in civils:
        for o in OFFSETS:
            case = {'kind': 'value', 'civil': list(civil), 'offset': o}
            ident = ('grid', civil, o)
            exp, d = build(L, civil, o, case, ident)
            if d is None:
                continue
            check_value(L, exp, d, case, ident, 'full')
            sec = exp[0] // I.US
            for s in (sec, float(sec) + 0.5, exp[0] / I.US)[:3 if tier == 'thorough' else 2]:
                check_from_timestamp(L, s, o, case, ident + (repr(s),))
            for spec in spans:
                check_arithmetic(L, exp, d, spec, case, ident)
        if len(res.samples) < 1:
            res.sample({'civil': civil, 'offset': 180, 'utc': show(observe(BUILD + '.utc', build_vars(civil, 180)))})
    return res


def job_minutes(tier, offsets):
    res = Result()
    L = Laws(res)
    for n, civil in enumerate(CORE12 if tier == 'thorough' else CORE4):
        for o in offsets:
            if tier != 'thorough' and n >= 2 and o % 5:
                continue            # quick: the two extreme datetimes at every 5th minute only
            case = {'kind': 'value', 'civil': list(civil), 'offset': o, 'level': 'light'}
            ident = ('minutes', civil, o)
            exp, d = build(L, civil, o, case, ident)
            if d is None:
                continue
            check_value(L, exp, d, case, ident, 'light')
            if tier == 'thorough':
                sec = exp[0] // I.US
                check_from_timestamp(L, sec, o, case, ident + (repr(sec),))
    return res


RELATIONS = ('same-instant', 'one-us-later', 'same-wall-clock')


def related(a, o2, relation, civil):
    if relation == 'same-instant':
        return I.at_offset(a, o2)
    if relation == 'one-us-later':
        return I.plus(I.at_offset(a, o2), 1)
    return I.make(*civil, o2)


def check_pair(L, a_exp, a, b_exp, b, case, ident, a_as_data=False):
    if a_as_data:
        obs = L.run('compare', ident, COMPARE.replace('$a', '$'), {'b': b}, data=a)
    else:
        obs = L.run('compare', ident, COMPARE, {'a': a, 'b': b})
    want = [I.compare(op, a_exp, b_exp) for op in OPS]
    got = list(obs[1]) if obs[0] == 'v' else None
    naive = any(isinstance(x, datetime.datetime) and x.tzinfo is None for x in (a, b))
    for i, op in enumerate(OPS):
        ok = got is not None and len(got) == len(OPS) and got[i] is want[i]
        key = None
        if not ok and naive and got is not None and op in ('=', '!='):
            key = KEY_NAIVE_EQ
        L.verdict('compare ' + op, ok, ('v', got[i]) if got is not None else obs, repr(want[i]), case, key)


def job_pairs(tier, civils, part, parts, o2s):
    """Pairs (a, b): a = civil at o1 for the o1 of this part, b related to a at every o2 of o2s."""
    res = Result()
    L = Laws(res)
    for civil in civils:
        built = {}
        for o in OFFSETS:
            built[o] = build(L, civil, o, {'kind': 'value', 'civil': list(civil), 'offset': o},
                             ('pairs', part, civil, o))
        for o1 in OFFSETS[part::parts]:
            a_exp, a = built[o1]
            if a is None:
                continue
            for o2 in o2s:
                for rel in RELATIONS:
                    case = {'kind': 'pair', 'civil': list(civil), 'offset': o1, 'offset2': o2, 'relation': rel}
                    ident = ('pairs', civil, o1, o2, rel)
                    b_exp = related(a_exp, o2, rel, civil)
                    if not I.representable(b_exp):
                        res.case(('compare',) + ident)
                        L.ood('compare')
                        continue
                    if rel == 'same-wall-clock':
                        b = built[o2][1]
                    else:
                        _, b = build(L, I.fields(b_exp), o2, case, ident + ('b',))
                    if b is not None:
                        check_pair(L, a_exp, a, b_exp, b, case, ident)
    return res


def span_specs(tier):
    """Component tuples (days, hours, minutes, seconds, milliseconds, microseconds)."""
    most = 4 if tier == 'thorough' else 2
    out = [c for c in itertools.product(VALUES, repeat=6) if sum(1 for x in c if x) <= most]
    if tier == 'quick':
        out += [c for c in itertools.product([0, 1, -59, 86399, -10 ** 6], repeat=6) if sum(1 for x in c if x) == 3]
    if tier == 'thorough':
        seen = set(out)
        out += [c for c in itertools.product([0, 1, -59, 86399, -10 ** 6], repeat=6) if c not in seen]
    return out


def check_span(L, comps):
    case = {'kind': 'span', 'components': list(comps)}
    t = I.timespan(*comps)
    obs = L.run('timespan-construct', comps, BUILD_SPAN, dict(zip('abcefg', comps)))
    L.verdict('timespan-construct', span_equal(obs, t), obs, '%d us' % t, case)
    if not span_equal(obs, t):
        return
    xv = {'x': obs[1]}
    obs = L.run('units', comps, UNITS_TEXT, xv)
    got = list(obs[1]) if obs[0] == 'v' else None
    for i, u in enumerate(UNITS):
        if got is None or len(got) != len(UNITS):
            L.verdict('unit ' + u, False, obs, 'a list of %d numbers' % len(UNITS), case)
        elif u == 'microseconds':
            # "timespan(microseconds => x.microseconds) = x exactly" needs the exact integer
            L.verdict('unit ' + u, type(got[i]) is int and got[i] == t, ('v', got[i]), repr(t), case)
        else:
            exact = Fraction(t, I.UNIT_US[u])
            L.verdict('unit ' + u, I.close(got[i], exact, I.UNIT_US[u]), ('v', got[i]), 'about %s' % float(exact), case)
    obs = L.run('rebuild', comps, 'timespan(microseconds => $x.microseconds) = $x', xv)
    L.verdict('rebuild', obs == ('v', True), obs, 'True', case)


def job_spans(tier, part, parts):
    res = Result()
    L = Laws(res)
    for comps in span_specs(tier)[part::parts]:
        check_span(L, comps)
    return res


UTC = datetime.timezone.utc


def job_host(tier, civils):
    """Host-supplied datetime objects bound as data ($): naive ones are taken
    as UTC; aware ones carry a stdlib fixed-offset zone."""
    res = Result()
    L = Laws(res)
    one_us = host_span({'microseconds': 1})[0][1]
    for civil in civils:
        naive = datetime.datetime(*civil)
        exp = I.make(*civil, 0)
        case = {'kind': 'host-naive', 'civil': list(civil)}
        ident = ('naive', civil)
        for label in (None,) + tuple(sorted(OPTION_SETS)):
            for route in NAIVE_ROUTES:
                check_naive(Laws(res, label), naive, exp, case, ident, one_us, route)
        for o in (OFFSETS if tier == 'thorough' else OFFSETS[:9]):
            aware = datetime.datetime(*civil, tzinfo=datetime.timezone(datetime.timedelta(minutes=o)))
            exp = I.make(*civil, o)
            case = {'kind': 'host-aware', 'civil': list(civil), 'offset': o}
            ident = ('aware', civil, o)
            check_value(L, exp, aware, case, ident, 'full')
            b_exp, b = build(L, civil, o, case, ident)
            if b is not None:
                check_pair(L, exp, aware, b_exp, b, case, ident)
    return res


HOST_OPS = (('*equal', '='), ('*not_equal', '!='), ('#operator_<', '<'), ('#operator_<=', '<='),
            ('#operator_>', '>'), ('#operator_>=', '>='))


def check_naive(L, naive, exp, case, ident, one_us, route='data'):
    """A host datetime without zone is taken as UTC.  route: the value arrives as `$` data, as a context
    variable, or as an argument of context(name, engine)(...)."""
    twin = naive.replace(tzinfo=UTC)
    case = dict(case, route=route)
    ident = ident + (route,)
    if route == 'host-call':
        for name, op in HOST_OPS:
            for x, y, tag in ((naive, twin, 'naive,aware'), (twin, naive, 'aware,naive')):
                obs = L.call('naive host-call ' + op, ident + (tag,), name, x, y)
                want = I.compare(op, exp, exp)
                L.verdict('naive host-call ' + op, obs[0] == 'v' and obs[1] is want, obs, repr(want), dict(case, args=tag))
        obs = L.call('naive host-call -', ident, '#operator_-', naive, twin)
        L.verdict('naive host-call -', span_equal(obs, 0), obs, '0 us', case)
        return

    def run(law, text, variables=None):
        if route == 'data':
            return L.run(law, ident, text.replace('$n', '$'), variables, data=naive)
        return L.run(law, ident, text, dict(variables or {}, n=naive))

    obs = run('naive.timestamp', '$n.timestamp')
    ok = obs[0] == 'v' and I.close(obs[1], Fraction(exp[0], I.US), I.US)
    L.verdict('naive.timestamp', ok, obs, 'about %s' % (exp[0] / I.US,), case,
              KEY_NAIVE_TS if obs == ('e', 'TypeError') and not L.label else None)
    obs = run('naive.utc', '$n.utc')
    L.verdict('naive.utc', dt_equal(obs, exp), obs, repr(exp), case)
    obs = run('naive.offset', '$n.offset')
    L.verdict('naive.offset', span_equal(obs, 0), obs, '0', case)
    obs = run('naive round-trip', 'datetime($n.timestamp, $n.offset)')
    if ts_range(exp[0], 0):
        r = read(obs[1]) if obs[0] == 'v' else None
        L.verdict('naive round-trip', r is not None and r[1] == 0 and I.instant_close(r[0], exp[0]), obs,
                  'about %r' % (exp,), case)
    else:
        L.ood('naive round-trip')
    obs = run('naive+t', '$n + $t', {'t': one_us})
    if I.representable(I.plus(exp, 1)):
        L.verdict('naive+t', dt_equal(obs, I.plus(exp, 1)), obs, repr(I.plus(exp, 1)), case)
    else:
        L.ood('naive+t')
    obs = run('naive-aware', '$n - $u', {'u': twin})
    L.verdict('naive-aware', span_equal(obs, 0), obs, '0 us', case)
    obs = run('aware-naive', '$u - $n', {'u': twin})
    L.verdict('aware-naive', span_equal(obs, 0), obs, '0 us', case)
    as_data = route == 'data'
    check_pair(L, exp, naive, exp, twin, dict(case, other='host aware UTC twin'), ident + ('twin',), as_data)
    check_pair(L, exp, twin, exp, naive, dict(case, other='host aware UTC twin, naive on the right'),
               ident + ('twin-left',))
    b_exp, b = build(L, case['civil'], 0, case, ident)
    if b is not None:
        check_pair(L, exp, naive, b_exp, b, dict(case, other='datetime(...) of the same fields'),
                   ident + ('built',), as_data)
    check_pair(L, exp, naive, exp, datetime.datetime(*case['civil']), dict(case, other='equal naive'),
               ident + ('naive',), as_data)


NAIVE_ROUTES = ('data', 'variable', 'host-call')


def job_options(tier, label):
    """Aware values under a non-default option set: options must not change the results."""
    res = Result()
    L = Laws(res, label)
    for civil in CORE4:
        for o in OFFSETS:
            case = {'kind': 'value', 'civil': list(civil), 'offset': o, 'level': 'light'}
            ident = ('options', civil, o)
            exp, d = build(L, civil, o, case, ident)
            if d is None:
                continue
            check_value(L, exp, d, case, ident, 'light')
            check_arithmetic(L, exp, d, SPANS[1], case, ident)
            z_exp = I.utc(exp)
            if I.representable(z_exp):
                _, z = build(L, I.fields(z_exp), 0, case, ident + ('utc',))
                if z is not None:
                    check_pair(L, exp, d, z_exp, z, dict(case, kind='pair', offset2=0, relation='same-instant'), ident)
    return res


def jobs(tier, seed):
    out = []
    thorough = tier == 'thorough'
    n = 12 if thorough else 16
    for i in range(n):
        out.append(('grid-%02d' % i, 'job_grid', (tier, GRID[i::n])))
    n = 12 if thorough else 15
    for i in range(n):
        out.append(('minutes-%02d' % i, 'job_minutes', (tier, ALL_MINUTES[i::n])))
    if thorough:
        for i, c in enumerate(CORE12):
            out.append(('pairs-core-%02d' % i, 'job_pairs', (tier, [c], 0, 1, OFFSETS)))
        rest = [c for c in GRID if c not in CORE12]
        for i in range(14):
            out.append(('pairs-grid-%02d' % i, 'job_pairs', (tier, rest[i::14], 0, 1, O2_FEW)))
    else:
        for i, c in enumerate(CORE4):
            for part in range(4):
                out.append(('pairs-%02d-%d' % (i, part), 'job_pairs', (tier, [c], part, 4, O2_FEW)))
    n = 7 if thorough else 10
    for i in range(n):
        out.append(('spans-%02d' % i, 'job_spans', (tier, i, n)))
    for label in sorted(OPTION_SETS):
        out.append(('options-' + label, 'job_options', (tier, label)))
    for i in range(4):
        out.append(('host-%d' % i, 'job_host', (tier, GRID[i::4])))
    return out


# ---------------------------------------------------------------------------
# replay
# ---------------------------------------------------------------------------
def replay(case):
    res = Result()
    L = Laws(res, case.get('options'))
    k = case['kind']
    civil = tuple(case.get('civil', ()))
    if k == 'value':
        exp, d = build(L, civil, case['offset'], case, ())
        if d is not None:
            check_value(L, exp, d, case, (), case.get('level', 'full'))
            if 's' in case:
                check_from_timestamp(L, eval(case['s'], {'__builtins__': {}}), case['offset'], case, ())
            if 'span' in case:
                check_arithmetic(L, exp, d, case['span'], case, ())
    elif k == 'pair':
        a_exp, a = build(L, civil, case['offset'], case, ())
        b_exp = related(a_exp, case['offset2'], case['relation'], civil)
        _, b = build(L, I.fields(b_exp), case['offset2'], case, ())
        if a is not None and b is not None:
            check_pair(L, a_exp, a, b_exp, b, case, ())
    elif k == 'span':
        check_span(L, tuple(case['components']))
    elif k == 'host-naive':
        check_naive(L, datetime.datetime(*civil), I.make(*civil, 0), case, (), host_span({'microseconds': 1})[0][1],
                    case.get('route', 'data'))
    elif k == 'host-aware':
        o = case['offset']
        aware = datetime.datetime(*civil, tzinfo=datetime.timezone(datetime.timedelta(minutes=o)))
        exp = I.make(*civil, o)
        check_value(L, exp, aware, case, (), 'full')
        b_exp, b = build(L, civil, o, case, ())
        if b is not None:
            check_pair(L, exp, aware, b_exp, b, case, ())
    else:
        return {'ok': False, 'observed': 'unknown case kind'}
    want = case.get('law')
    fails = {key: f.detail for key, f in res.failures.items() if want is None or f.case.get('law') == want}
    return {'observed': fails or 'all laws of this case hold', 'expected': 'all laws of this case hold',
            'ok': not fails}
