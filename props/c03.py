"""C03 - parsing is total: a statement or a YAQL lexical/grammar error, nothing else.

E3 enumeration of input texts in five families:
 (a) every sequence of <= 3 lexemes over the full token alphabet, joined with and without a space, on five engines
     (default, delegates, legacy, and two customised through insert_operator: a suffix operator '!'; a prefix '~'
     plus a right-associative '**');
 (b) every single-character insertion, deletion and substitution at every position of 30 valid expressions
     (default engine and the two customised ones);
 (c) escape shapes inside each of the three quote styles (all bodies <= 4 over an 18-symbol alphabet, complete
     \\x.. \\u.... \\U........ digit fields over a small alphabet, \\N{..} names, octal runs);
 (d) numerals, identifiers, variables, strings and nested/chained constructs of boundary sizes up to 10**5 (around float overflow and the
     interpreter's int-digit limit);
 (e) every BMP code point alone, embedded in a word, and inside each quote style, plus astral samples.
Oracle: the outcome is a Statement, or YaqlLexicalException / YaqlGrammarException whose position, when not
None, is an int with 0 <= position < len(text) (and for a lexical error the reported character stands at that position).
"""
import itertools
import sys

import vf.loader  # noqa: F401
from vf import core
from vf.core import Result, chunks

import yaql
from yaql import legacy as ylegacy
from yaql.language import exceptions as yexc
from yaql.language import expressions as X

ID = 'C03'
TITLE = 'parsing is total'
RULE = ('texts are enumerated exhaustively per family (a)-(e); a case is distinct by (engine, text); every case is '
        'judged (the property quantifies over all strings); it counts as non-trivial when the outcome is not a '
        'lexical error at position 0, i.e. the lexer got past the first token')
ASSUMPTIONS = ['nesting deeper than 10**5 (parser stack, memory) is not enumerated',
               'the int-digit limit is read from sys.get_int_max_str_digits(), not assumed']
BOUNDS = {
    'quick': '(a) <=2 lexemes over 64 and 3 over a 26-lexeme core, x{space,none} x 5 engines (3 stock, 2 customised with suffix ! / prefix ~ and **); (b) 30 expressions x 46 chars x 3 engines; '
             '(c) bodies <=4 over 18 symbols x 3 styles, \\x \\u fields over {0,1,f,Z,quote}, \\U field over {0,1,f,Z}; '
             '(d) 27 kinds of long token / deep nesting, and 11 token kinds in 3 positions where the grammar does not expect them, x 14 lengths 1..10**5 (digits-then-letter only up to 4301: quadratic lexing time); (e) all 65536 BMP code points x 5 contexts + 4 escape contexts (the code point where the escaped character, a digit field or a \\N name is expected) + 64 astral x 16 contexts',
    'thorough': 'as quick with (a) 3 lexemes over all 64 and 4 over the core (default engine), (c) bodies of length 5 in single quotes, \\U field over {0,1,f,Z,quote} (5**8) x 3 styles, '
                '(e) additionally every code point of planes 1, 2, 14, 15, 16 alone and 11 escape contexts per BMP code point',
}

INT_LIMIT = sys.get_int_max_str_digits() if hasattr(sys, 'get_int_max_str_digits') else 0

BINARY = ['.', '?.', '=~', '!~', '*', '/', 'mod', '+', '-', '>', '<', '>=', '<=', '!=', '=', 'in', 'and', 'or', '->']
LEXEMES = (['a', '1', '1.5', '$', '$x', "'s'", '"s"', '`s`', 'true', 'null', 'f(']
           + ['(', ')', '[', ']', '{', '}', ',', '=>']
           + BINARY + ['not']
           + ['#', '@', ';', '!', '?', '|', '&', '~', '^', '%', ':', '\\']
           + ["'u", '"u', '`u']
           + ['__x', '1a', '.5', '1.', 'é', '١', "''", '\n', '_', '0x1F', '**'])
CORE = ['a', '1', '$x', "'s'", 'f(', '(', ')', '[', ']', '{', '}', ',', '=>', '.', '-', '*', '=', 'in', 'not', '->',
        '#', '\\', "'u", '__x', '1.', '`s`', '!', '~', '**', 'true']

BASE = ['1 + 2', '$.a.b', 'f(x, y => 1)', "[1, 2.5, 'a']", '{a => b}', '$x[0]', 'a and not b', "'it\\'s'",
        '"q\\n"', '`v\\d`', 'x -> $ > 1', 'a ?. b', '- 1 * (2 + 3)', 'a in [b]', '$.where($ > 0)', 'true = null',
        'a mod 2 != 0', 'f()', 'a =~ b', 'a !~ b', '1.5 <= 2', "$.get('k', 0)", '[]', '{}', 'a.b(c).d', '$a + $1',
        "'\\x41\\u0042'", 'f(, 1)', 'not a or b', 'x >= y']
MUT_CHARS = list('aZ_09 \n\t\'"`\\()[]{},.$+-*/<>=!~?#@;:|&%^xuN') + ['é']

ESC_ALPHA = ['\\', 'x', 'u', 'U', 'N', '{', '}', '0', '7', '8', 'a', 'n', 'q', "'", '"', '`', 'Z', ' ']
QUOTES = ("'", '"', '`')
NAMES = ['LATIN SMALL LETTER A', 'latin small letter a', 'BULLET', 'nope', '', ' ', '}', '{', 'DIGIT ONE}', 'x' * 100,
         'é', 'CJK UNIFIED IDEOGRAPH-4E00', 'LATIN SMALL LETTER A WITH ACUTE AND NOTHING']
OCTAL = ['\\0', '\\7', '\\8', '\\9', '\\00', '\\77', '\\78', '\\000', '\\377', '\\400', '\\777', '\\778', '\\0000',
         '\\1234', '\\7777', '\\08', '\\18\\7']
LENGTHS = [1, 17, 64, 65, 256, 257, 308, 309, 310, 4299, 4300, 4301, 10 ** 4, 10 ** 5]

# engines customised through the public insertion API: the grammar actions for suffix/prefix operators and the
# lexer rules for new symbols only exist there
CUSTOM = {
    'suffix': [('.', True, '!', 'SUFFIX_UNARY', True)],
    'prefix-pow': [('not', False, '~', 'PREFIX_UNARY', False), ('*', True, '**', 'BINARY_RIGHT_ASSOCIATIVE', True)],
}
ENGINES = ('default', 'delegates', 'legacy', 'suffix', 'prefix-pow')
_engines = {}


def engine(name):
    e = _engines.get(name)
    if e is None:
        if name == 'legacy':
            f = ylegacy.YaqlFactory()
        else:
            f = yaql.YaqlFactory(allow_delegates=(name == 'delegates'))
        for ins in CUSTOM.get(name, ()):
            f.insert_operator(*ins)
        e = _engines[name] = f.create()
    return e


# termination is part of the property and a parse has no step counter to put a horizon on: every case runs under a
# wall-clock limit four orders of magnitude above the normal cost (0.1 ms) and well above the slowest accepted input
# (the quadratic 9...9a family, 2.2 s at 4301 digits)
CASE_SECONDS = 30


def outcome(eng, text):
    """('statement',) | ('lexical'|'grammar', position, value) | ('other', exception)."""
    try:
        with core.case_limit(CASE_SECONDS):
            st = eng(text)
    except core.CaseTimeout:
        return ('other', TimeoutError('parse did not finish within %d s' % CASE_SECONDS))
    except yexc.YaqlLexicalException as e:
        return ('lexical', e.position, e.value)
    except yexc.YaqlGrammarException as e:
        return ('grammar', e.position, e.value)
    except Exception as e:
        return ('other', e)
    if isinstance(st, X.Statement):
        return ('statement',)
    return ('other', TypeError('engine returned %s' % type(st).__name__))


def verdict(text, out):
    """None when the outcome is allowed by the property, else (finding key, detail)."""
    kind = out[0]
    if kind == 'statement':
        return None
    if kind == 'other':
        e = out[1]
        if isinstance(e, UnicodeDecodeError):
            # the escape being decoded names the mechanism: \x \u \U \N
            obj = bytes(e.object)
            at = obj.rfind(b'\\', 0, e.start + 1)
            shape = obj[at:at + 2].decode('latin-1') if at >= 0 else '?'
            return ('escapes-UnicodeDecodeError shape=%s' % shape, '%s: %s' % (type(e).__name__, e.reason))
        if isinstance(e, ValueError) and INT_LIMIT and _longest_digit_run(text) > INT_LIMIT:
            return ('numeral-ValueError int-digit-limit',
                    'ValueError: %s' % str(e)[:120])
        if isinstance(e, TimeoutError):
            return ('no-termination within the per-case limit', str(e))
        return ('unexpected-exception %s' % type(e).__name__, '%s: %s' % (type(e).__name__, str(e)[:200]))
    pos = out[1]
    if pos is None:
        return None
    if not isinstance(pos, int) or isinstance(pos, bool):
        return ('position-not-an-int class=%s' % kind, repr(pos))
    if not 0 <= pos < len(text):
        return ('position-outside-text class=%s' % kind, 'position %r, len(text) %d' % (pos, len(text)))
    # "Lexical error: illegal character '{}' at position {}": what is reported must be what stands there
    if kind == 'lexical' and isinstance(out[2], str) and not text.startswith(out[2], pos):
        return ('lexical-error-character-is-not-at-position', 'reported %r, text[%d] is %r' % (out[2], pos, text[pos]))
    return None


def _longest_digit_run(text):
    best = run = 0
    for c in text:
        run = run + 1 if c.isdigit() else 0
        best = max(best, run)
    return best


def judge(res, family, eng_name, text, case=None, ident=None):
    case = case if case is not None else {'engine': eng_name, 'text': text}
    core.CURRENT_CASE[0] = case
    res.case((family, eng_name, ident if ident is not None else text))
    out = outcome(engine(eng_name), text)
    res.evaluations += 1
    res.transitions += 1
    if out[0] == 'other':
        label = 'other:' + type(out[1]).__name__
    elif out[0] == 'statement':
        label = 'statement'
    else:
        label = '%s@%s' % (out[0], 'end' if out[1] is None else 'pos')
    res.outcomes[label] += 1
    if not (out[0] == 'lexical' and out[1] == 0):
        res.nontrivial += 1
    bad = verdict(text, out)
    if bad:
        shown = text if len(text) <= 60 else text[:30] + '...(%d chars)' % len(text)
        res.fail(bad[0], case, 'text %r -> %s' % (shown, bad[1]), size=len(text))
    return out


# --------------------------------------------------------------------------
# (a) token sequences
# --------------------------------------------------------------------------
def job_tokens(eng_name, firsts, alphabet_name, upto):
    res = Result()
    alphabet = LEXEMES if alphabet_name == 'full' else CORE
    for first in firsts:
        for n in upto:
            for rest in itertools.product(alphabet, repeat=n - 1):
                seq = (first,) + rest
                for sep in (' ', ''):
                    if n == 1 and sep == '':
                        continue
                    judge(res, 'a', eng_name, sep.join(seq), ident=(sep, seq))
    res.sample({'family': 'a', 'engine': eng_name, 'text': ' '.join((firsts[0],) + (alphabet[3],) * (upto[-1] - 1))}, limit=1)
    return res


# --------------------------------------------------------------------------
# (b) single-character edits of valid expressions
# --------------------------------------------------------------------------
def job_edits(eng_name, bases):
    res = Result()
    for base in bases:
        seen = {base}
        judge(res, 'b', eng_name, base)
        for i in range(len(base) + 1):
            variants = [base[:i] + c + base[i:] for c in MUT_CHARS]
            if i < len(base):
                variants.append(base[:i] + base[i + 1:])
                variants.extend(base[:i] + c + base[i + 1:] for c in MUT_CHARS)
            for text in variants:
                if text not in seen:
                    seen.add(text)
                    judge(res, 'b', eng_name, text)
    res.sample({'family': 'b', 'engine': eng_name, 'base': bases[0]}, limit=1)
    return res


# --------------------------------------------------------------------------
# (c) escape shapes
# --------------------------------------------------------------------------
def job_escape_bodies(firsts, long_too):
    """All bodies of length <= 4 starting with one of firsts, in the three styles (length 5 in '..' when long_too)."""
    res = Result()
    for q in QUOTES:
        if firsts[0] == ESC_ALPHA[0]:
            judge(res, 'c-body', 'default', q + q)
        for first in firsts:
            for n in range(1, 6 if long_too and q == "'" else 5):
                for rest in itertools.product(ESC_ALPHA, repeat=n - 1):
                    judge(res, 'c-body', 'default', q + first + ''.join(rest) + q)
    res.sample({'family': 'c', 'text': "'" + firsts[0] + "\\x0'"}, limit=1)
    return res


def job_escape_fields(letter, width, alphabet, prefixes):
    """\\<letter> followed by every `width`-character field over alphabet (+ the quote itself when asked)."""
    res = Result()
    for q in QUOTES:
        alpha = [q if c == 'QUOTE' else c for c in alphabet]
        for pre in prefixes:
            for rest in itertools.product(alpha, repeat=width - len(pre)):
                judge(res, 'c-field', 'default', q + '\\' + letter + pre + ''.join(rest) + q)
    res.sample({'family': 'c', 'text': "'\\%s%s'" % (letter, 'Z' * width)}, limit=1)
    return res


def job_escape_names():
    res = Result()
    texts = []
    for q in QUOTES:
        for name in NAMES:
            texts.extend(q + t + q for t in ('\\N{%s}' % name, '\\N{%s' % name, '\\N%s}' % name, 'a\\N{%s}b' % name,
                                             '\\\\N{%s}' % name))
        for o in OCTAL:
            texts.extend(q + t + q for t in (o, o + '9', 'a' + o, o + o))
        for width in range(0, 9):
            for letter in 'xuUN':
                for digit in ('0', 'f', 'G'):
                    texts.append(q + '\\' + letter + digit * width + q)             # field truncated by the closing quote
                    texts.append(q + '\\' + letter + digit * width + '\\\\' + q)    # field runs into an escaped backslash
    for text in sorted(set(texts)):
        judge(res, 'c-name', 'default', text)
    res.sample({'family': 'c', 'text': "'\\N{nope}'"}, limit=1)
    return res


# --------------------------------------------------------------------------
# (d) long tokens
# --------------------------------------------------------------------------
TOKEN_KINDS = ['int', 'int0', 'float-int-part', 'float-fraction', 'arabic-digits', 'keyword', 'variable', 'string',
               'string-escapes', 'verbatim', 'underscores']


def long_text(what, n):
    # a long token where the grammar does not expect it: the error message has to name it
    if what.startswith('misplaced:'):
        return '1 ' + long_text(what[10:], n)
    if what.startswith('before-misplaced:'):
        return long_text(what[17:], n) + ' 1'
    if what.startswith('in-call-misplaced:'):
        return 'f(1 ' + long_text(what[18:], n) + ')'
    if what == 'int':
        return '9' * n
    if what == 'int0':
        return '1' + '0' * (n - 1) if n > 1 else '0'
    if what == 'float-int-part':
        return '9' * n + '.5'
    if what == 'float-fraction':
        return '0.' + '3' * n
    if what == 'float-both':
        return '7' * n + '.' + '7' * n
    if what == 'sum-of-ints':
        return '9' * n + ' + ' + '9' * n
    if what == 'arabic-digits':
        return '٣' * n
    if what == 'keyword':
        return 'k' * n
    if what == 'variable':
        return '$' + 'v' * n
    if what == 'function':
        return 'f' * n + '(1)'
    if what == 'string':
        return "'" + 's' * n + "'"
    if what == 'string-escapes':
        return "'" + '\\n' * n + "'"
    if what == 'verbatim':
        return '`' + '\\' * (2 * n) + '`'
    if what == 'unterminated':
        return "'" + 'u' * n
    if what == 'unterminated-dq':
        return '"' + 'u v' * (n // 3) + 'u' * (n % 3)
    if what == 'unterminated-bq':
        return '`' + 'u' * n
    if what == 'apostrophe-in-words':
        return '$.p = O' + "'" + 'Reilly and Sons, ' * (n // 17) + 'r' * (n % 17)
    if what == 'digits-then-letter':
        return '9' * n + 'a'
    if what == 'underscores':
        return '_' * n
    if what == 'illegal':
        return '#' * n
    if what == 'minus-chain':
        return '-' * n + '1'
    if what == 'nested-parens':
        return '(' * n + '1' + ')' * n
    if what == 'nested-lists':
        return '[' * n + '1' + ']' * n
    if what == 'nested-calls':
        return 'f(' * n + '1' + ')' * n
    if what == 'plus-chain':
        return '1' + ' + 1' * n
    if what == 'dot-chain':
        return 'a' + '.a' * n
    if what == 'open-parens':
        return '(' * n
    raise ValueError(what)


LONG_KINDS = ['int', 'int0', 'float-int-part', 'float-fraction', 'float-both', 'sum-of-ints', 'arabic-digits',
              'keyword', 'variable', 'function', 'string', 'string-escapes', 'verbatim', 'unterminated',
              'unterminated-dq', 'unterminated-bq', 'apostrophe-in-words',
              'digits-then-letter', 'underscores', 'illegal', 'minus-chain', 'nested-parens', 'nested-lists', 'nested-calls',
              'plus-chain', 'dot-chain', 'open-parens']
LONG_KINDS += [p + k for p in ('misplaced:', 'before-misplaced:', 'in-call-misplaced:') for k in TOKEN_KINDS]


# '999...9a' makes the NUMBER rule backtrack quadratically (2 s at 10**4 digits, minutes at 10**5): it terminates,
# so it is inside the property, but the bound for this kind stops at 4301
LONG_MAX = {'digits-then-letter': 4301}


def job_long(kinds):
    res = Result()
    for what in kinds:
        for n in LENGTHS:
            if n > LONG_MAX.get(what, n):
                continue
            out = judge(res, 'd', 'default', long_text(what, n), {'engine': 'default', 'long': what, 'n': n})
            if out[0] == 'other' and isinstance(out[1], TimeoutError):
                break       # longer inputs of the same kind would only wait for the limit again
    res.sample({'family': 'd', 'kinds': kinds, 'lengths': LENGTHS}, limit=1)
    return res


# --------------------------------------------------------------------------
# (e) code points
# --------------------------------------------------------------------------
def job_codepoints(ranges, contexts):
    res = Result()
    for lo, hi in ranges:
        for cp in range(lo, hi):
            c = chr(cp)
            for ctx in contexts:
                judge(res, 'e', 'default', ctx.replace('X', c))
    res.sample({'family': 'e', 'ranges': ranges[:3], 'contexts': contexts}, limit=1)
    return res


CONTEXTS = ['X', 'aXb', "'X'", '"X"', '`X`']
# the code point inside an escape sequence: where a digit field, a name or the escaped character is expected
ESCAPE_CONTEXTS_Q = ["'\\X'", "'\\xX0'", "'\\N{X}'", '"\\uX000"']
ESCAPE_CONTEXTS_T = ESCAPE_CONTEXTS_Q + ["'\\x0X'", "'\\N{aX}'", "'\\0X'", '"\\U0000000X"', "'\\u00X0'", '`\\X`', '`\\xX0`']
ASTRAL = [0x10000, 0x10001, 0x1F600, 0x1D7D8, 0x1D7FF, 0x1FFFF, 0x20000, 0x2A6DF, 0x2FFFF, 0x30000, 0xE0001, 0xE01EF,
          0xF0000, 0xFFFFF, 0x100000, 0x10FFFF]


def jobs(tier, seed):
    out = []
    for eng_name in ENGINES:
        for i, sl in enumerate(chunks(LEXEMES, 2)):
            out.append(('a-%s-2-%d' % (eng_name, i), 'job_tokens', (eng_name, sl, 'full', [1, 2])))
        if tier == 'quick':
            for i, sl in enumerate(chunks(CORE, 2)):
                out.append(('a-%s-3-%d' % (eng_name, i), 'job_tokens', (eng_name, sl, 'core', [3])))
        else:
            for i, sl in enumerate(chunks(LEXEMES, 16)):
                out.append(('a-%s-3-%d' % (eng_name, i), 'job_tokens', (eng_name, sl, 'full', [3])))
            if eng_name == 'default':
                for i, sl in enumerate(chunks(CORE, 13)):
                    out.append(('a-default-4-%d' % i, 'job_tokens', (eng_name, sl, 'core', [4])))
    for eng_name in ('default', 'suffix', 'prefix-pow'):
        for i, sl in enumerate(chunks(BASE, 2)):
            out.append(('b-%s-%d' % (eng_name, i), 'job_edits', (eng_name, sl)))
    for i, sl in enumerate(chunks(ESC_ALPHA, 9 if tier == 'quick' else 18)):
        out.append(('c-bodies-%d' % i, 'job_escape_bodies', (sl, tier == 'thorough')))
    small = ['0', '1', 'f', 'Z', 'QUOTE']
    out.append(('c-x', 'job_escape_fields', ('x', 2, small, [''])))
    out.append(('c-u', 'job_escape_fields', ('u', 4, small, [''])))
    ualpha = small[:4] if tier == 'quick' else small
    for p in itertools.product(ualpha, repeat=1 if tier == 'quick' else 2):
        if 'QUOTE' in p:
            continue            # a quote inside the prefix ends the literal; covered by the shorter fields
        out.append(('c-U-%s' % ''.join(p), 'job_escape_fields', ('U', 8, ualpha, [''.join(p)])))
    out.append(('c-names', 'job_escape_names', ()))
    for i, sl in enumerate(chunks(LONG_KINDS, 8)):
        out.append(('d-%d' % i, 'job_long', (sl,)))
    step = 0x10000 // 8
    for i in range(8):
        out.append(('e-bmp-%x' % (i * step), 'job_codepoints', ([(i * step, (i + 1) * step)], CONTEXTS)))
        out.append(('e-esc-%x' % (i * step), 'job_codepoints', ([(i * step, (i + 1) * step)],
                                                                ESCAPE_CONTEXTS_Q if tier == 'quick' else ESCAPE_CONTEXTS_T)))
    out.append(('e-astral', 'job_codepoints', ([(cp, min(cp + 4, 0x110000)) for cp in ASTRAL], CONTEXTS + ESCAPE_CONTEXTS_T)))
    if tier == 'thorough':
        for plane in (1, 2, 14, 15, 16):
            for half in range(4):
                lo = plane * 0x10000 + half * 0x4000
                out.append(('e-plane%d-%d' % (plane, half), 'job_codepoints', ([(lo, lo + 0x4000)], ['X'])))
    return out


def replay(case):
    text = long_text(case['long'], case['n']) if 'long' in case else case['text']
    out = outcome(engine(case['engine']), text)
    bad = verdict(text, out)
    obs = ('%s: %s' % (type(out[1]).__name__, str(out[1])[:200])) if out[0] == 'other' else repr(out)
    return {'observed': obs, 'finding': bad[0] if bad else None,
            'expected': 'Statement, or YaqlLexicalException/YaqlGrammarException with position None or inside the text',
            'ok': bad is None}
