"""C04 - core evaluation semantics follow the language reference.

E3 small-scope enumeration against models/interp.py (an environment-passing
reference interpreter over the checker's own AST):

 (i)   every well-typed AST of the fragment up to a node bound, generated
       bottom-up from a typed grammar (sorts int / str / bool / null / list /
       iterator / dict / context / delegate with a type environment for the
       variables, so that most cases evaluate to a value);
 (ii)  binder nests: every nesting / sequencing of <= 3 (thorough 4) binders
       around an environment dump [$, $2, $x, $y, f(5)?, $g(5)?], with total
       binder values that read the environment, so that one evaluation shows
       shadowing, non-leakage into siblings, `$` of the innermost lambda and
       lexical capture of def / lambda;
 (iii) each of them under several JSON-like documents bound to `$`;
 (iv)  lambdas passed by keyword (select(selector =>), distinct(keySelector =>),
       toDict(keySelector =>, valueSelector =>)) in the grammar and as a binder;
       nests binding unusual but legal variable names (context, engine, args,
       kwargs, self, _x, camelCase, non-ASCII ...) by let / unpack / keyword
       argument of a defined function / of a delegate;
 (v)   grammar and nests again in a context whose host overrides
       #get_context_data (language reference, "Variable access");
 (vi)  per-element lambdas that fail for ONE element: partial functions of the
       element (first / last / single of an inner collection, dict([pair]),
       index, the same behind let inside the lambda) x every way of running
       them once per row (select positional / by keyword, where, inside a map
       / list constructor, toDict key / value, distinct, a def'd function
       called per element, a let-bound collection, `.tags` mapped over the
       rows, behind a guard that removes the failing rows) x what is done with
       the result (handed out, counted, only its first element asked for),
       over ALL documents of <= R rows whose inner collections are empty /
       one / two elements long - so the failing element stands at every
       position, at several and at none.  The reference says the error
       propagates out of the iteration exactly when the failing element is
       consumed; a shortened collection is a mismatch;
 (vii) def(name, ...) and let(name => lambda(...)) with names of standard
       library functions and methods (len, first, sum, select, where, distinct,
       let ...): every body (constant, argument, every library name used as
       method - the own name included - and as function) x every use in the
       scope (every library name as method and as function, the bound thing
       inside the lambda of a method) x where scope and use sit (right of `->`,
       use inside a per-element lambda, binding inside a per-element lambda,
       next to the scope, rebinding).  A def introduces a function, a let a
       variable: `x.name()` keeps reaching the library method.

Values are compared exactly, errors coarsely (error <-> error) except where the
documentation names the exception (first / last / single: StopIteration).
"""
import itertools

import vf.loader  # noqa: F401
from vf import yq
from vf.core import Result
from models import interp as M

ID = 'C04'
TITLE = 'core evaluation semantics'
RULE = ('(i) all well-typed ASTs with <= N nodes from the typed grammar, per document; (ii) all nests / sibling '
        'sequences of <= D binders from the binder alphabet around the environment dump, per document; a case is '
        'distinct by (part, document, printed text) and non-trivial when the model defines its result and model '
        'and implementation both produce a value (error<->error agreement is counted separately); (vi) all '
        'partial x carrier x consumer programs per row document; (vii) all form x name x body x use x shape programs per document')
ASSUMPTIONS = [
    'the engine is created with allow_delegates=True and the context with delegates=True (needed for lambda()/delegate calls); default options',
    'redundant parentheses are semantically neutral (the printer parenthesises defensively; delegate calls always)',
    'host-override jobs: the host registers its own #get_context_data in a child of the standard context (names bound in no scope are '
    'answered from an external table, everything else by context lookup); the model gives the top frame a parent frame holding that table',
    'results are compared after finalisation (iterables have become lists)',
    'outside the documented domain, counted but not judged: a one-shot iterable consumed twice, equality/ordering/truth of '
    'booleans against numbers or of iterables/contexts, composite dictionary keys, contexts or delegates in the result',
    'an error is compared by class only where the docstring names it (first/last/single "raises StopIteration"); every other predicted '
    'error matches any exception',
    'redefined library names exclude def, lambda and dict: a function defined next to a library function of that name whose lambda '
    'parameters / keyword policy differ makes the call ambiguous in the implementation, which the language reference does not describe',
]
BOUNDS = {
    'quick': "grammar: <= 4 nodes over leaves {1 2 'a' null $ $2 $x $y} and 5 nodes over leaves {1 null $ $x}, 6 documents; "
             'nests: depth <= 2 over 57 binders (values 1 $ $x [$x] $2), 3 documents; depth 3 over 35 binders (values $ $x [$x]), 1 document; '
             'name nests: depth <= 2 over 12 unusual names x 5 binding forms + 3 ordinary binders, 1 document; '
             'host override of #get_context_data: grammar <= 3 nodes and nests depth <= 2, 1 document; '
             'element errors: 8 partial expressions x 13 carriers x 3 consumers (2 for dictionaries) over all 40 documents of <= 3 rows '
             'with inner collections [] [a] [a,b]; library names: 2 binding forms (def, let+lambda) x 7 names (len first sum select where '
             'distinct let) x 15/16 bodies x 16/17 uses x 3 shapes (right of ->, use in a per-element lambda, binding in a per-element '
             'lambda), 1 document',
    'thorough': 'grammar: <= 5 nodes over the full leaves, 6 documents, 6 nodes, 2 documents; nests: depth <= 3 over 57 binders, '
                '3 documents; depth 4 over 24 binders (values $ $x), 1 document; name nests depth <= 2, 3 documents; '
                'host override: grammar <= 4 nodes, 6 documents, nests depth <= 2, 3 documents; '
                'element errors: 10 partial expressions x 13 carriers x 5 consumers (2 for dictionaries) over all 85 documents of <= 3 '
                'rows with inner collections [] [a] [a,b] [b,a,c]; library names: 2 forms x 12 names (+ last toList single with toDict) x '
                '25/26 bodies x 27/28 uses x 5 shapes (+ next to the scope, rebinding inside / outside), 2 documents',
}

# ---------------------------------------------------------------------------------
# documents (iii)
# ---------------------------------------------------------------------------------
DOCS = [
    ('int', 10),
    ('null', None),
    ('str', 'ab'),
    ('list', [1, 2, 3]),
    ('dict', {'a': 1, 'b': [1, 2]}),
    ('records', [{'a': 1, 'b': [{'a': 2}]}, {'a': 3, 'b': [{'a': 4}, {'a': 5}]}]),
]
DOC = dict(DOCS)


def type_of(v):
    if v is None:
        return 'N'
    if isinstance(v, bool):
        return 'B'
    if isinstance(v, int):
        return 'I'
    if isinstance(v, str):
        return 'S'
    if isinstance(v, list):
        return ('L', join([type_of(x) for x in v]))
    if isinstance(v, dict):
        return ('D', tuple(sorted((k, type_of(x)) for k, x in v.items())))
    raise TypeError(v)


# ---------------------------------------------------------------------------------
# (i) typed grammar.  Types: 'I' 'S' 'B' 'N' 'A'(mixed/unknown data) ('L', t) list ('Z', t) one-shot
# iterable ('D', ((key, t), ...)) ('C', G, P) context with variable types G and function types P
# ('F', t) delegate returning t.  G, P are sorted tuples of pairs.
# ---------------------------------------------------------------------------------
LEAVES_FULL = (('lit', 1), ('lit', 2), ('lit', 'a'), ('lit', None),
               ('var', ''), ('var', '2'), ('var', 'x'), ('var', 'y'))
LEAVES_SMALL = (('lit', 1), ('lit', None), ('var', ''), ('var', 'x'))


def join(ts):
    ts = list(ts)
    if not ts:
        return 'A'
    return ts[0] if all(t == ts[0] for t in ts) else 'A'


def is_data(t):
    if t in ('I', 'S', 'B', 'N', 'A'):
        return True
    if t[0] in ('L', 'Z'):
        return is_data(t[1])
    if t[0] == 'D':
        return all(is_data(x) for _, x in t[1])
    return False


def is_coll(t):
    return not isinstance(t, str) and t[0] in ('L', 'Z')


def bind(G, **kw):
    d = dict(G)
    d.update(kw)
    return tuple(sorted(d.items()))


def bindn(G, pairs):
    d = dict(G)
    d.update(pairs)
    return tuple(sorted(d.items()))


def attr_type(t, name):
    """Type of t.name, or None when `.name` is ill-typed on t."""
    if isinstance(t, str):
        return None
    if t[0] == 'D':
        return dict(t[1]).get(name, 'A')     # missing key: well-formed, evaluates to an error
    if t[0] in ('L', 'Z'):
        inner = attr_type(t[1], name)
        return None if inner is None else ('Z', inner)
    return None


class Grammar(object):
    def __init__(self, leaves):
        self.leaves = leaves
        self.memo = {}

    def gen(self, n, G, P):
        key = (n, G, P)
        r = self.memo.get(key)
        if r is None:
            r = self.memo[key] = list(self.produce(n, G, P, None))
        return r

    def produce(self, n, G, P, shard):
        """All (ast, type) with exactly n nodes under variable types G and function types P.
        shard=(k, K) restricts the outermost loop over the first child to indices = k mod K."""
        def first(items):
            if shard is None:
                return items
            return itertools.islice(items, shard[0], None, shard[1])

        if n == 1:
            if shard is None or shard[0] == 0:
                g = dict(G)
                for leaf in self.leaves:
                    if leaf[0] == 'lit':
                        yield leaf, type_of(leaf[1])
                    else:
                        yield leaf, g.get(leaf[1] or '1', 'N')
            return
        # ---- one child
        for c, t in first(self.gen(n - 1, G, P)):
            if is_data(t):
                yield ('list', [c]), ('L', t)
                yield ('map', [[('lit', 'a'), c]]), ('D', (('a', t),))
            for name in ('a', 'b'):
                at = attr_type(t, name)
                if at is not None:
                    yield ('attr', c, name), at
            if t == 'S' or (not isinstance(t, str) and t[0] in ('L', 'Z', 'D')):
                yield ('meth', c, 'len', []), 'I'
            if is_coll(t):
                yield ('meth', c, 'toList', []), ('L', t[1])
                yield ('meth', c, 'unpack', []), ('C', bindn(G, {'1': t[1], '2': t[1]}), P)
                yield ('meth', c, 'unpack', [('lit', 'x'), ('lit', 'y')]), ('C', bindn(G, {'x': t[1], 'y': t[1]}), P)
            yield ('call', 'let', [c], []), ('C', bindn(G, {'1': t}), P)
            yield ('call', 'let', [], [['x', c]]), ('C', bind(G, x=t), P)
            yield ('call', 'with', [c], []), ('C', bindn(G, {'1': t}), P)
            if t == 'I':
                for fname, ft in P:
                    yield ('call', fname, [c], []), ft
        # def / lambda: the body is typed with an integer parameter and may not call itself
        for c, t in first(self.gen(n - 1, bindn(G, {'1': 'I'}), P)):
            if is_data(t):
                yield ('call', 'def', [('lit', 'f'), c], []), ('C', G, bindn(P, {'f': t}))
                yield ('call', 'lambda', [c], []), ('F', t)
        # ---- two children
        for n1 in range(1, n - 1):
            n2 = n - 1 - n1
            for c1, t1 in first(self.gen(n1, G, P)):
                # children typed in the same environment
                for c2, t2 in self.gen(n2, G, P):
                    d1, d2 = is_data(t1), is_data(t2)
                    if d1 and d2:
                        yield ('list', [c1, c2]), ('L', join([t1, t2]))
                        yield ('map', [[('lit', 'a'), c1], [('lit', 'b'), c2]]), ('D', (('a', t1), ('b', t2)))
                        yield ('map', [[('lit', 'a'), c1], [('lit', 'a'), c2]]), ('D', (('a', t2),))
                    if t1 == t2 and t1 in ('I', 'S'):
                        yield ('bin', '+', c1, c2), t1
                        yield ('bin', '>', c1, c2), 'B'
                    if t1 == 'I' and t2 == 'I':
                        yield ('bin', '*', c1, c2), 'I'
                    if is_coll(t1) and is_coll(t2) and is_data(t1) and is_data(t2):
                        kind = 'L' if t1[0] == 'L' and t2[0] == 'L' else 'Z'
                        yield ('bin', '+', c1, c2), (kind, join([t1[1], t2[1]]))
                    if t1 == t2 and (t1 in ('I', 'S', 'N') or t1 in (('L', 'I'), ('L', 'S'), ('L', 'N'))):
                        yield ('bin', '=', c1, c2), 'B'
                    if d1 and is_coll(t2) and is_data(t2):
                        yield ('bin', 'in', c1, c2), 'B'
                    if not isinstance(t1, str) and t1[0] == 'L' and t2 == 'I':
                        yield ('index', c1, c2), t1[1]
                    if not isinstance(t1, str) and t1[0] == 'D' and t2 == 'S':
                        yield ('index', c1, c2), (dict(t1[1]).get(c2[1], 'A') if c2[0] == 'lit' else 'A')
                    yield ('call', 'let', [c1, c2], []), ('C', bindn(G, {'1': t1, '2': t2}), P)
                    yield ('call', 'with', [c1, c2], []), ('C', bindn(G, {'1': t1, '2': t2}), P)
                    yield ('call', 'let', [], [['x', c1], ['y', c2]]), ('C', bind(G, x=t1, y=t2), P)
                    yield ('call', 'let', [c1], [['x', c2]]), ('C', bindn(G, {'1': t1, 'x': t2}), P)
                    if not isinstance(t1, str) and t1[0] == 'F' and t2 == 'I':
                        yield ('dcall', c1, [c2]), t1[1]
                # per-element lambdas: `$` is the element, everything else is the caller's scope
                if is_coll(t1):
                    for c2, t2 in self.gen(n2, bindn(G, {'1': t1[1]}), P):
                        if is_data(t2):
                            yield ('meth', c1, 'select', [c2]), ('Z', t2)
                            yield ('meth', c1, 'where', [c2]), ('Z', t1[1])
                            # the same lambdas passed by keyword are as lazy as positional ones
                            yield ('meth', c1, 'select', [], [['selector', c2]]), ('Z', t2)
                            yield ('meth', c1, 'distinct', [], [['keySelector', c2]]), ('Z', t1[1])
                        if t2 in ('I', 'S'):
                            yield ('meth', c1, 'toDict', [c2]), ('D', ())
                            yield ('meth', c1, 'toDict', [], [['keySelector', c2]]), ('D', ())
                # C -> E: E is evaluated in (and typed by) the context C
                if not isinstance(t1, str) and t1[0] == 'C':
                    for c2, t2 in self.gen(n2, t1[1], t1[2]):
                        yield ('arrow', c1, c2), t2


        # ---- three children: key and value selector of toDict, each with `$` = the element
        for n1 in range(1, n - 2):
            for c1, t1 in first(self.gen(n1, G, P)):
                if not is_coll(t1):
                    continue
                E = bindn(G, {'1': t1[1]})
                for n2 in range(1, n - 1 - n1):
                    n3 = n - 1 - n1 - n2
                    for c2, t2 in self.gen(n2, E, P):
                        if t2 not in ('I', 'S'):
                            continue
                        for c3, t3 in self.gen(n3, E, P):
                            if is_data(t3):
                                yield ('meth', c1, 'toDict', [c2], [['valueSelector', c3]]), ('D', ())
                                yield ('meth', c1, 'toDict', [], [['valueSelector', c3], ['keySelector', c2]]), ('D', ())


def grammar_cases(leafset, n, doc_name, shard):
    g = Grammar(LEAVES_FULL if leafset == 'full' else LEAVES_SMALL)
    G0 = (('1', type_of(DOC[doc_name])),)
    for ast, t in g.produce(n, G0, (), shard):
        if is_data(t):
            yield ast


# ---------------------------------------------------------------------------------
# (ii) binder nests
# ---------------------------------------------------------------------------------
V1, VD, VX, VLX, V2 = ('lit', 1), ('var', ''), ('var', 'x'), ('list', [('var', 'x')]), ('var', '2')
VALS_FULL = (V1, VD, VX, VLX, V2)
VALS_SMALL = (VD, VX, VLX)
VALS_TINY = (VD, VX)
VALSETS = {'full': VALS_FULL, 'small': VALS_SMALL, 'tiny': VALS_TINY}
NEST_DOCS = ('int', 'null', 'dict')


# unusual but legal variable names (language reference, "Variable access": "alphanumeric and underscore
# characters only ... may start with digit, any number of underscores"): names of hidden parameters and
# of python parameters of the library, a digit suffix, a leading underscore, camelCase, non-ASCII
NAMES = ('context', 'engine', 'args', 'kwargs', 'receiver', 'name', 'self', 'func', 'x1', '_x', 'myVar', '\u00e9t\u00e9')


def dump(scope):
    items = [('var', ''), ('var', '2'), ('var', 'x'), ('var', 'y')]
    items += [('var', n) for n in NAMES if 'var:' + n in scope]
    # every defined function / delegate is invoked twice, the second time with fewer arguments: an invocation
    # must not see the arguments of an earlier one ($2 is null in the second call)
    if 'f' in scope:
        items.append(('call', 'f', [('lit', 5), ('lit', 6)], []))
        items.append(('call', 'f', [('lit', 7)], []))
    if 'g' in scope:
        items.append(('dcall', ('var', 'g'), [('lit', 5), ('lit', 6)]))
        items.append(('dcall', ('var', 'g'), [('lit', 7)]))
    return ('list', items)


def binders(vals):
    """(names brought into scope for the body, builder(body) -> ast)"""
    out = []

    def add(scope, fn):
        out.append((frozenset(scope), fn))
    for v in vals:
        add('', lambda b, v=v: ('arrow', ('call', 'let', [], [['x', v]]), b))
        add('', lambda b, v=v: ('arrow', ('call', 'let', [v, ('lit', 7)], []), b))
        add('', lambda b, v=v: ('arrow', ('call', 'with', [v, ('lit', 7)], []), b))
        add('', lambda b, v=v: ('arrow', ('meth', ('list', [v, ('lit', 8)]), 'unpack', [('lit', 'x'), ('lit', 'y')]), b))
        add('', lambda b, v=v: ('arrow', ('meth', ('list', [v]), 'unpack', []), b))
        add('', lambda b, v=v: ('meth', ('list', [v, ('lit', 9)]), 'select', [b]))
        # a predicate only passes one bit: does the body's value contain a null (an unbound variable)?
        add('', lambda b, v=v: ('meth', ('list', [v, ('lit', 9)]), 'where', [('bin', 'in', ('lit', None), b)]))
        add('f', lambda b, v=v: ('arrow', ('call', 'def', [('lit', 'f'), ('list', [('var', ''), ('var', '2'), v])], []), b))
        add('', lambda b, v=v: ('dcall', ('call', 'lambda', [b], []), [v]))
        add('g', lambda b, v=v: ('arrow', ('call', 'let', [], [['g', ('call', 'lambda', [('list', [('var', ''), ('var', '2'), v])], [])]]), b))
        # lambdas passed by (multi-word) keyword: `$` is the element in both, everything else the caller's scope
        add('', lambda b, v=v: ('meth', ('list', [v, ('lit', 9)]), 'toDict', [],
                                [['keySelector', ('bin', '=', ('var', ''), ('lit', 9))], ['valueSelector', b]]))
    # arguments are evaluated in the caller's frame: y reads the outer $x
    add('', lambda b: ('arrow', ('call', 'let', [], [['x', ('lit', 3)], ['y', ('var', 'x')]]), b))
    add('', lambda b: ('arrow', ('call', 'let', [], [['y', ('var', 'x')]]), b))
    return out


def name_binders():
    """Every way of binding a variable by name, for every unusual name, next to a few ordinary binders."""
    out = []

    def add(scope, fn):
        out.append((frozenset(scope), fn))
    four = ('lit', 4)
    for n in NAMES:
        sc = ['var:' + n]
        add(sc, lambda b, n=n: ('arrow', ('call', 'let', [], [[n, four]]), b))
        add(sc, lambda b, n=n: ('arrow', ('call', 'let', [('lit', 1)], [['x', ('var', n)], [n, ('var', 'x')]]), b))
        add(sc, lambda b, n=n: ('arrow', ('meth', ('list', [four, ('lit', 8)]), 'unpack', [('lit', n), ('lit', 'y')]), b))
        # keyword argument of a defined function / of a delegate: published as $name in the invocation
        add(sc, lambda b, n=n: ('arrow', ('call', 'def', [('lit', 'h'), b], []), ('call', 'h', [('lit', 1)], [[n, four]])))
        add(sc, lambda b, n=n: ('dcall', ('call', 'lambda', [b], []), [('lit', 1)], [[n, ('var', '')]]))
    add([], lambda b: ('meth', ('list', [('var', ''), ('lit', 9)]), 'select', [b]))
    add([], lambda b: ('arrow', ('call', 'let', [], [['x', ('var', '')]]), b))
    add([], lambda b: ('arrow', ('call', 'with', [('var', 'x'), ('lit', 7)], []), b))
    return out


class Nests(object):
    def __init__(self, valset):
        self.B = name_binders() if valset == 'names' else binders(VALSETS[valset])
        self.memo = {}

    def all(self, d, scope):
        key = (d, scope)
        r = self.memo.get(key)
        if r is None:
            r = self.memo[key] = list(self.produce(d, scope, None))
        return r

    def produce(self, d, scope, shard):
        if d == 0:
            if shard is None or shard[0] == 0:
                yield dump(scope)
            return
        i = 0
        for add, build in self.B:
            for inner in self.all(d - 1, scope | add):
                if shard is None or i % shard[1] == shard[0]:
                    yield build(inner)
                i += 1
        # sequencing: a nest next to another one must not see its bindings
        for d1 in range(1, d):
            for n1 in self.all(d1, scope):
                for n2 in self.all(d - 1 - d1, scope):
                    if shard is None or i % shard[1] == shard[0]:
                        yield ('list', [n1, n2])
                    i += 1


def nest_cases(valset, d, shard):
    return Nests(valset).produce(d, frozenset(), shard)


# ---------------------------------------------------------------------------------
# (vi) a per-element lambda that fails for one particular element
# ---------------------------------------------------------------------------------
# Documents {rows: [{n: 1, tags: T1}, {n: 2, tags: T2}, ...]}: every sequence of <= R rows over the tag
# lists below, so that an empty (too short, too long) inner collection occurs at every position, at
# several positions and at none.  The document name spells tag alphabet and sequence: 'rows:q/0,2,1'.
TAGS_QUICK = ([], ['a'], ['a', 'b'])
TAGS_FULL = ([], ['a'], ['a', 'b'], ['b', 'a', 'c'])
TAGS = {'q': TAGS_QUICK, 't': TAGS_FULL}
ROWS = ('attr', ('var', ''), 'rows')
ROW_TAGS = ('attr', ('var', ''), 'tags')
ROW_N = ('attr', ('var', ''), 'n')


def elem_doc_names(tagset, max_rows):
    out = []
    for r in range(max_rows + 1):
        for seq in itertools.product(range(len(TAGS[tagset])), repeat=r):
            out.append('rows:%s/%s' % (tagset, ','.join(str(i) for i in seq)))
    return out


def partials(t):
    """(name, expression over the inner collection t): partial functions of the element (fail on an empty /
    one-element / longer inner collection) next to total ones."""
    def m(name, *args):
        return ('meth', t, name, list(args))
    return [
        ('first', m('first')),
        ('last', m('last')),
        ('single', m('single')),
        ('first(null)', m('first', ('lit', None))),                                  # total
        ('len', m('len')),                                                           # total
        ('dict', ('call', 'dict', [('list', [t])], [])),                             # fails unless t is a pair
        ('index0', ('index', t, ('lit', 0))),
        ('let-first', ('arrow', ('call', 'let', [], [['t', t]]), ('meth', ('var', 't'), 'first', []))),
        # thorough tier only
        ('index1', ('index', t, ('lit', 1))),
        ('lazy-first', ('meth', ('meth', t, 'select', [('var', '')]), 'first', [])),
    ]


N_PARTIALS = {'q': 8, 't': 10}


def carriers(pname):
    """(name, kind of the result, expression): every way of running the partial expression once per row."""
    e = dict(partials(ROW_TAGS))[pname]
    e_inner = dict(partials(('var', '')))[pname]          # `$` is the inner collection itself
    guard = lambda op, k: ('meth', ROWS, 'where', [('bin', op, ('meth', ROW_TAGS, 'len', []), ('lit', k))])
    return [
        ('select', 'coll', ('meth', ROWS, 'select', [e])),
        ('select(selector =>)', 'coll', ('meth', ROWS, 'select', [], [['selector', e]])),
        ('where', 'coll', ('meth', ROWS, 'where', [('bin', '=', e, ('lit', 'a'))])),
        ('select-map', 'coll', ('meth', ROWS, 'select', [('map', [[('lit', 'n'), ROW_N], [('lit', 't'), e]])])),
        ('select-list', 'coll', ('meth', ROWS, 'select', [('list', [ROW_N, e])])),
        ('toDict-value', 'dict', ('meth', ROWS, 'toDict', [ROW_N, e])),
        ('toDict-key', 'dict', ('meth', ROWS, 'toDict', [e])),
        ('distinct', 'coll', ('meth', ROWS, 'distinct', [e])),
        ('def', 'coll', ('arrow', ('call', 'def', [('lit', 'h'), e], []),
                         ('meth', ROWS, 'select', [('call', 'h', [('var', '')], [])]))),
        ('let-select', 'coll', ('arrow', ('call', 'let', [], [['r', ROWS]]), ('meth', ('var', 'r'), 'select', [e]))),
        ('attr-select', 'coll', ('meth', ('attr', ROWS, 'tags'), 'select', [e_inner])),
        ('guard>0-select', 'coll', ('meth', guard('>', 0), 'select', [e])),
        ('guard=1-select', 'coll', ('meth', guard('=', 1), 'select', [e])),
    ]


def consumers(kind, x, tier):
    """What is done with the result: handed out (finalised), counted, or only partly consumed."""
    out = [('id', x), ('len', ('meth', x, 'len', []))]
    if kind == 'coll':
        out.append(('first', ('meth', x, 'first', [])))
        if tier == 't':
            out += [('last', ('meth', x, 'last', [])),
                    ('select', ('meth', x, 'select', [('list', [('var', '')])]))]
    return out


def elem_cases(tier):
    for pname, _ in partials(ROW_TAGS)[:N_PARTIALS[tier]]:
        for cname, kind, x in carriers(pname):
            for kname, ast in consumers(kind, x, tier):
                yield ast


# ---------------------------------------------------------------------------------
# (vii) def / lambda bindings named like functions and methods of the standard library
# ---------------------------------------------------------------------------------
# The language reference keeps `foo(x)` and `x.foo()` apart; def(name, ...) introduces a FUNCTION in the
# scope right of `->`, let(name => lambda(...)) a VARIABLE: neither touches the method of that name.
LIBNAMES_QUICK = ('len', 'first', 'sum', 'select', 'where', 'distinct', 'let')
LIBNAMES_FULL = LIBNAMES_QUICK + ('last', 'toList', 'single', 'with', 'toDict')
LIBNAMES = {'q': LIBNAMES_QUICK, 't': LIBNAMES_FULL}
SHADOW_DOCS = {
    'xs:mixed': {'xs': [3, 0, 2], 'ys': [[1, 2], [], [3]]},
    'xs:empty': {'xs': [], 'ys': [[], [4]]},
}
XS, YS = ('attr', ('var', ''), 'xs'), ('attr', ('var', ''), 'ys')


def as_method(name, x, hole):
    """x.name(...) with the fewest arguments; a lambda parameter gets `hole`."""
    if name in ('select', 'where'):
        return ('meth', x, name, [hole])
    if name == 'toDict':
        return ('meth', x, name, [hole])
    return ('meth', x, name, [])


def shadow_uses(names, x, bound_call):
    """Uses of library names on the collection x: each as a method and as a function; the lambda of a method
    is `$` or a call of the bound function / delegate on `$`; and the bound function / delegate on x."""
    out = []
    for m in names:
        for hole in ((('var', ''), bound_call(('var', ''))) if m in ('select', 'where', 'toDict') else (None,)):
            out.append(as_method(m, x, hole))
        out.append(('call', m, [x], []))
    probe = bound_call(x)
    if probe not in out:
        out.append(probe)
    return out


def shadow_bodies(names, own, form):
    """Bodies of the bound lambda: constants, its argument, and every library name used on the argument as a
    method (the body's own name included) and as a function (the own name of a def excluded: recursion)."""
    out = [('lit', 0), ('var', '')]
    for m in names:
        out.append(as_method(m, ('var', ''), ('var', '')))
        if not (form == 'def' and m == own):
            out.append(('call', m, [('var', '')], []))
    return out


def shadow_cases(nameset, shapes, k, K):
    names = LIBNAMES[nameset]
    i = 0
    for form in ('def', 'let-lambda'):
        for own in names:
            if form == 'def':
                bound_call = lambda a, own=own: ('call', own, [a], [])
                binder = lambda body, own=own: ('call', 'def', [('lit', own), body], [])
            else:
                bound_call = lambda a, own=own: ('dcall', ('var', own), [a])
                binder = lambda body, own=own: ('call', 'let', [], [[own, ('call', 'lambda', [body], [])]])
            for body in shadow_bodies(names, own, form):
                b = binder(body)
                for shape in shapes:
                    uses = shadow_uses(names, XS if shape in ('direct', 'sibling') else ('var', ''), bound_call)
                    for u in uses:
                        i += 1
                        if i % K != k:
                            continue
                        if shape == 'direct':                   # the use is right of `->`
                            yield ('arrow', b, u)
                        elif shape == 'sibling':                # ... and next to the scope, where nothing is bound
                            yield ('list', [('arrow', b, u), u])
                        elif shape == 'use-in-lambda':          # the use sits in a per-element lambda inside the scope
                            yield ('arrow', b, ('meth', YS, 'select', [u]))
                        elif shape == 'bind-in-lambda':         # the whole binding is made once per element
                            yield ('meth', YS, 'select', [('arrow', b, u)])
                        elif shape == 'rebound':                # an inner binding of the same name with another body
                            yield ('arrow', binder(('lit', 1)), ('arrow', b, u))
                            yield ('arrow', b, ('arrow', binder(('lit', 1)), u))
                        else:
                            raise AssertionError(shape)


SHAPES_QUICK = ('direct', 'use-in-lambda', 'bind-in-lambda')
SHAPES_FULL = SHAPES_QUICK + ('sibling', 'rebound')


# ---------------------------------------------------------------------------------
# execution
# ---------------------------------------------------------------------------------
# A host that overrides variable access: names bound in no scope are answered from an external table,
# everything else by the standard lookup (language reference, "Variable access").
EXTERNAL = {'x': 'ext-x', 'y': 'ext-y', '2': 'ext-2'}
_host = []


def host_context():
    if not _host:
        from yaql.language import specs, yaqltypes
        missing = object()

        @specs.parameter('name', yaqltypes.StringConstant())
        @specs.name('#get_context_data')
        def get_context_data(name, context):
            value = context.get_data(name, default=missing)
            return EXTERNAL.get(name.lstrip('$')) if value is missing else value
        ctx = yq.root(delegates=True).create_child_context()
        ctx.register_function(get_context_data)
        _host.append(ctx)
    return _host[0]


def observe(text, doc, host=False):
    st = yq.engine(allow_delegates=True)(text)
    ctx = (host_context() if host else yq.root(delegates=True)).create_child_context()
    try:
        return ('v', st.evaluate(data=doc, context=ctx))
    except (RecursionError, MemoryError):
        raise
    except Exception as e:
        return ('e', type(e).__name__, str(e)[:120])


def agree(obs, exp):
    """Values exactly; errors coarsely, except where the documentation names the exception class."""
    if exp[0] == 'e':
        return obs[0] == 'e' and (exp[1] is None or obs[1] == exp[1])
    return obs[0] == 'v' and M.same(obs[1], exp[1])


def document(name):
    if name.startswith('rows:'):
        tagset, seq = name[5:].split('/')
        return {'rows': [{'n': i, 'tags': list(TAGS[tagset][int(j)])}
                         for i, j in enumerate(seq.split(',') if seq else [], 1)]}
    if name in SHADOW_DOCS:
        return SHADOW_DOCS[name]
    return DOC[name]


def expected(ast, doc, host=False):
    return M.run(ast, doc, external=EXTERNAL if host else None, classes=True)


SKIP = ('lit', 'var', 'list')


def features(ast, out=None):
    """Constructs a case is built from (its input class)."""
    out = set() if out is None else out
    k = ast[0]
    if k == 'bin':
        out.add('op' + ast[1])
        features(ast[2], out)
        features(ast[3], out)
    elif k == 'call':
        out.add(ast[1] if ast[1] in M.LIB else 'call-defined')
        for x in ast[2]:
            features(x, out)
        for n, x in (ast[3] if len(ast) > 3 else []):
            if n in NAMES:
                out.add('name=' + n)
            features(x, out)
    elif k == 'meth':
        out.add(ast[2] if ast[2] != 'unpack' else ('unpack(names)' if ast[3] else 'unpack()'))
        features(ast[1], out)
        for x in ast[3]:
            if ast[2] == 'unpack' and x[1] in NAMES:
                out.add('name=' + x[1])
            features(x, out)
        for n, x in (ast[4] if len(ast) > 4 else []):
            out.add('%s(%s =>)' % (ast[2], n))
            features(x, out)
    elif k == 'map':
        out.add('map')
        for a, b in ast[1]:
            features(a, out)
            features(b, out)
    elif k == 'list':
        for x in ast[1]:
            features(x, out)
    elif k in ('index', 'attr', 'arrow', 'dcall'):
        out.add(k)
        features(ast[1], out)
        if k == 'dcall':
            for x in ast[2]:
                features(x, out)
            for n, x in (ast[3] if len(ast) > 3 else []):
                if n in NAMES:
                    out.add('name=' + n)
                features(x, out)
        elif k != 'attr':
            features(ast[2], out)
    return out


PART_TITLE = {'elem': 'per-element lambda failing for one element',
              'shadow': 'binding named like a library function/method'}


def failure_key(part, ast, notes, host, obs, exp):
    # a named input class where the model can tell it, else the set of constructs involved
    if part in PART_TITLE:
        if exp[0] == 'e' and obs[0] == 'v':
            what = 'a value is returned where the reference fails'
        elif exp[0] == 'e':
            what = 'documented %s, raised %s' % (exp[1], obs[1])
        elif obs[0] == 'e':
            what = 'raises %s where the reference has a value' % obs[1]
        else:
            what = 'another value'
        return '%s: %s' % (PART_TITLE[part], what), None
    if 'unpack()/iterator' in notes:
        return 'unpack-positional-on-iterator', None
    if 'distinct-key/dict' in notes and 'toDict' in features(ast):
        return 'toDict-result-as-distinct-key', None
    fs = sorted(features(ast) | ({'host-override-of-variable-access'} if host else set()))
    return 'mismatch constructs=' + '+'.join(fs), fs


def judge(res, part, doc_name, ast):
    doc = document(doc_name)
    host = part.startswith('host')
    text = M.text(ast)
    res.case((part, doc_name, text))
    exp = expected(ast, doc, host)
    notes = set(M.NOTES)
    obs = observe(text, doc, host)
    res.evaluations += 1
    res.transitions += 1
    if exp is None:
        res.out_of_domain += 1
        res.outcomes[part + ' out-of-domain'] += 1
        return
    if agree(obs, exp):
        if exp[0] == 'v':
            res.nontrivial += 1
            res.outcomes[part + ' value=value'] += 1
        else:
            res.outcomes[part + ' error=error ' + obs[1]] += 1
        return
    res.outcomes[part + ' MISMATCH'] += 1
    key, fs = failure_key(part, ast, notes, host, obs, exp)
    res.fail(key, {'part': part, 'doc': doc_name, 'text': text, 'ast': ast, 'constructs': fs},
             'text %s with $ = %r: observed %r expected %r' % (text, doc, obs, exp))


def job_grammar(leafset, n, doc_name, k, K, part='grammar'):
    res = Result()
    for ast in grammar_cases(leafset, n, doc_name, (k, K)):
        judge(res, part, doc_name, ast)
        if res.states % 5000 == 1:
            res.sample({'text': M.text(ast), 'doc': doc_name, 'expected': repr(M.run(ast, DOC[doc_name]))}, limit=2)
    return res


def job_nests(valset, d, doc_name, k, K, part='nest'):
    res = Result()
    for ast in nest_cases(valset, d, (k, K)):
        judge(res, part, doc_name, ast)
        if res.states % 5000 == 1:
            res.sample({'text': M.text(ast), 'doc': doc_name, 'expected': repr(M.run(ast, DOC[doc_name]))}, limit=2)
    return res


def job_elem(tagset, max_rows, k, K):
    res = Result()
    names = elem_doc_names(tagset, max_rows)[k::K]
    for ast in elem_cases(tagset):
        for name in names:
            judge(res, 'elem', name, ast)
    res.sample({'text': M.text(ast), 'doc': name, 'expected': repr(expected(ast, document(name)))}, limit=1)
    return res


def job_shadow(nameset, shapes, doc_name, k, K):
    res = Result()
    for ast in shadow_cases(nameset, shapes, k, K):
        judge(res, 'shadow', doc_name, ast)
    res.sample({'text': M.text(ast), 'doc': doc_name, 'expected': repr(expected(ast, document(doc_name)))}, limit=1)
    return res


def jobs(tier, seed):
    out = []

    def grammar(leafset, n, docs, K, part='grammar'):
        for name, _ in docs:
            for k in range(K):
                out.append(('%s-%s-n%d-%s-%d' % (part, leafset, n, name, k), 'job_grammar', (leafset, n, name, k, K, part)))

    def nests(valset, d, docs, K, part='nest'):
        for name in docs:
            for k in range(K):
                out.append(('%s-%s-d%d-%s-%d' % (part, valset, d, name, k), 'job_nests', (valset, d, name, k, K, part)))

    one = DOCS[:1]
    if tier == 'quick':
        for n in (1, 2, 3, 4):
            grammar('full', n, DOCS, 1)
        grammar('small', 5, DOCS, 2)
        nests('full', 1, NEST_DOCS, 1)
        nests('full', 2, NEST_DOCS, 2)
        nests('small', 3, NEST_DOCS[:1], 24)
        nests('names', 1, NEST_DOCS[:1], 1)
        nests('names', 2, NEST_DOCS[:1], 4)
        # the same under a host that overrides variable access
        for n in (1, 2, 3):
            grammar('full', n, one, 1, 'host-grammar')
        nests('full', 1, NEST_DOCS[:1], 1, 'host-nest')
        nests('full', 2, NEST_DOCS[:1], 2, 'host-nest')
        for k in range(8):
            out.append(('elem-q3-%d' % k, 'job_elem', ('q', 3, k, 8)))
        for k in range(8):
            out.append(('shadow-q-mixed-%d' % k, 'job_shadow', ('q', SHAPES_QUICK, 'xs:mixed', k, 8)))
    else:
        for n in (1, 2, 3, 4):
            grammar('full', n, DOCS, 1)
        grammar('full', 5, DOCS, 3)
        grammar('full', 6, [d for d in DOCS if d[0] in ('int', 'records')], 32)
        nests('full', 1, NEST_DOCS, 1)
        nests('full', 2, NEST_DOCS, 2)
        nests('full', 3, NEST_DOCS, 24)
        nests('tiny', 4, NEST_DOCS[:1], 48)
        nests('names', 1, NEST_DOCS, 1)
        nests('names', 2, NEST_DOCS, 4)
        for n in (1, 2, 3, 4):
            grammar('full', n, DOCS, 1, 'host-grammar')
        nests('full', 1, NEST_DOCS, 1, 'host-nest')
        nests('full', 2, NEST_DOCS, 2, 'host-nest')
        for k in range(16):
            out.append(('elem-t3-%d' % k, 'job_elem', ('t', 3, k, 16)))
        for name in ('xs:mixed', 'xs:empty'):
            for k in range(16):
                out.append(('shadow-t-%s-%d' % (name, k), 'job_shadow', ('t', SHAPES_FULL, name, k, 16)))
    return out


def finish(total, tier):
    """One defect should not produce one key per combination of constructs: a construct set is
    reported only if no other failing construct set is a strict subset of it."""
    sets = {}
    for key, f in total.failures.items():
        fs = f.case.get('constructs') if isinstance(f.case, dict) else None
        if fs is not None:
            sets[key] = frozenset(fs)
    subsumed = 0
    for key, fs in sets.items():
        if any(other < fs for other in sets.values()):
            subsumed += total.failure_counts.pop(key, 0)
            del total.failures[key]
    if subsumed:
        total.extra['mismatches_subsumed_by_a_smaller_construct_set'] = subsumed
    judged = total.states - total.out_of_domain
    if judged:
        total.extra['value_to_value_ratio'] = round(total.nontrivial / judged, 4)


def replay(case):
    ast, doc = case['ast'], document(case['doc'])
    host = case['part'].startswith('host')
    text = M.text(ast)
    exp = expected(ast, doc, host)
    obs = observe(text, doc, host)
    return {'text': text, 'observed': repr(obs), 'expected': repr(exp),
            'ok': exp is None or agree(obs, exp)}
