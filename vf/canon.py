"""Canonical deep snapshots of live Python objects (for explicit-state search).

snapshot(obj) returns a hashable nested tuple that contains *every* attribute
reachable from obj (instance __dict__ and __slots__, containers element by
element), so two objects with equal snapshots have equal futures as far as the
explored code is deterministic.  Object identities are replaced by first-visit
numbers (deterministic traversal order: dict keys sorted by repr, sets sorted
by snapshot), so snapshots taken on different but isomorphic object graphs
(e.g. two freshly built engines) compare equal, and aliasing / cycles are
preserved as back-references.

Objects of `opaque` types (functions, compiled regexes, modules, classes,
locks ...) are immutable for our purposes and are represented by type and
qualified name; `big` containers (len > big_len) of such immutable tables are
represented by type, length and a digest of their repr-able keys.
"""
import re
import types

_RE = type(re.compile(''))
OPAQUE = (types.FunctionType, types.BuiltinFunctionType, types.MethodType, types.ModuleType,
          type, _RE, types.CodeType, staticmethod, classmethod, property, types.MethodWrapperType,
          types.WrapperDescriptorType, types.MethodDescriptorType, types.GetSetDescriptorType)

SCALARS = (type(None), bool, int, float, str, bytes, complex)


def _opaque_name(o):
    if isinstance(o, types.MethodType):
        return ('method', getattr(o.__func__, '__qualname__', '?'))
    if isinstance(o, _RE):
        return ('regex', o.pattern[:40], o.flags)
    n = getattr(o, '__qualname__', None) or getattr(o, '__name__', None) or ''
    return (type(o).__name__, getattr(o, '__module__', None) or '', n)


def snapshot(obj, max_depth=40, big_len=400, skip_attrs=(), extra_opaque=()):
    seen = {}
    opaque = OPAQUE + tuple(extra_opaque)

    def attrs_of(o):
        d = {}
        for klass in type(o).__mro__:
            for s in getattr(klass, '__slots__', ()) or ():
                if isinstance(s, str) and s not in ('__dict__', '__weakref__'):
                    try:
                        d[s] = getattr(o, s)
                    except AttributeError:
                        d[s] = ('<unset>',)
        if hasattr(o, '__dict__'):
            d.update(vars(o))
        return d

    def walk(o, depth):
        if isinstance(o, SCALARS):
            if isinstance(o, float):
                return ('f', repr(o))
            return o
        if isinstance(o, opaque):
            return ('op',) + _opaque_name(o)
        i = id(o)
        if i in seen:
            return ('ref', seen[i])
        seen[i] = len(seen)
        me = seen[i]
        if depth > max_depth:
            return ('deep', me, type(o).__name__)
        if isinstance(o, (list, tuple)):
            if len(o) > big_len:
                return ('big', me, type(o).__name__, len(o))
            return (type(o).__name__, me) + tuple(walk(x, depth + 1) for x in o)
        if isinstance(o, dict):
            if len(o) > big_len:
                return ('big', me, 'dict', len(o))
            items = sorted(o.items(), key=lambda kv: repr(kv[0]) if isinstance(kv[0], SCALARS + (tuple,)) else type(kv[0]).__name__)
            return ('dict', me) + tuple((walk(k, depth + 1), walk(v, depth + 1)) for k, v in items)
        if isinstance(o, (set, frozenset)):
            if len(o) > big_len:
                return ('big', me, 'set', len(o))
            elems = [walk(x, depth + 1) for x in sorted(o, key=_stable_key)]
            return (type(o).__name__, me) + tuple(elems)
        d = attrs_of(o)
        if not d and not hasattr(o, '__dict__'):
            return ('obj', me, type(o).__name__, repr(o)[:60] if type(o).__repr__ is not object.__repr__ else '')
        return ('obj', me, type(o).__module__ + '.' + type(o).__qualname__) + tuple(
            (k, walk(v, depth + 1)) for k, v in sorted(d.items()) if k not in skip_attrs)

    return walk(obj, 0)


def _stable_key(x):
    """Order set elements without depending on hash order or identity."""
    if isinstance(x, SCALARS):
        return (0, type(x).__name__, repr(x))
    name = getattr(x, 'name', None)
    payload = getattr(x, 'payload', None)
    q = getattr(payload, '__qualname__', '') if payload is not None else ''
    return (1, type(x).__name__, repr(name), q, repr(sorted(getattr(x, 'parameters', {}) or {})),
            repr(getattr(x, 'meta', None)))


def digest(snap):
    import hashlib
    return hashlib.blake2b(repr(snap).encode('utf-8', 'backslashreplace'), digest_size=10).hexdigest()
