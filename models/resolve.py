"""Reference model of YAQL overload resolution (properties C05, C06).

Written from doc/source/extending_yaql.rst "Function resolution rules"
(steps 1-8, cited below as R1..R8), language_reference.rst ("Positional
parameters can be skipped if they have a default value", "keyword arguments
... must match the parameter name in the function declaration") and the
property statement.  Imports nothing from yaql.

Descriptions (plain hashable tuples):

  parameter  (name, kind, type, nullable, has_default)
             name      the name callers use for it (the convention alias)
             kind      'pos' | 'varargs' | 'kwonly' | 'varkw' | 'hidden'
             type      a class name of the lattice, 'Any', 'Lazy' (Lambda), 'Rule' (MappingRule:
                       lazy, accepts only `name => expr`), or for hidden parameters 'Engine' | 'Context' |
                       'Super/<None|True|False>/<arg|noarg>': the payload calls its base implementation
                       (see resolve) with its first argument / without arguments and returns that result
  overload   (tag, parameters, kind, no_kwargs)     kind 'function' | 'method' | 'ext'
  layer      (exclusive, overloads)                 layers are listed nearest first
  item       ('var', v)          eager expression whose value is the lattice value v
             ('val', v)          the value v itself (a method receiver)
             ('const', c)        literal constant (None = null)
             SKIP                empty slot
             ('rule', name, item)   `name => item` as handed to a no_kwargs function
  call       (receiver item | None, positional items, ((keyword, item), ...))

resolve() returns (outcome, evaluated, binding):
  outcome    ('run', tag) | ('error', UNKNOWN|NOMATCH|AMBIGUOUS, 'function'|'method')
  evaluated  keys (position / keyword) of the eager arguments evaluated, in order
  binding    for 'run': ((parameter name, what the payload received), ...)

`relaxed` names documented rules that are switched off; the drivers use it only
to name the mechanism of a disagreement (never to accept it).
"""

SKIP = 'SKIP'
LAZY = ('Lazy', 'Rule')                   # parameter types that keep their argument unevaluated
UNKNOWN, NOMATCH, AMBIGUOUS = 'unknown', 'nomatch', 'ambiguous'

# rules that can be switched off
SKIP_INTO_VARARGS = 'skip-into-varargs'   # a skipped slot may be absorbed by *args (no default needed)
KEYWORD_UNCHECKED = 'keyword-unchecked'   # constants bound by keyword to a declared parameter are not checked before evaluation
SINGLE_PASS = 'single-pass'               # the winner is chosen in one left-to-right pass over the enumeration order
MARKER = ('const', '<NoValue>')           # with SKIP_INTO_VARARGS: the empty slot itself travels as a value
ABSORBED = ('const', '<NoValue>', 'absorbed')   # ... or is dropped when the parameter also comes by keyword


class Lattice(object):
    """Classes below 'Any' (multiple inheritance allowed); a value is an
    instance of exactly one class, or null (class None).  A union type
    (PythonType with a tuple of classes) accepts what any member accepts and is
    neither more nor less specific than anything."""

    def __init__(self, parents, values, unions=None):
        self.values = dict(values)
        self.unions = dict(unions or {})
        self.ancestors = {'Any': frozenset()}
        for c in parents:
            seen, todo = set(['Any']), [c]
            while todo:
                for p in parents.get(todo.pop(), ()):
                    if p not in seen:
                        seen.add(p)
                        todo.append(p)
            self.ancestors[c] = frozenset(seen)

    def strict_sub(self, t1, t2):
        return t2 in self.ancestors.get(t1, ())

    def accepts(self, ptype, nullable, vname):
        cls = self.values[vname]
        if cls is None:
            return nullable
        if ptype in self.unions:
            return any(m == cls or self.strict_sub(cls, m) for m in self.unions[ptype])
        return ptype == cls or self.strict_sub(cls, ptype)


def python_spelling(name):
    """Parameters are declared in python spelling and called by their convention
    alias (extending_yaql.rst, "Naming conventions": arg_name -> argName)."""
    return ''.join('_' + ch.lower() if ch.isupper() else ch for ch in name)


def bind(params, args, kwargs, relaxed=()):
    """R3: can the overload be called by the given syntax?  Python-like binding
    with hidden parameters removed.  -> [(key, parameter, item)] or None."""
    pos = [p for p in params if p[1] == 'pos']
    varargs = next((p for p in params if p[1] == 'varargs'), None)
    kwonly = [p for p in params if p[1] == 'kwonly']
    varkw = next((p for p in params if p[1] == 'varkw'), None)
    kwargs = dict(kwargs)
    mapping = []
    absorbed = set()
    for i, a in enumerate(args):
        if i < len(pos):
            p = pos[i]
            if a == SKIP:
                if SKIP_INTO_VARARGS in relaxed and varargs is not None and p[0] in kwargs:
                    absorbed.add(i)
                    mapping.append((i, varargs, ABSORBED))
                    continue
                if p[0] in kwargs or not p[4]:
                    return None          # a skipped slot takes the default: needs one, and no second value
            elif p[0] in kwargs:
                return None              # two values for one parameter
            mapping.append((i, p, a))
        else:
            if varargs is None:
                return None              # too many positional arguments
            if a == SKIP:
                if SKIP_INTO_VARARGS not in relaxed:
                    return None          # *args has no default to fall back to
                a = MARKER
            mapping.append((i, varargs, a))
    for i, p in enumerate(pos):
        if i >= len(args) or i in absorbed:
            if p[0] in kwargs:
                mapping.append((p[0], p, kwargs.pop(p[0])))
            elif not p[4]:
                return None              # mandatory parameter not supplied
    for p in kwonly:
        if p[0] in kwargs:
            mapping.append((p[0], p, kwargs.pop(p[0])))
        elif not p[4]:
            return None
    for k, v in kwargs.items():
        if varkw is None:
            return None                  # keyword name that no parameter has
        if any(python_spelling(p[0]) == k for p in params):
            return None                  # ... nor can **kwargs carry the python spelling of a declared parameter
        mapping.append((k, varkw, v))
    return mapping


def _value_ok(lat, p, item):
    """Does the value of item satisfy parameter p?"""
    if item == SKIP:
        return True                      # the default (the space only has type-correct defaults)
    if item[0] == 'const':
        if item[1] is None:
            return p[3]
        return p[2] == 'Any'             # 1, 'k', kw are instances of no lattice class
    if item[0] == 'rule':
        return p[2] == 'Any'             # a mapping-rule object
    return lat.accepts(p[2], p[3], item[1])


def static_ok(lat, mapping, relaxed=()):
    """Type check of what is known before evaluation: constants, null, and a
    value (the receiver is one when the method call is resolved)."""
    for key, p, item in mapping:
        if p[2] == 'Rule' and (item == SKIP or item[0] != 'rule'):
            return False                 # a mapping rule is recognised by its syntax
        if p[2] in LAZY or item == SKIP or item[0] not in ('const', 'val'):
            continue
        if KEYWORD_UNCHECKED in relaxed and not isinstance(key, int) and p[1] != 'varkw':
            continue
        if not _value_ok(lat, p, item):
            return False
    return True


def dynamic_ok(lat, mapping):
    """R5: the evaluated values are validated by the smart-type of each parameter."""
    return all(p[2] in LAZY or _value_ok(lat, p, item) for key, p, item in mapping)


def more_specific(lat, m1, m2):
    """m1 is a strict specialisation of m2: per supplied argument never less
    specific, at least once more specific.  Lazy parameters do not compare."""
    d2 = dict((k, p) for k, p, a in m2)
    res = False
    for k, p1, a in m1:
        t1, t2 = p1[2], d2[k][2]
        if t1 in LAZY or t2 in LAZY:
            continue
        if lat.strict_sub(t2, t1):
            return False
        if lat.strict_sub(t1, t2):
            res = True
    return res


def _label(lat, p, item):
    if p[2] in LAZY:
        return p[2].lower()
    if item == MARKER:
        return '<NoValue>'
    if item[0] in ('var', 'val'):
        return item[1] if lat.values[item[1]] is not None else 'null'
    if item[0] == 'rule':
        return 'rule'
    return 'null' if item[1] is None else repr(item[1])


def binding(lat, params, mapping):
    """What the payload receives, parameter by parameter (hidden ones included).
    An unsupplied or skipped parameter receives 'default' (null for a lazy one)."""
    out = []
    for p in params:
        mine = [(k, a) for k, q, a in mapping if q == p and a != ABSORBED]
        if p[1] == 'hidden':
            v = p[2].split('/')[0].lower()
        elif p[1] == 'varargs':
            v = tuple(_label(lat, p, a) for k, a in mine)
        elif p[1] == 'varkw':
            v = tuple(sorted((k, _label(lat, p, a)) for k, a in mine))
        elif not mine or mine[0][1] == SKIP:
            v = 'null' if p[2] == 'Lazy' else 'default'
        else:
            v = _label(lat, p, mine[0][1])
        out.append((p[0], v))
    return tuple(out)


def winner(lat, ok, relaxed=()):
    """R7 refined by specificity: the single candidate that is a strict
    specialisation of every other one, else None (ambiguous)."""
    if SINGLE_PASS in relaxed:
        best = ok[0]
        for x in ok[1:]:
            if more_specific(lat, best[1], x[1]):
                continue
            if not more_specific(lat, x[1], best[1]):
                return None
            best = x
        return best
    win = [x for x in ok if all(x is y or more_specific(lat, x[1], y[1]) for y in ok)]
    return win[0] if len(win) == 1 else None


def resolve(lat, layers, call, relaxed=()):
    """Resolution of the call, followed - when the overload that runs takes a
    Super hidden parameter - by the resolution of its base call.  yaqltypes.Super
    (docstring in extending_yaql.rst: "injects callable to an overload of itself
    from the parent context"): the base call is resolved from the parent of the
    layer that holds the running overload; method=None keeps the receiver (and
    hence the call kind) of the current call, True takes the first argument as
    the new receiver, False forces a function call.  Arguments of the base call
    are values."""
    outcome, evaluated, bound = resolve_once(lat, layers, call, relaxed)
    if outcome[0] != 'run':
        return outcome, evaluated, bound
    for depth, (exclusive, overloads) in enumerate(layers):
        for o in overloads:
            sup = [p[2] for p in o[1] if p[1] == 'hidden' and p[2].startswith('Super/')]
            if o[0] == outcome[1] and sup:
                variant, mode = sup[0].split('/')[1:]
                first = call[0] if call[0] is not None else call[1][0]
                value = first if first[0] == 'const' else ('val', first[1])
                args = (value,) if mode == 'arg' else ()
                recv = call[0]
                if variant == 'True':
                    recv, args = args[0], args[1:]
                elif variant == 'False':
                    recv = None
                inner, _, inner_bound = resolve(lat, layers[depth + 1:], (recv, args, ()), relaxed)
                if inner[0] != 'run':
                    return inner, evaluated, None
                return ('run', o[0] + '>' + inner[1]), evaluated, inner_bound
    return outcome, evaluated, bound


def resolve_once(lat, layers, call, relaxed=()):
    recv, args, kwargs = call
    flavour = 'function' if recv is None else 'method'
    want = ('function', 'ext') if recv is None else ('method', 'ext')      # R1: kind by call syntax
    collected = []
    for exclusive, overloads in layers:                                    # R2: nearest first,
        sel = [o for o in overloads if o[2] in want]
        if sel:
            collected.append(sel)
        if exclusive:                                                      # nothing behind an exclusive layer
            break
    if not collected:
        return ('error', UNKNOWN, flavour), (), None
    flags = set(o[3] for layer in collected for o in layer)
    if len(flags) > 1:
        return ('error', AMBIGUOUS, flavour), (), None                     # keyword syntax must mean one thing
    eff = (() if recv is None else (recv,)) + tuple(args)
    if True in flags:                                                      # @no_kwargs: `name => v` is an ordinary argument
        eff += tuple(('rule', k, v) for k, v in kwargs)
        kwargs = ()
    surviving, laziness = [], set()
    for layer in collected:
        s = []
        for o in layer:
            m = bind(o[1], eff, kwargs, relaxed)                           # R3
            if m is None or not static_ok(lat, m, relaxed):
                continue
            laziness.add(frozenset(k for k, p, a in m if p[2] in LAZY))
            s.append((o, m))
        if s:
            surviving.append(s)
    if not surviving:
        return ('error', NOMATCH, flavour), (), None
    if len(laziness) > 1:                                                  # R4, over all layers
        return ('error', AMBIGUOUS, flavour), (), None
    lazy = next(iter(laziness))
    evaluated = tuple(_probe(k, a) for k, a in list(enumerate(eff)) + list(kwargs)   # R5: once, left to right
                      if k not in lazy and _probe(k, a) is not None)
    for layer in surviving:                                                # R5/R6: first non-empty layer
        ok = [(o, m) for o, m in layer if dynamic_ok(lat, m)]
        if not ok:
            continue
        best = winner(lat, ok, relaxed)
        if best is None:
            return ('error', AMBIGUOUS, flavour), evaluated, None
        return ('run', best[0][0]), evaluated, binding(lat, best[0][1], best[1])  # R8
    return ('error', NOMATCH, flavour), evaluated, None


def _probe(key, item):
    """The key under which the evaluation of an argument is observable: its
    position / keyword; for `name => expr` the keyword of the inner expression;
    None for constants, values and empty slots (nothing to evaluate)."""
    if item != SKIP and item[0] == 'rule':
        return _probe(item[1], item[2])
    return key if item != SKIP and item[0] == 'var' else None


def valid_method(params):
    """A method needs a first visible positional (or *args) parameter that is
    not lazy: the receiver is bound to it (rejected at registration otherwise)."""
    for p in params:
        if p[1] in ('pos', 'varargs'):
            return p[2] not in LAZY
    return False


def registered(history):
    """What a history of registration attempts leaves visible.

    history    layers nearest first; each layer is the sequence of attempts
               (overload, exclusive) made on that context, in the order made.
    An attempt to register a method / extension method that cannot be called as
    a method (valid_method) is rejected and changes NOTHING: the overload is not
    visible and the layer is not marked exclusive by it ("the overloads visible
    for a name" are the ones whose registration succeeded).  A layer is
    exclusive when an accepted registration asked for it.
    -> (layers as resolve() takes them, ((layer index, attempt index), ...) of the rejected attempts)"""
    layers, rejected = [], []
    for li, attempts in enumerate(history):
        accepted = []
        for ai, (o, exclusive) in enumerate(attempts):
            if o[2] != 'function' and not valid_method(o[1]):
                rejected.append((li, ai))
            else:
                accepted.append((o, exclusive))
        layers.append((any(e for o, e in accepted), tuple(o for o, e in accepted)))
    return tuple(layers), tuple(rejected)


# ---------------------------------------------------------------------------
# the kind of an overload as its construction leaves it (C05)
# ---------------------------------------------------------------------------
def kind_after(decorated, function, method):
    """decorated  None (plain function) | 'method' (@specs.method) | 'ext' (@specs.extension_method)
    function, method  the tri-state overrides of register_function(f, function=..., method=...) /
                      get_function_definition(f, function=..., method=...): None keeps what the
                      declaration says, True / False switch that call syntax on / off.
    -> 'function' | 'method' | 'ext', or None when neither syntax is left (extending_yaql.rst:
    "Function type: function, method or extension method" - there is no fourth)."""
    as_function, as_method = {None: (True, False), 'method': (False, True), 'ext': (True, True)}[decorated]
    if function is not None:
        as_function = function
    if method is not None:
        as_method = method
    return {(True, False): 'function', (False, True): 'method', (True, True): 'ext', (False, False): None}[
        (as_function, as_method)]


# ---------------------------------------------------------------------------
# the smart-type alphabet (extending_yaql.rst "Specifying function parameter
# types" and "Lazy evaluated function parameters") - C05 type filter
# ---------------------------------------------------------------------------
# argument   (node, value, probe)
#            node   how the argument is written: 'call' f(...), 'binary' a op b (also a.f()), 'unary' op a,
#                   'index' a[b], 'list' [..], 'map' {..}, 'var' $x, or a literal: 'string' 'integer' 'float'
#                   'boolean' 'null' 'keyword'
#            value  the class of its value: 'str' 'int' 'float' 'bool' 'null' 'list' 'dict' 'iterator' 'datetime' 'object'
#            probe  evaluating it is observable (it contains a tick probe)
# type       (name, ...):
#   ('Expression', (node class, ...))   YaqlExpression: the AST itself, "of a particular expression type rather than an
#                                       arbitrary YAQL expression" when classes are given - lazy
#   ('Lambda', method)                  a callable; Lambda(method=True) "must be a method" - lazy
#   ('Constant'|'StringConstant'|'NumericConstant'|'BooleanConstant', nullable), ('Keyword',)
#                                       "enforce particular representation in the YAQL syntax": only a literal
#   ('String'|'Integer'|'Number'|'DateTime'|'Sequence'|'Iterable'|'Iterator', nullable)
#   ('Python', class name, nullable)    "validates if the value is instance of a given Python type"
#   ('AnyOf', (types), nullable), ('Chain', (types), nullable), ('NotOfType', type, nullable)
NODE_CLASS = {'call': 'Function', 'binary': 'BinaryOperator', 'unary': 'UnaryOperator', 'index': 'IndexExpression',
              'list': 'ListExpression', 'map': 'MapExpression', 'var': 'GetContextValue', 'string': 'Constant',
              'integer': 'Constant', 'float': 'Constant', 'boolean': 'Constant', 'null': 'Constant',
              'keyword': 'KeywordConstant'}
LITERALS = ('string', 'integer', 'float', 'boolean', 'null', 'keyword')
LAZY_TYPES = ('Expression', 'Lambda')
CONSTANT_TYPES = {'Constant': LITERALS, 'StringConstant': ('string',), 'NumericConstant': ('integer', 'float'),
                  'BooleanConstant': ('boolean',), 'Keyword': ('keyword',)}
# "Strings are not considered to be collections of characters", "Booleans are not integers", "Dictionaries are not
# iterable"; String - str; Number - integer or float; Sequence - fixed-size iterable collection, except for the
# dictionary; Iterable - any iterable or generator; Iterator - iterator over the iterable
VALUE_CLASSES = {'String': ('str',), 'Integer': ('int',), 'Number': ('int', 'float'), 'DateTime': ('datetime',),
                 'Sequence': ('list',), 'Iterable': ('list', 'iterator'), 'Iterator': ('iterator',)}
PYTHON_CLASSES = {'object': ('str', 'int', 'float', 'bool', 'list', 'dict', 'iterator', 'datetime', 'object'),
                  'str': ('str',), 'A': ('object',)}


def type_is_lazy(t):
    return t[0] in LAZY_TYPES


def type_accepts(t, arg):
    """Is an argument compatible with a declared smart type?  True / False, or
    None where the documentation does not say (outside the domain)."""
    node, value, _ = arg
    name = t[0]
    if name == 'Expression':
        if not t[1]:
            return True                              # an arbitrary YAQL expression
        if node == 'keyword' and 'Constant' in t[1] and 'KeywordConstant' not in t[1]:
            return None                              # is a keyword a constant node?  not written down
        return NODE_CLASS[node] in t[1]
    if name == 'Lambda':
        if not t[1]:
            return True
        return True if node == 'call' else None      # "must be a method": only said of something callable with a receiver
    if name in CONSTANT_TYPES:
        if node not in LITERALS:
            return False
        if node == 'null':
            return None                              # `null` against a constant type: nullable is said of values only
        if name == 'StringConstant' and node == 'keyword':
            return None                              # a bare word is not string syntax, but its value is a string
        return node in CONSTANT_TYPES[name]
    if name in ('AnyOf', 'Chain', 'NotOfType'):
        if value == 'null':
            return t[2]
        if name == 'NotOfType':
            inner = type_accepts(t[1], arg)
            return None if inner is None else not inner
        inner = [type_accepts(x, arg) for x in t[1]]
        if None in inner:
            return None
        return any(inner) if name == 'AnyOf' else all(inner)
    nullable = t[-1]
    if value == 'null':
        return nullable
    if name == 'Python':
        return value in PYTHON_CLASSES[t[1]]
    return value in VALUE_CLASSES[name]


def more_specific_type(t1, t2):
    """The subtype lattice of the property is one of classes: a type that stands
    for a single class is more specific than 'anything' (PythonType(object))."""
    single = ('String', 'Integer', 'DateTime')
    return t2[:2] == ('Python', 'object') and (t1[0] in single or (t1[0] == 'Python' and t1[1] != 'object'))


LAZINESS_AFTER_TYPES = 'static-first'     # reading A: what can be decided on the AST is decided before laziness is compared
LAZINESS_FIRST = 'laziness-first'         # reading B: R4 before any type is looked at (the order the rules are written in)


def resolve_typed(layers, args, reading=LAZINESS_AFTER_TYPES):
    """Families of function overloads foo(x[, y]) whose parameters are declared
    with smart types, called as foo(arg[, arg]) written as text.

    layers  ((exclusive, ((tag, (type, ...)), ...)), ...) nearest first; every overload has len(args) parameters
    -> (outcome, evaluated) as resolve() does, or None when an acceptance it needs is not documented."""
    collected = []
    for exclusive, overloads in layers:
        if overloads:
            collected.append(overloads)
        if exclusive:
            break
    if not collected:
        return ('error', UNKNOWN, 'function'), ()
    verdicts = {}
    for layer in collected:
        for tag, types in layer:
            verdicts[tag] = tuple(type_accepts(t, a) for t, a in zip(types, args))
            if None in verdicts[tag]:
                return None
    lazy_of = lambda types: frozenset(i for i, t in enumerate(types) if type_is_lazy(t))     # noqa: E731
    if reading == LAZINESS_FIRST and len(set(lazy_of(types) for layer in collected for tag, types in layer)) > 1:
        return ('error', AMBIGUOUS, 'function'), ()
    surviving, laziness = [], set()
    for layer in collected:
        s = []
        for tag, types in layer:
            # decided before evaluation: lazy and constant types look at the AST; an eager type can only judge a literal
            known = [verdicts[tag][i] for i, (t, a) in enumerate(zip(types, args))
                     if type_is_lazy(t) or t[0] in CONSTANT_TYPES or a[0] in LITERALS]
            if all(known):
                s.append((tag, types))
                laziness.add(lazy_of(types))
        if s:
            surviving.append(s)
    if not surviving:
        return ('error', NOMATCH, 'function'), ()
    if len(laziness) > 1:
        return ('error', AMBIGUOUS, 'function'), ()
    lazy = next(iter(laziness))
    evaluated = tuple(i for i, a in enumerate(args) if i not in lazy and a[0] not in LITERALS and a[2])
    for layer in surviving:
        ok = [(tag, types) for tag, types in layer if all(verdicts[tag])]
        if not ok:
            continue
        win = [x for x in ok if all(x is y or (any(more_specific_type(a, b) for a, b in zip(x[1], y[1])) and
                                               not any(more_specific_type(b, a) for a, b in zip(x[1], y[1])))
                                    for y in ok)]
        if len(win) != 1:
            return ('error', AMBIGUOUS, 'function'), evaluated
        return ('run', win[0][0]), evaluated
    return ('error', NOMATCH, 'function'), evaluated
