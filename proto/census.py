import warnings; warnings.filterwarnings('ignore')
import yaql, itertools, collections
ROOT = yaql.create_context()
prods = ["{a=>1}.keys()", "{a=>1}.values()", "{a=>1}.items()", "[2,1].orderBy($)", "[1,2].where($>0)", "[1,2].select($)", "[1,2].toSet()", "set(1,2)", "set([1,2])", "[[1,2]].toSet()", "dict(a=>1)", "{[1,2]=>3}", "{{a=>b}=>1}", "{set(1)=>1}",
         "[1,2].groupBy($)", "[1,2].zip([3,4])", "[1,2].enumerate()", "[1,2].toDict($)", "[[1,2]].toDict($)", "[1,2].slice(1)", "[1,2].splitAt(1)", "set(set(1))", "set({a=>1})", "[{a=>1}].toSet()", "[1,2].reverse()", "1.repeat(2)",
         "[1,2].cycle().take(3)", "[1,2].memorize()", "{a=>[1,{b=>set(1)}]}", "[{a=>1}.items()]", "{a=>{b=>1}.keys()}", "set({a=>1}.keys())", "{a=>1}.items().toSet()", "[1,2].accumulate($1+$2)", "'a b'.split()", "'ab'.toCharArray()", "characters(digits=>true)",
         "regex('a').searchAll('aa')", "[1,2].distinct()", "[[1],[2]].distinct()", "{a=>1}.set(b, [1])", "{a=>1}.delete(a)", "[1,2].insert(0, [3])", "[1,2].selectMany([$])", "set(1).union(set(2))", "set(1) + set(2)", "{a=>1} + {b=>2}", "[1] + [2]", "[1].select($) + [2]"]
wrappers = ["%s", "[%s]", "{k => %s}", "{%s => 1}", "set(%s)", "[%s].toSet()", "[[%s]]", "{k => [%s]}"]
def census(v, conv_t, conv_s, out):
    t = type(v)
    if t in (int, float, str, bool, type(None)): return
    if t is dict:
        for k, x in v.items(): census(k, conv_t, conv_s, out); census(x, conv_t, conv_s, out)
        return
    if t is list:
        for x in v: census(x, conv_t, conv_s, out)
        return
    if t is tuple and not conv_t:
        for x in v: census(x, conv_t, conv_s, out)
        return
    if t is set and not conv_s:
        for x in v: census(x, conv_t, conv_s, out)
        return
    out.add(t.__name__)
res = collections.Counter(); ex = collections.OrderedDict()
for conv_t, conv_s in itertools.product([True, False], repeat=2):
    eng = yaql.YaqlFactory().create({'yaql.convertTuplesToLists': conv_t, 'yaql.convertSetsToLists': conv_s})
    engN = yaql.YaqlFactory().create({'yaql.convertOutputData': False})
    for p in prods:
        for w in wrappers:
            txt = w % p
            try: raw = engN(txt).evaluate(context=ROOT.create_child_context()); raw_ok = True
            except Exception as e: raw_ok = False
            try:
                v = eng(txt).evaluate(context=ROOT.create_child_context()); out = set(); census(v, conv_t, conv_s, out)
                key = 'ok' if not out else 'LEFTOVER ' + ','.join(sorted(out))
            except Exception as e:
                key = ('finalize-EXC ' if raw_ok else 'eval-EXC ') + type(e).__name__ + ':' + str(e)[:30]
            res[(conv_t, conv_s, key)] += 1
            if key.startswith('finalize') or key.startswith('LEFT'): ex.setdefault((conv_t, conv_s, key), []).append(txt)
for k, v in sorted(res.items(), key=str): print(k, v)
for k, v in ex.items(): print('EX', k, len(v), v[:6])
