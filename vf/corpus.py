"""Typed value corpus over every function definition of the standard library.

Shared by the drivers that walk *all* registered definitions (C12 spellings,
C07 canary scan, C08/C09 scans).  Nothing here judges anything; it only
answers "which definitions exist, what are their visible parameters, what is
a well-typed value for this parameter, and how is a call of this definition
spelled".

API
---
definitions()                 -> [Def]   all FunctionDefinitions of the context chain
                                 yaql.create_context(delegates=True) (284 on the pinned
                                 tree), in the deterministic order of vf.yq.all_definitions.
    Def.index/.layer/.name/.fd            position in that list, context layer, registered name
    Def.ident                             stable text id  'name|module.payload' (unique)
    Def.kind                              'function' | 'method' | 'extension'
    Def.syntax                            how the name is written in YAQL text:
                                          'name' (identifier), 'binary', 'unary', 'indexer',
                                          'list', 'map', 'property', 'delegate' (#call),
                                          'internal' (#finalize, #iter, #get_context_data: no
                                          direct syntax, reachable through call() only)
    Def.params                            visible positional parameters in call order (hidden
                                          Context/Engine/Delegate parameters removed)
    Def.varargs / .varkw / .kwonly        Param or None / Param or None / [Param]
    Def.no_kwargs                         `name => value` arguments are positional mapping rules
    Param.name/.alias                     python name / keyword name seen by the caller
    Param.index                           visible position (None for *, ** and keyword-only)
    Param.has_default/.default            default is specs.NO_DEFAULT when absent
    Param.is_lazy/.is_constant            LazyParameterType / Constant smart-type (argument must be
                                          literal text, cannot be a variable or a call() element)
    Param.kind/.nullable/.type_desc       corpus kind (see KINDS), nullability, readable type
values_for(param, rec=None)   -> [Value(label, make, text)]   2-4 well-typed values, simplest first.
                                 make() returns a *fresh* Python value bindable as a context
                                 variable (one-shot iterators, OrderingIterables and contexts are
                                 re-created on every call) or make is None when the value exists
                                 only as source text (lambda bodies, keywords, expressions ...);
                                 text is YAQL source or None (yaqlized host objects).
                                 `rec` enables the per-definition hints in HINTS (e.g. call()'s
                                 name must name a function, a producer must terminate).
argument_tuples(rec, per_param=2, mode='star') -> [Args]
                                 Args.pos  [Value] one per rec.params,  Args.var [Value] for *args,
                                 Args.kw {name: Value} for **kwargs.
                                 mode 'star': the base tuple (first value everywhere, no extras),
                                 then every single-parameter deviation, then the diagonals (i-th
                                 value everywhere), then *args of length 1, 2 and one ** entry.
                                 mode 'product': the full cartesian product.
                                 Empty list when some parameter has no corpus (rec.uncovered).
bind(values, prefix='v')      -> (texts, variables): '$v0', ... for values that have make(),
                                 the literal text otherwise; variables is {name: fresh value}.
call_text(rec, form, pos, kw=()) -> YAQL source of one call, or None when that form does not
                                 exist for rec.  form: 'fn' name(args) | 'method' recv.name(args) |
                                 'op' operator/indexer/list/map/property/delegate syntax |
                                 'call' call(name, [args], {kw}) | 'mcall' call(name, [args], {kw}, recv).
                                 pos: argument texts in call order ('' = skipped slot), kw: (name, text) pairs.
install_taps(records)         -> counts list; wraps every fd.payload (an assignable slot) so that
                                 counts[rec.index] is the number of times that definition ran.
                                 TAP_OBSERVER[0] = f(index, args, kwargs) additionally sees every payload call.
evaluate(text, variables, data) / outcome(...)   evaluation on the corpus engine
                                 (allow_delegates, limitIterators=LIMIT) in a child of the corpus root.
"""
import collections
import datetime
import functools
import itertools
import re

import vf.loader  # noqa: F401
from vf import yq

from yaql.language import contexts as ycontexts
from yaql.language import specs as yspecs
from yaql.language import utils as yutils
from yaql.language import yaqltypes
from yaql import yaqlization

LIMIT = 60                      # limitIterators of the corpus engine: endless producers end in CollectionTooLarge
OPTIONS = {'yaql.limitIterators': LIMIT}
RAW = {'yaql.limitIterators': LIMIT, 'yaql.convertOutputData': False}

Value = collections.namedtuple('Value', 'label make text')
Args = collections.namedtuple('Args', 'pos var kw')

KINDS = ('string', 'int', 'number', 'bool', 'any', 'null', 'iterable', 'sequence', 'iterator',
         'mapping', 'set', 'lambda', 'keyword', 'datetime', 'timespan', 'regex', 'mappingrule',
         'lazyrule', 'ordering', 'context', 'callable', 'yaqlized', 'expression', 'stringconst')


class Param(object):
    __slots__ = ('name', 'alias', 'key', 'index', 'default', 'has_default', 'is_lazy',
                 'is_constant', 'kind', 'nullable', 'type_desc', 'pd')

    def __repr__(self):
        return '<Param %s:%s>' % (self.alias, self.type_desc)


class Def(object):
    __slots__ = ('index', 'layer', 'name', 'fd', 'ident', 'kind', 'syntax', 'params',
                 'varargs', 'varkw', 'kwonly', 'no_kwargs', 'uncovered')

    def __repr__(self):
        return '<Def %s>' % self.ident


# ---------------------------------------------------------------------------
# definitions
# ---------------------------------------------------------------------------
_PY_KINDS = [
    (bool, 'bool'), (int, 'int'), (datetime.timedelta, 'timespan'), (datetime.datetime, 'datetime'),
    (yutils.MappingType, 'mapping'), (yutils.SetType, 'set'), (type(None), 'null'),
    (type(re.compile('.')), 'regex'), (yutils.MappingRule, 'mappingrule'),
    (yutils.IteratorType, 'iterator'), (ycontexts.ContextBase, 'context'),
]
_SMART_KINDS = {'String': 'string', 'Integer': 'int', 'Number': 'number', 'DateTime': 'datetime',
                'Iterable': 'iterable', 'Sequence': 'sequence', 'Iterator': 'iterator',
                'Lambda': 'lambda', 'Keyword': 'keyword', 'StringConstant': 'stringconst',
                'MappingRule': 'lazyrule', 'YaqlExpression': 'expression', 'Yaqlized': 'yaqlized'}


def kind_of(t):
    """Corpus kind of a smart-type ('hidden' for injected parameters, 'unknown' if the corpus has none)."""
    if isinstance(t, yaqltypes.HiddenParameterType):
        return 'hidden'
    n = type(t).__name__
    if n == 'PythonType':
        pt = t.python_type
        if pt is object:
            return 'callable' if callable in t.validators else 'any'
        for cls, kind in _PY_KINDS:
            if pt is cls:
                return kind
        if getattr(pt, '__name__', '') == 'OrderingIterable':
            return 'ordering'
        return 'unknown'
    return _SMART_KINDS.get(n, 'unknown')


def type_desc(t):
    n = type(t).__name__
    if n == 'PythonType':
        n = 'PythonType(%s)' % getattr(t.python_type, '__name__', t.python_type)
    elif n == 'Lambda':
        n = 'Lambda(with_context=%s, method=%s)' % (t.with_context, t.method)
    return n + ('?' if getattr(t, 'nullable', False) else '')


def _param(key, pd, index):
    p = Param()
    p.name, p.key, p.index, p.pd = pd.name, key, index, pd
    p.alias = pd.alias or pd.name
    p.default = pd.default
    p.has_default = pd.default is not yspecs.NO_DEFAULT
    p.is_lazy = isinstance(pd.value_type, yaqltypes.LazyParameterType)
    p.is_constant = isinstance(pd.value_type, yaqltypes.Constant)
    p.kind = kind_of(pd.value_type)
    p.nullable = bool(getattr(pd.value_type, 'nullable', False))
    p.type_desc = type_desc(pd.value_type)
    return p


def _syntax(name):
    if name.startswith('#operator_') or name in ('*equal', '*not_equal'):
        return 'binary'
    if name.startswith('#unary_operator_'):
        return 'unary'
    if name.startswith('#property#'):
        return 'property'
    special = {'#indexer': 'indexer', '#list': 'list', '#map': 'map', '#call': 'delegate'}
    if name in special:
        return special[name]
    return 'internal' if name.startswith(('#', '*')) else 'name'


_defs = []


def definitions():
    """All definitions of the standard context chain (built once per process)."""
    if _defs:
        return _defs
    for index, (layer, name, fd) in enumerate(yq.all_definitions(root())):
        d = Def()
        d.index, d.layer, d.name, d.fd = index, layer, name, fd
        d.ident = '%s|%s.%s' % (name, fd.payload.__module__.split('.')[-1], fd.payload.__name__)
        d.kind = 'extension' if fd.is_function and fd.is_method else 'method' if fd.is_method else 'function'
        d.syntax = _syntax(name)
        d.no_kwargs = fd.no_kwargs
        d.varargs = d.varkw = None
        d.kwonly = []
        positional = []
        for key, pd in fd.parameters.items():
            if isinstance(pd.value_type, yaqltypes.HiddenParameterType):
                continue
            if key == '*':
                d.varargs = _param(key, pd, None)
            elif key == '**':
                d.varkw = _param(key, pd, None)
            elif pd.position is None:
                d.kwonly.append(_param(key, pd, None))
            else:
                positional.append((pd.position, key, pd))
        d.params = [_param(key, pd, i) for i, (_, key, pd) in enumerate(sorted(positional, key=lambda t: t[0]))]
        every = d.params + d.kwonly + [p for p in (d.varargs, d.varkw) if p is not None]
        d.uncovered = [p.name for p in every if not values_for(p, d)]
        _defs.append(d)
    idents = [d.ident for d in _defs]
    assert len(set(idents)) == len(idents), 'definition idents are not unique'
    return _defs


def root():
    return yq.root(delegates=True)


def evaluate(text, variables=None, data=yq.NO_VALUE, options=OPTIONS):
    return yq.evaluate(text, data=data, variables=variables, options=options, delegates=True)


def outcome(text, variables=None, data=yq.NO_VALUE, options=OPTIONS):
    return yq.outcome(text, data=data, variables=variables, options=options, delegates=True)


# ---------------------------------------------------------------------------
# values
# ---------------------------------------------------------------------------
@yaqlization.yaqlize
class YProbe(object):
    """A yaqlized host object for the three Yaqlized(...) operator overloads."""
    foo = 256

    def bar(self, x=1):
        return x + 1

    def __getitem__(self, key):
        return 'item-%s' % (key,)


def _lit(text, value):
    return Value(text, lambda: value, text)


def _made(text):
    """A value that is produced by evaluating its own YAQL text (fresh object each time)."""
    return Value(text, lambda: evaluate(text, options=RAW), text)


def _src(text):
    return Value(text, None, text)


NULL = _lit('null', None)

VALUES = {
    'string': [_lit("'ab'", 'ab'), _lit("'b'", 'b'), _lit("''", '')],
    'int': [_lit('2', 2), _lit('0', 0), _lit('-1', -1)],
    'number': [_lit('3', 3), _lit('2.5', 2.5), _lit('0', 0)],
    'bool': [_lit('true', True), _lit('false', False)],
    'any': [_lit('1', 1), _lit("'ab'", 'ab'), _lit('[1, 2]', (1, 2))],
    'null': [NULL],
    'iterable': [_lit('[1, 2, 3]', (1, 2, 3)),
                 Value('iter[3, 1, 2]', lambda: iter([3, 1, 2]), '[3, 1, 2].select($)'),
                 _lit('[]', ())],
    'sequence': [_lit('[1, 2, 3]', (1, 2, 3)), _lit('[]', ()), _lit("['a', 'b']", ('a', 'b'))],
    'iterator': [Value('iter[1, 2, 3]', lambda: iter([1, 2, 3]), '[1, 2, 3].select($)'),
                 Value('iter[]', lambda: iter([]), '[].select($)')],
    'mapping': [Value('{a => 1, b => 2}', lambda: yutils.FrozenDict([('a', 1), ('b', 2)]), '{a => 1, b => 2}'),
                Value('{}', lambda: yutils.FrozenDict(), '{}'),
                Value('{b => 3, c => null}', lambda: yutils.FrozenDict([('b', 3), ('c', None)]), '{b => 3, c => null}')],
    'set': [_lit('set(1, 2)', frozenset([1, 2])), _lit('set()', frozenset()), _lit('set(2, 3)', frozenset([2, 3]))],
    'lambda': [_src('$'), _src('$ < 3'), _src('[$]')],
    'keyword': [_src('a'), _src('zz')],
    'datetime': [_made('datetime(2015, 1, 2, 3, 4, 5)'),
                 _made('datetime(2000, 2, 29, offset => timespan(hours => 3))')],
    'timespan': [_lit('timespan(hours => 1)', datetime.timedelta(hours=1)),
                 _lit('timespan()', datetime.timedelta(0)),
                 _lit('timespan(days => -1, seconds => 30)', datetime.timedelta(days=-1, seconds=30))],
    'regex': [_lit("regex('a+')", re.compile('a+')),
              _lit("regex('(b)|c', ignoreCase => true)", re.compile('(b)|c', re.IGNORECASE))],
    'mappingrule': [Value('a => 1', lambda: yutils.MappingRule('a', 1), 'a => 1'),
                    Value('b => [2]', lambda: yutils.MappingRule('b', (2,)), 'b => [2]')],
    'lazyrule': [_src('true => 1'), _src('false => 2'), _src('null => 3')],
    'ordering': [_made('[2, 1, 3].orderBy($)'), _made('[[1, 2], [1, 1]].orderBy($[0])')],
    'context': [_made('let(a => 1)'), _made('with(7)')],
    'callable': [_made('lambda($)'), _made('lambda([$1, $2])')],
    'yaqlized': [Value('YProbe()', YProbe, None)],
    'expression': [_src('len()'), _src('foo')],
    'stringconst': [_src("'$'"), _src("'$nope'")],
}

# Per-definition hints: (payload module.function, parameter name) -> values that make the call meaningful.
HINTS = {
    ('system.call_func', 'name'): [_lit("'len'", 'len'), _lit("'str'", 'str')],
    ('system.call_func', 'args'): [_lit('[[1, 2]]', ((1, 2),)), _lit("['ab']", ('ab',))],
    ('system.call_func', 'kwargs'): [Value('{}', lambda: yutils.FrozenDict(), '{}')],
    ('date_time.datetime_from_string', 'string'): [_lit("'2015-01-02T03:04:05'", '2015-01-02T03:04:05'),
                                                   _lit("'2016-02-29'", '2016-02-29')],
    ('date_time.datetime_from_string', 'format__'): [NULL, _lit("'%Y-%m-%d'", '%Y-%m-%d')],
    ('date_time.format_', 'format__'): [_lit("'%Y-%m-%d'", '%Y-%m-%d'), _lit("'%H:%M'", '%H:%M')],
    ('queries.generate', 'predicate'): [_src('$ < 3'), _src('false')],
    ('queries.generate', 'producer'): [_src('$ + 1'), _src('$ * 2')],
    ('queries.generate_many', 'producer'): [_src('range($)'), _src('[]')],
    ('queries.accumulate', 'selector'): [_src('$1 + $2'), _src('$')],
    ('queries.aggregate', 'selector'): [_src('$1 + $2'), _src('$')],
    ('regex.replace_by', 'repl'): [_src("'x'"), _src('$.value')],
    ('regex.replace_by_string', 'repl'): [_src("'x'"), _src('$.value')],
    ('regex.search', 'selector'): [_src('$.value'), _src('$2')],
    ('regex.search_all', 'selector'): [_src('$.value'), _src('$2')],
    ('system.send_context', 'right'): [_src('$a'), _src('$')],
    ('system.elvis_operator', 'expr'): [_src('len()'), _src('foo')],
    ('yaqlized.op_dot', 'expr'): [_src('bar(1)'), _src('bar(x => 2)')],
    ('yaqlized.attribution', 'attr'): [_src('foo'), _src('zz')],
    ('yaqlized.indexation', 'key'): [_lit("'foo'", 'foo'), _lit('1', 1)],
    ('collections.dict_indexer', 'key'): [_lit("'a'", 'a'), _lit("'zz'", 'zz')],
    ('collections.dict_indexer_with_default', 'key'): [_lit("'a'", 'a'), _lit("'zz'", 'zz')],
    ('collections.dict_get', 'key'): [_lit("'a'", 'a'), _lit("'zz'", 'zz')],
    ('collections.contains_key', 'key'): [_lit("'a'", 'a'), _lit("'zz'", 'zz')],
    ('collections.dict__', 'items'): [_lit("[['a', 1], ['b', 2]]", (('a', 1), ('b', 2))), _lit('[]', ())],
    ('strings.join', 'sequence'): [_lit("['a', 'b']", ('a', 'b')), _lit('[1, 2, 3]', (1, 2, 3)), _lit('[]', ())],
    ('strings.join_', 'sequence'): [_lit("['a', 'b']", ('a', 'b')), _lit('[1, 2, 3]', (1, 2, 3)), _lit('[]', ())],
    ('queries.zip_longest', 'kwargs'): [_lit('0', 0)],
    ('system.op_dot', 'receiver'): [_lit("'ab'", 'ab'), _lit('[1, 2]', (1, 2)), NULL],
    ('system.op_dot', 'expr'): [_src('len()'), _src('toUpper()')],
    # string.letters/lowercase/uppercase do not exist on Python 3 (a C19 matter): false first
    ('strings.characters', 'letters'): [_lit('false', False), NULL, _lit('true', True)],
    ('strings.characters', 'lowercase'): [_lit('false', False), NULL, _lit('true', True)],
    ('strings.characters', 'uppercase'): [_lit('false', False), NULL, _lit('true', True)],
}
VARKW_NAMES = {'queries.zip_longest': 'default'}      # the keyword a ** entry is given under (default 'x')


def _payload_id(fd):
    return '%s.%s' % (fd.payload.__module__.split('.')[-1], fd.payload.__name__)


def values_for(param, rec=None):
    """Corpus values for one parameter, simplest first; null is the second value of a nullable parameter."""
    vals = None
    if rec is not None:
        vals = HINTS.get((_payload_id(rec.fd), param.name))
    if vals is None:
        vals = VALUES.get(param.kind, [])
        if vals and param.nullable and param.kind not in ('null', 'lambda') and not param.is_constant:
            vals = vals[:1] + [NULL] + vals[1:]
    return list(vals)


def argument_tuples(rec, per_param=2, mode='star'):
    """Well-typed argument tuples for one definition (see the module docstring)."""
    if rec.uncovered:
        return []
    cols = [values_for(p, rec)[:per_param] for p in rec.params]
    if mode == 'product':
        tuples = [list(t) for t in itertools.product(*cols)]
    else:
        base = [c[0] for c in cols]
        tuples = [base]
        for i, c in enumerate(cols):
            for v in c[1:]:
                tuples.append(base[:i] + [v] + base[i + 1:])
        for k in range(1, per_param):
            diag = [c[min(k, len(c) - 1)] for c in cols]
            if diag not in tuples:
                tuples.append(diag)
    out = [Args(t, [], {}) for t in tuples]
    base = tuples[0]
    if rec.varargs is not None:
        vs = values_for(rec.varargs, rec)
        out.append(Args(base, [vs[0]], {}))
        out.append(Args(base, [vs[0], vs[min(1, len(vs) - 1)]], {}))
        if not rec.params:
            out = out[1:] + out[:1]          # a pure *args function: the call with arguments is the base
    if rec.varkw is not None:
        name = VARKW_NAMES.get(_payload_id(rec.fd), 'x')
        v = values_for(rec.varkw, rec)[0]
        out.append(Args(base, [], {name: v}))
        if rec.varargs is not None:
            out.append(Args(base, [values_for(rec.varargs, rec)[0]], {name: v}))
    return out


def bind(values, prefix='v'):
    """Spell values as context variables where possible: (texts, variables)."""
    texts, variables = [], {}
    for i, v in enumerate(values):
        if v.make is None:
            texts.append(v.text)
        else:
            name = '%s%d' % (prefix, i)
            variables[name] = v.make()
            texts.append('$' + name)
    return texts, variables


# ---------------------------------------------------------------------------
# call texts
# ---------------------------------------------------------------------------
_ATOM = re.compile(r"^(\$\w*|\d+(\.\d+)?|'[^'\\]*'|null|true|false|\w+)$")


def _operand(text):
    """An argument text in operand position: parenthesised unless it is an atom."""
    return text if _ATOM.match(text) else '(' + text + ')'


def _is_rule(text):
    """True when text is a bare `a => b` mapping rule (which is an argument, never an operand)."""
    depth = 0
    for i, ch in enumerate(text):
        if ch in '([{':
            depth += 1
        elif ch in ')]}':
            depth -= 1
        elif depth == 0 and text.startswith('=>', i):
            return True
    return False


def _join(pos, kw):
    return ', '.join(list(pos) + ['%s => %s' % (k, v) for k, v in kw])


def call_text(rec, form, pos, kw=()):
    """YAQL source calling `rec` in the given form (None when rec has no such form)."""
    pos = list(pos)
    kw = list(kw)
    name = rec.name
    if form == 'fn':
        if rec.syntax != 'name':
            return None
        return '%s(%s)' % (name, _join(pos, kw))
    if form == 'method':
        if rec.syntax != 'name' or not pos or pos[0] == '' or _is_rule(pos[0]):
            return None
        return '%s.%s(%s)' % (_operand(pos[0]), name, _join(pos[1:], kw))
    if form in ('call', 'mcall'):
        if '' in pos:
            return None
        qname = "'%s'" % name
        kwd = '{%s}' % ', '.join('%s => %s' % (k, v) for k, v in kw)
        if form == 'call':
            return 'call(%s, [%s], %s)' % (qname, ', '.join(pos), kwd)
        if not pos or _is_rule(pos[0]):
            return None
        return 'call(%s, [%s], %s, %s)' % (qname, ', '.join(pos[1:]), kwd, pos[0])
    if form != 'op':
        raise ValueError(form)
    s = rec.syntax
    if s != 'list' and s != 'map' and any(_is_rule(t) for t in pos[:1]):
        return None
    if s == 'binary':
        if len(pos) != 2 or kw or '' in pos:
            return None
        op = {'*equal': '=', '*not_equal': '!='}.get(name) or name[len('#operator_'):]
        right = pos[1] if op in ('.', '?.') else _operand(pos[1])
        if op in ('.', '?.'):
            return '%s%s%s' % (_operand(pos[0]), op, right)
        return '%s %s %s' % (_operand(pos[0]), op, right)
    if s == 'unary':
        if len(pos) != 1 or kw or '' in pos:
            return None
        return '%s %s' % (name[len('#unary_operator_'):], _operand(pos[0]))
    if s == 'property':
        if len(pos) != 1 or kw or '' in pos:
            return None
        return '%s.%s' % (_operand(pos[0]), name[len('#property#'):])
    if s == 'indexer':
        if not pos or pos[0] == '':
            return None
        return '%s[%s]' % (_operand(pos[0]), _join(pos[1:], kw))
    if s == 'list':
        return '[%s]' % _join(pos, kw)
    if s == 'map':
        return '{%s}' % _join(pos, kw)
    if s == 'delegate':
        if not pos or pos[0] == '':
            return None
        return '%s(%s)' % (_operand(pos[0]), _join(pos[1:], kw))
    return None


# ---------------------------------------------------------------------------
# payload taps
# ---------------------------------------------------------------------------
def install_taps(records=None):
    """Wrap the payload of every definition once per process; returns the list of run counters."""
    records = records if records is not None else definitions()
    if _taps:
        return _taps
    _taps.extend([0] * len(records))
    for rec in records:
        rec.fd.payload = _tap(rec.fd.payload, rec.index)
    return _taps


_taps = []
TAP_OBSERVER = [None]


def _tap(payload, index):
    @functools.wraps(payload)
    def tapped(*args, **kwargs):
        _taps[index] += 1
        if TAP_OBSERVER[0] is not None:
            TAP_OBSERVER[0](index, args, kwargs)
        return payload(*args, **kwargs)
    return tapped
