"""Reference model of yaql's regex functions (property C19).

Written from the docstrings of yaql/standard_library/regex.py.  The meaning of
a pattern is Python's `re` (the documented regex dialect); the model takes from
`re` only the sequence of leftmost non-overlapping matches (finditer) and
derives everything else - search, searchAll, split, replace, replaceBy and the
records published to selector lambdas - from those spans itself, so that the
implementation's calls of Pattern.search/split/sub and its _publish_match are
checked against an independent construction.

Imports nothing from yaql.  A result is ('v', value) or None (= outside the
documented domain: enumerated, counted, never judged).
"""
import re


def V(x):
    return ('v', x)


def compile_(pattern, ignore_case=False, multi_line=False, dot_all=False):
    """regex(pattern, ignoreCase, multiLine, dotAll): 'true makes performing
    case-insensitive matching' / '^ ... and at the beginning of each line, $
    ... at the end of each line' / '. to match any character (including a
    newline)'.  Spelled as inline flags.  A pattern `re` rejects has no
    documented meaning -> None."""
    inline = ''.join(f for f, on in (('i', ignore_case), ('m', multi_line), ('s', dot_all)) if on)
    try:
        return re.compile(('(?%s)' % inline if inline else '') + pattern)
    except re.error:
        return None


def _rec(m, g):
    """The record published for a group: {"start" => ..., "end" => ...,
    "value" => ...} (docstring of search).  A group that took no part in the
    match has no substring: value null, positions -1 (`re` convention)."""
    return {'value': m.group(g), 'start': m.start(g), 'end': m.end(g)}


def found(rx, s):
    """All matches, left to right: list of (start, end, env) where env maps
    the selector variable names to records: '1' whole match, '2'.. numbered
    groups, and every group name."""
    out = []
    for m in rx.finditer(s):
        env = {'1': _rec(m, 0)}
        for i in range(1, rx.groups + 1):
            env[str(i + 1)] = _rec(m, i)
        for name in rx.groupindex:
            env[name] = _rec(m, name)
        out.append((m.start(), m.end(), env))
    return out


def var(env, name):
    """A selector reads $1, $2.., $name; a variable nothing published is null."""
    return env.get(name)


def matches(rx, s):
    """'Returns true if string matches regexp' - as for =~ and search: some
    substring matches (regex("a.c").search("cabc") finds one)."""
    return V(len(found(rx, s)) > 0)


def search(rx, s, selector=None):
    """'Search substring which matches regexp.  Returns selector applied to
    dictionary {start, end, value} ...  By default ... returns only substring.
    null is a return value if there is no substring which matches regexp.'"""
    ms = found(rx, s)
    if not ms:
        return V(None)
    env = ms[0][2]
    return V(env['1']['value'] if selector is None else selector(env))


def search_all(rx, s, selector=None):
    """'Search all substrings which matches regexp.  Returns list of applied
    ... selector'; by default the list of substrings."""
    return V([env['1']['value'] if selector is None else selector(env)
              for _, _, env in found(rx, s)])


def _limited(ms, limit):
    if limit < 0:
        return None       # only 0 (= all) and positive limits are documented
    return ms if limit == 0 else ms[:limit]


def split(rx, s, max_split=0):
    """'Splits string by regexp matches and returns list of strings.
    maxSplit: how many first splits to do.  0 by default, which means to split
    by all matches.'  As in `re`, the text of the pattern's capture groups is
    returned between the pieces."""
    ms = _limited(found(rx, s), max_split)
    if ms is None:
        return None
    out = []
    cur = 0
    for start, end, env in ms:
        out.append(s[cur:start])
        for i in range(1, rx.groups + 1):
            out.append(env[str(i + 1)]['value'])
        cur = end
    out.append(s[cur:])
    return V(out)


def replace_by(rx, s, fn, count=0):
    """'Returns the string obtained by replacing the leftmost non-overlapping
    matches of regexp in string by repl ... count: how many first replaces to
    do.  0 by default, which means to do all replacements.'  fn maps the
    published records to the replacement string."""
    ms = _limited(found(rx, s), count)
    if ms is None:
        return None
    out = ''
    cur = 0
    for start, end, env in ms:
        out += s[cur:start] + fn(env)
        cur = end
    return V(out + s[cur:])


def replace(rx, s, repl, count=0):
    """Same with a constant replacement 'where the latter is only
    string-type'; backslash templates are not documented."""
    if '\\' in repl:
        return None
    return replace_by(rx, s, lambda env: repl, count)
