"""C11 - arguments are evaluated once, in order; lazy ones only on demand.

Probe: the registered function tick(id, value) appends id to a log after its
own arguments were evaluated and returns value.  Every operand position of the
construct under test holds a tick; the observed log is compared with the
pattern of admissible traces given by models/evalorder.py.

 defs       every registered definition (operators, indexer, list/map
            constructors, library functions and methods, in every call form it
            allows): one probe typed from the parameter declarations, one with
            keyword arguments written in reverse order, and all combinations of
            a kind corpus in the eager positions (multi-overload names are
            thereby resolved against many candidate sets).  Oracle: eager
            operands once each, in written order, before anything lazy; a
            failed call all or nothing.
 lazy       and / or / not / ?. / switch / selectCase / switchCase / coalesce /
            selectAllCases / examine over the truth alphabet {true, false,
            null, 0} per operand plus operands that log their tick and then
            FAIL (one per class of error the library itself catches somewhere
            or data access raises: IndexError, KeyError, StopIteration,
            ValueError, TypeError, unknown function, no matching function /
            method), and each construct nested in every operand position of
            each other (depth 2).  Oracle: exactly the selected operands; the
            error of an evaluated operand leaves the construct - nothing after
            it is evaluated, nothing twice, the error is the one observed.  A
            failing case is reduced to the innermost construct that fails on
            its own, which names the finding.
 stream     per-element lambdas of the streaming functions over all lists
            <= 3 over {1, 2, 3}, two operators chained, under consumers that
            stop early (take, first; takeWhile / any / all / indexWhere as
            stages).  The same, and also under a zip partner that ends first
            and a membership test, over sources that compute their elements
            on demand and whose own lambdas are probes: generate (predicate, producer,
            selector, eager initial value; the predicate admitting 0..4
            elements; decycle over a cycle), generateMany (chain and tree,
            breadth / depth first, selector), range, and the endless
            sequence() wherever the consumer stops within the model's horizon.
            Oracle: once per element consumed, in element order, interleaved
            on demand; for a generated source exactly the applications the
            consumed elements need (n elements of generate: predicate and
            selector n times, producer n - 1 times).
 binders    literals, mapping rules, index, let / with / unpack / def /
            lambda / -> : arguments before bodies.
"""
import itertools

import vf.loader  # noqa: F401
from vf import yq
from vf import core
from vf.core import Result, chunks
from models import evalorder as M
from models import interp as I

from yaql.language import specs as yspecs
from yaql.language import utils as yutils
from yaql.language import yaqltypes as yt

ID = 'C11'
TITLE = 'evaluation order and laziness'
RULE = ('defs: every definition x call form x (typed probe, reversed keywords, kind corpus ^ eager positions); '
        'lazy: every construct x (truth alphabet + failing operands) ^ operands, and every construct in every operand position of every '
        'construct; stream: (list | lazily generated source with probe lambdas) x [operator(lambda)] x [operator(lambda)] x consumer; a case is distinct by its text '
        'and non-trivial when at least one tick is expected and (defs) the call returned a value')
ASSUMPTIONS = [
    'which parameters are lazy is read from the declarations (LazyParameterType), as the language reference says a function "may declare a lazy argument"',
    'the engine limits iterators to 500 elements and memory to 5 MB so that endless library generators end in an error instead of a hang; limits do not change traces',
    'a failed call may have evaluated none of its arguments (unknown function, arity, constant type) or all eager ones (types checked after evaluation); a method receiver is evaluated by `.` first',
    'the number of key evaluations of orderBy and the relative order of different lambdas applied to one element (toDict, groupBy) are unspecified',
    'helper method then(x) (returns x) is registered next to tick to give `?.` a method that accepts every receiver',
    'nothing in the language catches an error: the error raised while an operand is evaluated ends the evaluation of every construct around it (the class of the observed error is compared in the lazy part)',
    'generate(initial, predicate, producer, selector) "produces initial, producer(initial), ... while predicate holds": element n needs predicate and selector on itself and the producer on its n - 1 predecessors only; '
    'whether generate asks the predicate about a value that decycle rejects, and when generateMany breadth first over a branching tree asks for the children of a node whose successor is already queued, is unspecified (not enumerated)',
    'zip asks its collections in the order written and stops at the first that is exhausted; the early-ending partner is written first so that the stream is asked for exactly one element',
    'sequence() is endless: the model follows it for 9 elements; a case whose consumer needs more is counted out of domain and not executed (without an iterator limit it would not end)',
]
BOUNDS = {
    'quick': 'defs: kind corpus {1, abc, [1,2,3], null, {a=>1}, true} (<= 2 eager positions, else 2 kinds); lazy: depth 1 alphabet {true, false, null, 0} + 8 failing operands '
             '(one per error class) in every operand position (full product), depth 2 one nested construct with alphabet {true, null, 0} and again with {true, null, operand failing with IndexError} '
             'with exactly one failing operand in every position; stream: lists <= 2 over {1,2}, 2 chained operators (second stage also memorize / defaultIfEmpty), consumers {all, take 1, take 2, first, count}; '
             'generated sources (generate with predicate admitting 0..3 elements x selector or none, decycle over a 2-cycle, generateMany chain breadth/depth first and tree depth first x selector or none, '
             'range of 0..3 elements, sequence) x (no stage | 1 operator incl. memorize / defaultIfEmpty) x consumers {all, take 1, take 2, first, count, zip with a 1-element partner, in}; '
             'on 2 engine profiles {limits+quota, no options}; binders: fixed list',
    'thorough': 'defs: kind corpus of 8 kinds (<= 2 eager positions, 6 kinds for 3, 4 for 4, 2 beyond); lazy: depth 1 as quick, depth 2 with the full truth alphabet and, for each of the 8 error classes, '
                'with {true, null, failing operand} with exactly one failing operand in every position, and both slots of the two-slot constructs nested with alphabet {true, null, 0}; '
                'stream: lists <= 3 over {1,2,3} and generated sources (generate admitting 0..4 elements, the others as quick), up to 2 chained operators (also memorize / defaultIfEmpty), consumers as quick, '
                'on 4 engine profiles {limits+quota, no options, quota only, limit only} (generated sources: the first 2); binders: fixed list',
}

OPTIONS = {'yaql.limitIterators': 500, 'yaql.memoryQuota': 5000000}
# engine profiles the streaming part is repeated under: the limits change how iterators are wrapped
# (limit_iterable, limit_memory_usage, memorize), never which elements are computed
PROFILES = {'limits': OPTIONS, 'no-options': {}, 'quota-only': {'yaql.memoryQuota': 5000000},
            'limit-only': {'yaql.limitIterators': 500}}

# ---------------------------------------------------------------------------------
# running a probe
# ---------------------------------------------------------------------------------
_state = {}


def setup():
    if not _state:
        ctx, log = yq.tick_context(delegates=True)

        @yspecs.method
        @yspecs.name('then')
        def then(receiver, x):
            return x
        ctx.register_function(then)
        _state['ctx'], _state['log'] = ctx, log
        _state['eng'] = yq.engine(OPTIONS, allow_delegates=True)
        _state['engines'] = {'limits': _state['eng']}
    return _state


def observe(text, profile='limits'):
    s = setup()
    del s['log'][:]
    eng = s['engines'].get(profile)
    if eng is None:
        eng = s['engines'][profile] = yq.fresh_engine(PROFILES[profile], allow_delegates=True)
    try:
        st = eng(text)
    except Exception as e:
        return None, ('parse', type(e).__name__, str(e)[:100])
    try:
        out = ('v', st.evaluate(context=s['ctx'].create_child_context()))
    except RecursionError:
        raise
    except MemoryError:
        # the worker's memory cap was reached: the evaluation materialised something without bound (an observation)
        import gc
        gc.collect()
        out = ('e', 'MemoryError', 'evaluation ran out of the memory allowed to a worker')
    except Exception as e:
        out = ('e', type(e).__name__, str(e)[:100])
    return list(s['log']), out


# ---------------------------------------------------------------------------------
# defs: probes for every registered definition
# ---------------------------------------------------------------------------------
KINDS_T = ['1', "'abc'", '[1, 2, 3]', 'null', '{a => 1}', 'true', '0', '[]']
KINDS_Q = KINDS_T[:6]
SKIP_NAMES = {
    '#finalize', '#iter', '#get_context_data',   # not spellable with operands / constant operand only
    '#operator_.', '#operator_?.',               # right operand is syntax (keyword / method call): part "lazy" and "binders"
    'tick', 'then',
}


def sample(vt):
    """(role, yaql text of a value the parameter type accepts, lazy?)  role: value | rule | const"""
    lazy = isinstance(vt, yt.LazyParameterType)
    if isinstance(vt, yt.MappingRule):
        return 'rule', ('abc', '1'), True
    if isinstance(vt, yt.Keyword):
        return 'const', 'abc', False
    if isinstance(vt, yt.StringConstant):
        return 'const', "'abc'", False
    if isinstance(vt, yt.NumericConstant):
        return 'const', '1', False
    if isinstance(vt, yt.BooleanConstant):
        return 'const', 'true', False
    if isinstance(vt, yt.Constant):
        return 'const', '1', False
    if isinstance(vt, (yt.Lambda, yt.YaqlExpression)):
        return 'value', '$', True
    if isinstance(vt, yt.String):
        return 'value', "'abc'", lazy
    if isinstance(vt, (yt.Integer, yt.Number)):
        return 'value', '1', lazy
    if isinstance(vt, yt.Iterator):
        return 'value', '[1, 2, 3].select($)', lazy
    if isinstance(vt, (yt.Iterable, yt.Sequence)):
        return 'value', '[1, 2, 3]', lazy
    if isinstance(vt, yt.DateTime):
        return 'value', 'datetime(2020, 1, 2)', lazy
    if isinstance(vt, yt.PythonType):
        pt = vt.python_type
        name = getattr(pt, '__name__', '')
        if pt is yutils.MappingRule:
            return 'rule', ('abc', '1'), False
        if name == 'OrderingIterable':
            return 'value', '[1, 2, 3].orderBy($)', lazy
        if name == 'Iterator':
            return 'value', '[1, 2, 3].select($)', lazy
        if name == 'ContextBase':
            return 'value', 'let(x => 1)', lazy
        table = {'int': '1', 'bool': 'true', 'NoneType': 'null', 'timedelta': 'timespan(days => 1)',
                 'datetime': 'datetime(2020, 1, 2)', 'Mapping': '{a => 1}', 'Set': 'set(1, 2)', 'Pattern': "regex('a')",
                 'str': "'abc'", 'float': '1.5'}
        if name in table:
            return 'value', table[name], lazy
    return 'value', '1', lazy


def visible_parameters(fd):
    """([positional ParameterDefinition in call order], [keyword-only], has *args, has **kwargs)"""
    pos, kwonly = [], []
    for key, p in fd.parameters.items():
        if key in ('*', '**') or isinstance(p.value_type, yt.HiddenParameterType):
            continue
        (pos if p.position is not None else kwonly).append(p)
    pos.sort(key=lambda p: p.position)
    return pos, kwonly, '*' in fd.parameters, '**' in fd.parameters


def spelling(name):
    """how a definition name is written: (syntax kind, symbol)"""
    if name.startswith('#operator_'):
        return 'binary', name[len('#operator_'):]
    if name.startswith('#unary_operator_'):
        return 'unary', name[len('#unary_operator_'):]
    if name == '*equal':
        return 'binary', '='
    if name == '*not_equal':
        return 'binary', '!='
    if name == '#indexer':
        return 'index', None
    if name == '#list':
        return 'list', None
    if name == '#map':
        return 'map', None
    if name == '#call':
        return 'dcall', None
    if name.startswith('#property#'):
        return 'property', name[len('#property#'):]
    if name.startswith('#') or name.startswith('*'):
        return None, None
    return 'named', name


class Probe(object):
    """One call text with numbered ticks; operands = [(id, lazy)] in written order."""

    def __init__(self):
        self.n = 0
        self.operands = []

    def tick(self, value, lazy):
        self.n += 1
        self.operands.append((self.n, lazy))
        return 'tick(%d, %s)' % (self.n, value)

    def operand(self, role, value, lazy):
        if role == 'const':
            return value
        if role == 'rule':
            return '%s => %s' % (self.tick(value[0], lazy), self.tick(value[1], lazy))
        return self.tick(value, lazy)


def render(syntax, symbol, form, items):
    """items: [(keyword name or None, role, value, lazy)] -> (text, operands) or None if not spellable"""
    pr = Probe()
    parts = []
    for kw, role, value, lazy in items:
        t = pr.operand(role, value, lazy)
        parts.append(t if kw is None else '%s => %s' % (kw, t))
    if syntax == 'binary':
        if len(parts) != 2:
            return None
        text = '(%s %s %s)' % (parts[0], symbol, parts[1])
    elif syntax == 'unary':
        if len(parts) != 1:
            return None
        text = '(%s %s)' % (symbol, parts[0])
    elif syntax == 'index':
        if not parts:
            return None
        text = '%s[%s]' % (parts[0], ', '.join(parts[1:]))
    elif syntax == 'property':
        if len(parts) != 1:
            return None
        text = '%s.%s' % (parts[0], symbol)
    elif syntax == 'list':
        text = '[%s]' % ', '.join(parts)
    elif syntax == 'map':
        text = '{%s}' % ', '.join(parts)
    elif syntax == 'dcall':
        if not parts:
            return None
        text = '((%s)(%s))' % (parts[0], ', '.join(parts[1:]))
    elif form == 'm':
        if not parts or items[0][0] is not None:
            return None
        text = '%s.%s(%s)' % (parts[0], symbol, ', '.join(parts[1:]))
    else:
        text = '%s(%s)' % (symbol, ', '.join(parts))
    return text, pr.operands


def definition_probes(tier):
    """[(site, form, text, operands)] for every definition; deterministic order."""
    kinds = KINDS_Q if tier == 'quick' else KINDS_T
    out = []
    seen = set()
    untyped = []
    for layer, name, fd in yq.all_definitions(setup()['ctx']):
        syntax, symbol = spelling(name)
        if name in SKIP_NAMES or syntax is None:
            untyped.append(name)
            continue
        pos, kwonly, star, starstar = visible_parameters(fd)
        forms = []
        if syntax == 'named':
            if fd.is_function:
                forms.append('f')
            if fd.is_method and pos:
                forms.append('m')
        else:
            forms.append('f')
        site = '%s payload=%s.%s' % (name, fd.payload.__module__, getattr(fd.payload, '__qualname__', '?'))
        base = [(None,) + sample(p.value_type) for p in pos]
        extra = [(None,) + sample(fd.parameters['*'].value_type)] * 2 if star else []
        required = [(None,) + sample(p.value_type) for p in pos if p.default is yspecs.NO_DEFAULT]
        kw_items = [((p.alias or p.name),) + sample(p.value_type) for p in kwonly]
        if starstar and not fd.no_kwargs:
            kw_items.append(('zz',) + sample(fd.parameters['**'].value_type))
        for form in forms:
            variants = [base + extra + kw_items, required + kw_items]
            if not fd.no_kwargs and syntax == 'named':
                # positional parameters passed by keyword, written in reverse order of declaration
                first = 1 if form == 'm' else 0
                named = [((p.alias or p.name),) + sample(p.value_type) for p in pos[first:]]
                if named:
                    variants.append(base[:first] + list(reversed(named)) + kw_items)
                    variants.append(base[:first + 1] + list(reversed(named[1:])) + kw_items)
            for items in variants:
                # the kind corpus in every eager value position
                eager = [i for i, it in enumerate(items) if it[1] == 'value' and not it[3]]
                if len(eager) <= 2:
                    corpus = kinds
                elif len(eager) == 3:
                    corpus = kinds[:6] if tier != 'quick' else kinds[:2]
                elif len(eager) == 4:
                    corpus = kinds[:4] if tier != 'quick' else kinds[:2]
                else:
                    corpus = kinds[:2]
                combos = [None] + list(itertools.product(corpus, repeat=len(eager))) if len(eager) <= 6 else [None]
                for combo in combos:
                    its = list(items)
                    if combo is not None:
                        for i, v in zip(eager, combo):
                            its[i] = (its[i][0], 'value', v, False)
                    r = render(syntax, symbol, form, its)
                    if r is None or r[0] in seen:
                        continue
                    seen.add(r[0])
                    out.append((site, 'm' if (form == 'm' and syntax == 'named') else 'f', r[0], r[1]))
    return out, sorted(set(untyped))


def judge_generic(res, site, form, text, operands):
    res.case(('defs', text))
    log, out = observe(text)
    res.evaluations += 1
    if log is None:
        # the probe is not a well-formed expression (e.g. a keyword that is an operator name): nothing to judge
        res.out_of_domain += 1
        res.outcomes['defs unparsable'] += 1
        return
    res.transitions += 1
    failed = out[0] == 'e'
    patterns = M.generic(form, operands, failed)
    ok = any(M.admits(p, log) for p in patterns)
    if not failed and operands:
        res.nontrivial += 1
        res.extra.setdefault('sites_with_a_successful_probe', {})[site] = 1
    res.outcomes['defs %s %s' % ('value' if not failed else 'error ' + out[1],
                                 'evaluated' if log else 'nothing evaluated')] += 1
    if not ok:
        res.fail('order fn=' + site, {'kind': 'generic', 'site': site, 'form': form, 'text': text, 'operands': operands,
                                      'symptom': symptom(operands, log)},
                 'text %s: observed ticks %r, outcome %r; admissible %r' % (text, log, out[:2], patterns))


def symptom(operands, log):
    eager = [i for i, lazy in operands if not lazy]
    seen = [i for i in log if i in eager]
    if len(set(seen)) < len(seen):
        return 'eager-operand-evaluated-more-than-once'
    if seen != sorted(seen):
        return 'eager-operands-out-of-order'
    if seen == eager and log[:len(eager)] != eager:
        return 'lazy-operand-before-eager'
    return 'eager-operand-not-evaluated'


def job_defs(tier, k, K):
    res = Result()
    probes, untyped = definition_probes(tier)
    for site, form, text, operands in chunks(probes, K)[k]:
        judge_generic(res, site, form, text, operands)
        if res.states % 400 == 1:
            res.sample({'text': text, 'operands(id,lazy)': operands}, limit=2)
    if k == 0:
        names = [spelling(name) for _, name, _ in yq.all_definitions(setup()['ctx']) if spelling(name)[0]]
        res.extra['probed_names_with_several_overloads'] = len(set(n for n in names if names.count(n) > 1))
        res.extra['definitions_walked'] = len(yq.all_definitions(setup()['ctx']))
        res.extra['definition_sites_probed'] = len(set(p[0] for p in probes))
        res.extra['definition_names_not_probed_generically'] = untyped
    return res


# ---------------------------------------------------------------------------------
# lazy constructs
# ---------------------------------------------------------------------------------
TRUTH = [True, False, None, 0]


class Raises(object):
    """an operand that logs its tick and then fails with an error of the named class"""

    def __init__(self, cls):
        self.cls = cls


# one operand per class of error the library itself catches somewhere (StopIteration: first / single / runner;
# IndexError, NoMatching*: the groupBy aggregator; ValueError: the lexer; the resolution errors: choose_overload)
# or that ordinary data access raises (KeyError, TypeError)
RAISERS = [Raises(c) for c in ('IndexError', 'KeyError', 'StopIteration', 'ValueError', 'TypeError',
                               'NoFunctionRegisteredException', 'NoMatchingFunctionException', 'NoMatchingMethodException')]


class Ids(object):
    def __init__(self):
        self.n = 0

    def tick(self, value_ast):
        self.n += 1
        return ('call', 'tick', [('lit', self.n), value_ast], [])

    def leaf(self, v):
        if isinstance(v, Raises):
            return ('raise', v.cls, self.tick(('lit', 1)))
        if isinstance(v, int) and not isinstance(v, bool) and v < 0:
            return self.tick(('neg', ('lit', -v)))
        return self.tick(('lit', v))


# construct name -> (number of operand slots, builder(slots) -> ast).  A slot is an ast.
CONSTRUCTS = [
    ('and', 2, lambda s: ('and', s[0], s[1])),
    ('or', 2, lambda s: ('or', s[0], s[1])),
    ('not', 1, lambda s: ('not', s[0])),
    ('elvis', 2, lambda s: ('elvis', s[0], 'then', [s[1]])),
    ('switch', 4, lambda s: ('switch', [[s[0], s[1]], [s[2], s[3]]])),
    ('selectCase', 3, lambda s: ('selectCase', [s[0], s[1], s[2]])),
    ('switchCase', 3, lambda s: ('switchCase', s[0], [s[1], s[2]])),
    ('coalesce', 3, lambda s: ('coalesce', [s[0], s[1], s[2]])),
    ('selectAllCases', 2, lambda s: ('selectAllCases', [s[0], s[1]])),
    ('examine', 2, lambda s: ('examine', [s[0], s[1]])),
]
CASE_VALUES = [0, 1, 2, 3, -1, -2, -3]     # the receiver of switchCase is an integer


def leaf_values(cname, slot, alphabet):
    if cname == 'switchCase' and slot == 0:
        return CASE_VALUES + [v for v in alphabet if isinstance(v, Raises)]
    return alphabet


def nested(cname, k, build, hole, iname, ik, ibuild, outer_alpha, inner_alpha, one_raises=False):
    """the construct iname in operand position hole of the construct cname, leaves over the alphabets
    (one_raises: only the combinations with exactly one failing operand)"""
    outer = [leaf_values(cname, i, outer_alpha) for i in range(k) if i != hole]
    inner = [leaf_values(iname, i, inner_alpha) for i in range(ik)]
    for ov in itertools.product(*outer):
        for iv in itertools.product(*inner):
            if one_raises and sum(isinstance(v, Raises) for v in ov + iv) != 1:
                continue
            ids = Ids()
            slots = []
            ovs = list(ov)
            for i in range(k):
                if i == hole:
                    slots.append(ibuild([ids.leaf(v) for v in iv]))
                else:
                    slots.append(ids.leaf(ovs.pop(0)))
            yield '%s/%s@%d' % (cname, iname, hole), build(slots)


def lazy_cases(tier):
    """(label, ast) - depth 1: every construct x (truth alphabet + raising operands) ^ slots; depth 2: one slot
    holds another construct, leaves over the truth alphabet, and again over {true, null, raising operand} with
    exactly one leaf that raises, in every position (quick: IndexError; thorough: every class)."""
    inner_alpha = [True, None, 0] if tier == 'quick' else TRUTH
    for cname, k, build in CONSTRUCTS:
        for values in itertools.product(*[leaf_values(cname, i, TRUTH + RAISERS) for i in range(k)]):
            ids = Ids()
            yield cname, build([ids.leaf(v) for v in values])
    for cname, k, build in CONSTRUCTS:
        for hole in range(k):
            if cname == 'switchCase' and hole == 0:
                continue            # its receiver must be an integer; no construct of the alphabet yields one
            for iname, ik, ibuild in CONSTRUCTS:
                for case in nested(cname, k, build, hole, iname, ik, ibuild, inner_alpha, inner_alpha):
                    yield case
                for r in (RAISERS[:1] if tier == 'quick' else RAISERS):
                    for case in nested(cname, k, build, hole, iname, ik, ibuild, [True, None, r], [True, None, r], True):
                        yield case

    if tier == 'thorough':
        # both slots of the two-slot constructs hold a construct
        small = [True, None, 0]
        for cname, k, build in CONSTRUCTS:
            if k != 2:
                continue
            for (n1, k1, b1), (n2, k2, b2) in itertools.product(CONSTRUCTS, repeat=2):
                a1 = [leaf_values(n1, i, small) for i in range(k1)]
                a2 = [leaf_values(n2, i, small) for i in range(k2)]
                for v1 in itertools.product(*a1):
                    for v2 in itertools.product(*a2):
                        ids = Ids()
                        yield '%s/%s+%s' % (cname, n1, n2), build([b1([ids.leaf(v) for v in v1]), b2([ids.leaf(v) for v in v2])])


# ---------------------------------------------------------------------------------
# streaming functions
# ---------------------------------------------------------------------------------
def lam(base, value_ast):
    """a per-element lambda tick(base + $, value): the logged id names the lambda and the element"""
    return ('call', 'tick', [('bin', '+', ('lit', base), ('var', '')), value_ast], [])


def lam2(base, value_ast):
    """a two-argument lambda (accumulator $1, element $2): the id names the element"""
    return ('call', 'tick', [('bin', '+', ('lit', base), ('var', '2')), value_ast], [])


D = ('var', '')
GT1 = ('bin', '>', D, ('lit', 1))
LT2 = ('bin', '<', D, ('lit', 2))
EQ2 = ('bin', '=', D, ('lit', 2))
PREDICATES = [GT1, LT2, EQ2, ('lit', True), ('lit', None)]
SUM12 = ('bin', '+', ('var', '1'), ('var', '2'))


def stream_ops(base, buffering):
    """(name, builder(source ast) -> ast) with lambdas whose tick ids start at base; buffering: also the
    stages without a lambda of their own that buffer a lazily computed source"""
    out = []
    for p in PREDICATES:
        for name in ('where', 'takeWhile', 'skipWhile', 'any', 'all', 'indexWhere'):
            out.append((name, lambda src, name=name, p=p: ('meth', src, name, [lam(base, p)])))
    for body in (D, ('bin', '*', D, ('lit', 2))):
        out.append(('select', lambda src, body=body: ('meth', src, 'select', [lam(base, body)])))
    # lazy constructs inside a per-element lambda
    out.append(('where-and', lambda src: ('meth', src, 'where', [('and', lam(base, GT1), lam(base + 50, LT2))])))
    out.append(('select-coalesce', lambda src: ('meth', src, 'select', [
        ('coalesce', [lam(base, ('lit', None)), lam(base + 50, D), lam(base + 70, D)])])))
    out.append(('selectMany', lambda src: ('meth', src, 'selectMany', [lam(base, ('list', [D, D]))])))
    out.append(('distinct', lambda src: ('meth', src, 'distinct', [lam(base, D)])))
    out.append(('distinct', lambda src: ('meth', src, 'distinct', [lam(base, GT1)])))
    out.append(('orderBy', lambda src: ('meth', src, 'orderBy', [lam(base, D)])))
    out.append(('toDict', lambda src: ('meth', src, 'toDict', [lam(base, D), lam(base + 50, D)])))
    out.append(('groupBy', lambda src: ('meth', src, 'groupBy', [lam(base, GT1), lam(base + 50, D)])))
    out.append(('aggregate', lambda src: ('meth', src, 'aggregate', [lam2(base, SUM12), ('lit', 0)])))
    out.append(('aggregate', lambda src: ('meth', src, 'aggregate', [lam2(base, SUM12)])))
    out.append(('accumulate', lambda src: ('meth', src, 'accumulate', [lam2(base, SUM12), ('lit', 0)])))
    if buffering:
        out.append(('memorize', lambda src: ('meth', src, 'memorize', [])))
        out.append(('defaultIfEmpty', lambda src: ('meth', src, 'defaultIfEmpty', [('list', [('lit', 7)])])))
    return out


SCALAR_RESULT = ('any', 'all', 'indexWhere', 'toDict', 'aggregate')
CONSUMERS = [
    ('all', lambda src: src),
    ('take1', lambda src: ('meth', src, 'take', [('lit', 1)])),
    ('take2', lambda src: ('meth', src, 'take', [('lit', 2)])),
    ('first', lambda src: ('meth', src, 'first', [])),
    ('count', lambda src: ('meth', src, 'count', [])),
    # a zip partner that is exhausted first (written first: zip asks it for its second element before it asks
    # the stream), a membership test that ends at the first hit
    ('zip-shorter', lambda src: ('meth', ('list', [('lit', 7)]), 'zip', [src])),
    ('in', lambda src: ('bin', 'in', ('lit', 2), src)),
]
LIST_CONSUMERS = 5      # streams over list literals are consumed by the first five only
GENERATED = ('generate', 'generateMany', 'range', 'sequence')


def generated_sources(tier):
    """(name, ast) of sources that compute their elements on demand.  The lambdas of generate / generateMany log
    200 + element (predicate), 300 + element (producer), 400 + element (selector); the eager initial value logs 1.
    Elements are 1, 2, 3, ... so that every logged id names lambda and element."""
    one = ('lit', 1)
    init = ('call', 'tick', [one, one], [])
    succ = ('bin', '+', D, one)
    sizes = range(4) if tier == 'quick' else range(5)

    def table(rows):
        # [rows][$]: a function of the element given by a list literal
        return ('index', ('list', [('list', [('lit', x) for x in r]) if isinstance(r, list) else ('lit', r) for r in rows]), D)
    for n in sizes:
        # the predicate admits the elements 1 .. n
        pred = lam(200, ('bin', '<', D, ('lit', n + 1)))
        yield 'generate', ('call', 'generate', [init, pred, lam(300, succ)], [])
        yield 'generate', ('call', 'generate', [init, pred, lam(300, succ), lam(400, D)], [])
    # decycle: the producer runs in the cycle 1 -> 2 -> 1 and the repetition ends the sequence (a predicate
    # without tick: whether it is asked about the repeated value is not specified)
    cycle = lam(300, table([0, 2, 1]))
    yield 'generate', ('call', 'generate', [init, ('lit', True), cycle], [['decycle', ('lit', True)]])
    yield 'generate', ('call', 'generate', [init, ('lit', True), cycle, lam(400, D)], [['decycle', ('lit', True)]])
    # generateMany over the chain 1 -> 2 -> 3 in both traversal orders and depth first over the tree 1 -> (2 -> 3, 3)
    # (breadth first over a branching tree the next node is known without the children of the current one:
    # when its producer has to run is not determined by the documented meaning)
    chain, tree = table([[], [2], [3], []]), table([[], [2, 3], [3], []])
    for children, depth_first in ((chain, False), (chain, True), (tree, True)):
        kw = [['depthFirst', ('lit', True)]] if depth_first else []
        yield 'generateMany', ('call', 'generateMany', [init, lam(300, children)], kw)
        yield 'generateMany', ('call', 'generateMany', [init, lam(300, children), lam(400, D)], kw)
    # sources without lambdas of their own: the stages behind them must not ask for more than is consumed
    for n in sizes:
        yield 'range', ('call', 'range', [one, ('lit', n + 1)], [])
    # endless: only cases whose consumer stops within the model's horizon are executed (see judge_model)
    yield 'sequence', ('call', 'sequence', [one], [])


def stages(first, n1, seconds, consumers):
    if n1 in SCALAR_RESULT or n1 == 'groupBy':
        seconds = seconds[:1]
    for n2, b2 in seconds:
        second = b2(first)
        last = n2 or n1
        for cn, cb in (consumers if last not in SCALAR_RESULT else consumers[:1]):
            yield '%s%s|%s' % (n1, '.' + n2 if n2 else '', cn), cb(second)


def stream_cases(tier):
    if tier == 'quick':
        lists = [list(t) for n in range(3) for t in itertools.product((1, 2), repeat=n)]
    else:
        lists = [list(t) for n in range(4) for t in itertools.product((1, 2, 3), repeat=n)]
    identity = ('', lambda s: s)
    for lst in lists:
        src = ('list', [('lit', x) for x in lst])
        for n1, b1 in stream_ops(10, False):
            for case in stages(b1(src), n1, [identity] + stream_ops(100, True),
                               CONSUMERS[:LIST_CONSUMERS]):
                yield case
    # generated sources: directly under every consumer and behind every stage (thorough: two stages)
    for sname, src in generated_sources(tier):
        for n1, b1 in [identity] + stream_ops(10, True):
            for label, ast in stages(b1(src), n1 or sname, [identity] + (stream_ops(100, True) if tier != 'quick' else []), CONSUMERS):
                yield sname + '.' + label, ast


# ---------------------------------------------------------------------------------
# binders, literals, mapping rules: arguments before bodies
# ---------------------------------------------------------------------------------
def binder_cases():
    def t(i, v):
        return ('call', 'tick', [('lit', i), v], [])
    one, two, x = ('lit', 1), ('lit', 2), ('var', 'x')
    a, b = ('lit', 'a'), ('lit', 'b')
    lst = ('list', [one, two])
    yield 'list', ('list', [t(1, one), t(2, two), t(3, one)])
    yield 'list-nested', ('list', [t(1, one), ('list', [t(2, two), t(3, one)]), t(4, one)])
    yield 'map', ('map', [[t(1, a), t(2, one)], [t(3, b), t(4, two)]])
    yield 'map-same-key', ('map', [[t(1, a), t(2, one)], [t(3, a), t(4, two)]])
    yield 'dict()', ('dict', [('rule', t(1, a), t(2, one)), ('rule', t(3, b), t(4, two))])
    yield 'dict.set', ('dictset', t(1, ('map', [[a, one]])), [('rule', t(2, b), t(3, two)), ('rule', t(4, a), t(5, two))])
    yield 'index', ('index', t(1, lst), t(2, one))
    yield 'index-dict', ('index', t(1, ('map', [[a, one]])), t(2, a))
    yield 'attr', ('attr', ('map', [[t(1, a), t(2, one)]]), 'a')
    yield 'tick-in-tick', ('call', 'tick', [t(1, two), t(3, one)], [])
    yield 'binary-nested', ('bin', '+', ('bin', '+', t(1, one), t(2, two)), ('bin', '*', t(3, one), t(4, two)))
    yield 'let', ('arrow', ('call', 'let', [t(1, one)], [['x', t(2, two)], ['y', t(3, one)]]), t(4, x))
    yield 'let-body-twice', ('arrow', ('call', 'let', [], [['x', t(1, two)]]), ('list', [t(2, x), t(3, x)]))
    yield 'with', ('arrow', ('call', 'with', [t(1, one), t(2, two)], []), t(3, ('var', '2')))
    yield 'unpack', ('arrow', ('meth', t(1, lst), 'unpack', [('lit', 'x'), ('lit', 'y')]), t(2, x))
    yield 'arrow-context-value', ('arrow', t(1, ('call', 'let', [], [['x', one]])), t(2, x))
    yield 'arrow-chain', ('arrow', ('call', 'let', [], [['x', t(1, one)]]),
                          ('arrow', ('call', 'let', [], [['y', t(2, x)]]), t(3, ('var', 'y'))))
    # a defined function: its arguments are evaluated before its body, at every call
    f = ('call', 'def', [('lit', 'f'), t(1, ('var', ''))], [])
    yield 'def-uncalled', ('arrow', f, t(2, one))
    yield 'def-called-twice', ('arrow', f, ('list', [('call', 'f', [t(2, one)], []), ('call', 'f', [t(3, two)], [])]))
    yield 'def-nested-call', ('arrow', f, ('call', 'f', [('call', 'f', [t(2, one)], [])], []))
    yield 'def-two-args', ('arrow', ('call', 'def', [('lit', 'f'), t(1, ('var', '2'))], []),
                           ('call', 'f', [t(2, one), t(3, two)], []))
    # a function / delegate without parameters is re-evaluated at every call
    f0 = ('call', 'def', [('lit', 'f'), t(1, one)], [])
    yield 'def-no-args-called-twice', ('arrow', f0, ('list', [('call', 'f', [], []), ('call', 'f', [], [])]))
    yield 'def-no-args-called-three-times', ('arrow', f0, ('list', [('call', 'f', [], []), t(2, two), ('call', 'f', [], []), ('call', 'f', [], [])]))
    yield 'def-no-args-per-element', ('arrow', f0, ('meth', lst, 'select', [('call', 'f', [], [])]))
    g0 = ('call', 'let', [], [['g', ('call', 'lambda', [t(3, one)], [])]])
    yield 'lambda-no-args-called-three-times', ('arrow', g0, ('list', [('dcall', ('var', 'g'), []), ('dcall', ('var', 'g'), []), ('dcall', ('var', 'g'), [])]))
    yield 'def-keyword-arg', ('arrow', ('call', 'def', [('lit', 'f'), t(1, x)], []), ('call', 'f', [t(2, one)], [['x', t(3, two)]]))
    yield 'lambda-call', ('dcall', ('call', 'lambda', [t(1, ('var', ''))], []), [t(2, one)])
    yield 'lambda-uncalled', ('list', [t(1, one), ('call', 'len', [('list', [('call', 'lambda', [t(2, one)], [])])], [])])
    g = ('call', 'let', [], [['g', t(1, ('call', 'lambda', [t(2, ('var', ''))], []))]])
    yield 'lambda-variable', ('arrow', g, ('list', [('dcall', ('var', 'g'), [t(3, one)]), ('dcall', t(4, ('var', 'g')), [t(5, two)])]))
    yield 'select-receiver-first', ('meth', t(1, lst), 'select', [t(2, ('var', ''))])
    yield 'select-where', ('meth', ('meth', t(1, lst), 'select', [t(2, ('var', ''))]), 'where', [t(3, ('lit', True))])
    yield 'lambda-never-consumed', ('meth', ('list', [('meth', t(1, lst), 'select', [t(2, ('var', ''))])]), 'len', [])
    yield 'elvis-args', ('elvis', t(1, one), 'then', [t(2, two)])
    yield 'method-chain', ('meth', ('meth', t(1, lst), 'toList', []), 'len', [])


ENDLESS = {'endless source followed beyond the horizon'}

# ---------------------------------------------------------------------------------
# naming the failing site: the construct that decides whether the first diverging tick is evaluated
DECIDERS = ('and', 'or', 'elvis', 'switch', 'selectCase', 'switchCase', 'coalesce', 'selectAllCases', 'examine')
NODE_KINDS = set(DECIDERS) | {'lit', 'var', 'list', 'map', 'index', 'attr', 'bin', 'call', 'meth', 'arrow', 'dcall',
                              'not', 'neg', 'rule', 'dict', 'dictset', 'raise'}
LAZY_CALLS = ('def', 'lambda', 'generate', 'generateMany')     # functions (not methods) with lazy parameters


def site_name(node):
    return node[2] if node[0] == 'meth' else (node[1] if node[0] == 'call' else node[0])


def is_node(x):
    return isinstance(x, (list, tuple)) and len(x) > 0 and isinstance(x[0], str) and x[0] in NODE_KINDS


def tick_matches(node, tid):
    if node[0] != 'call' or node[1] != 'tick':
        return False
    ident = node[2][0]
    if ident[0] == 'lit':
        return ident[1] == tid
    # per-element lambdas log base + element
    return ident[0] == 'bin' and ident[2][0] == 'lit' and ident[2][1] == tid - tid % 10


def path_to_tick(node, tid, path=()):
    path = path + (node,)
    if tick_matches(node, tid):
        return path

    def walk(x):
        if is_node(x):
            return path_to_tick(x, tid, path)
        if isinstance(x, (list, tuple)):
            for y in x:
                r = walk(y)
                if r:
                    return r
        return None
    for child in node[1:]:
        r = walk(child)
        if r:
            return r
    return None


def is_lazy_site(node, child):
    return node[0] in DECIDERS or (node[0] == 'call' and node[1] in LAZY_CALLS) or \
        (node[0] == 'meth' and child is not node[1])


def culprit(ast, pattern, log):
    """The outermost construct deciding about laziness on the way to the first diverging tick whose
    operand holding that tick was, according to the other trace, not evaluated at all - or, if the
    diverging tick is a repetition, whose operand is evaluated again from its beginning."""
    flat = [i for item in pattern for i in ([item] if isinstance(item, int) else sum([list(g) for g in item[1:]], []))]
    n = M.first_divergence(pattern, log)
    if n < len(log) and log[n] in log[:n] and isinstance(log[n], int):
        path = path_to_tick(ast, log[n]) or ()
        for node, child in zip(path, path[1:]):
            again = [i for i in flat if isinstance(i, int) and path_to_tick(child, i)]
            if is_lazy_site(node, child) and again and log[n:n + len(again)] == again:
                return site_name(node)
    if n < len(log):
        tid, other = log[n], flat              # evaluated although the model does not
    else:
        missing = [i for i in flat if i not in log]
        tid, other = (missing[0] if missing else None), log
    path = path_to_tick(ast, tid) if isinstance(tid, int) else None
    if not path:
        return ast[0]
    for node, child in zip(path, path[1:]):
        if is_lazy_site(node, child) and not any(path_to_tick(child, i) for i in other if isinstance(i, int)):
            return site_name(node)
    return site_name(path[-2]) if len(path) > 1 else path[-1][0]


def verdict(ast, pattern, log, out, raised):
    """None if the observation is admissible, else (finding key stem, explanation)."""
    if not M.admits(pattern, log):
        return 'order construct=%s' % culprit(ast, pattern, log), 'the ticks differ'
    if raised and (out[0] != 'e' or out[1] != raised[0]):
        # an operand that was evaluated failed: its error leaves the construct
        return 'error-of-evaluated-operand-lost construct=%s' % site_name(ast), 'an evaluated operand raised %s' % raised[0]
    return None


def lazy_constructs_inside(ast):
    """the lazy constructs nested in ast, innermost first (ast itself excluded)"""
    out = []

    def walk(x, top):
        if is_node(x):
            for c in x[1:]:
                walk(c, False)
            if not top and (x[0] in DECIDERS or x[0] == 'not'):
                out.append(x)
        elif isinstance(x, (list, tuple)):
            for y in x:
                walk(y, False)
    walk(ast, True)
    return out


def innermost_failing(ast):
    """A failing case of the lazy part is reduced to the innermost construct in it that fails when it is
    evaluated on its own (the operands are closed expressions): that construct names the finding.
    -> (ast, pattern, model outcome, log, outcome, verdict) or None if every nested construct behaves."""
    for sub in lazy_constructs_inside(ast):
        pattern, exp = M.trace(sub)
        raised = list(M.RAISED)
        if pattern is None:
            continue
        log, out = observe(I.text(sub))
        bad = log is not None and verdict(sub, pattern, log, out, raised)
        if bad:
            return sub, pattern, exp, log, out, bad
    return None


def judge_model(res, part, label, ast, profile='limits'):
    text = I.text(ast)
    res.case((part, text) if profile == 'limits' else (part, text, profile))
    pattern, exp = M.trace(ast)
    raised = list(M.RAISED)
    if pattern is None and I.NOTES & ENDLESS:
        # the consumer does not stop within the horizon of the model: never ends without an iterator limit
        res.out_of_domain += 1
        res.outcomes[part + ' out-of-domain (endless source not stopped)'] += 1
        return
    core.CURRENT_CASE[0] = {'kind': 'model', 'part': part, 'label': label, 'ast': ast, 'profile': profile}
    log, out = observe(text, profile)
    res.evaluations += 1
    if pattern is None or log is None:
        res.out_of_domain += 1
        res.outcomes[part + ' out-of-domain'] += 1
        if log is None:
            res.fail('harness: probe does not parse part=' + part, {'kind': 'model', 'part': part, 'ast': ast}, repr(out))
        return
    res.transitions += 1
    if pattern:
        res.nontrivial += 1
    bad = verdict(ast, pattern, log, out, raised)
    res.outcomes['%s %s ticks=%s' % (part, 'value' if out[0] == 'v' else 'error', min(len(log), 6))] += 1
    if raised:
        res.extra['cases_in_which_an_evaluated_operand_raises'] = res.extra.get('cases_in_which_an_evaluated_operand_raises', 0) + 1
    if bad:
        inner = innermost_failing(ast) if part == 'lazy' else None
        if inner:
            ast, pattern, exp, log, out, bad = inner
            text = I.text(ast)
        res.fail('%s part=%s' % (bad[0], part),
                 {'kind': 'model', 'part': part, 'label': label, 'ast': ast, 'profile': profile},
                 'text %s: observed ticks %r, outcome %r; expected pattern %r (model outcome %r; %s)'
                 % (text, log, out[:2], pattern, exp, bad[1]))


def job_model(part, tier, k, K):
    res = Result()
    gen = {'lazy': lazy_cases, 'stream': stream_cases}.get(part)
    cases = gen(tier) if gen else binder_cases()
    for i, (label, ast) in enumerate(cases):
        if i % K != k:
            continue
        generated = part == 'stream' and label.split('.')[0] in GENERATED
        if part != 'stream':
            profiles = ('limits',)
        elif tier == 'quick' or generated:
            profiles = ('limits', 'no-options')     # every wrapper on / every wrapper off
        else:
            profiles = sorted(PROFILES)
        for profile in profiles:
            judge_model(res, part, label, ast, profile)
        if generated:
            res.extra['stream_cases_over_generated_sources'] = res.extra.get('stream_cases_over_generated_sources', 0) + 1
        if res.states % 1500 == 1:
            res.sample({'text': I.text(ast), 'pattern': repr(M.trace(ast)[0])}, limit=2)
    return res


# ---------------------------------------------------------------------------------
# method calls on a yaqlized host object: the `.` overload of yaqlized.py evaluates the arguments itself
# ---------------------------------------------------------------------------------
YAQLIZED_CALLS = [
    ('$o.m(tick(1, 10))', [1]),
    ('$o.m(tick(1, 10), tick(2, 20))', [1, 2]),
    ('$o.m(tick(1, 10), c => tick(2, 30))', [1, 2]),
    ('$o.m(c => tick(1, 30), d => tick(2, 40))', [1, 2]),
    ('$o.m(tick(1, 10), tick(2, 20), d => tick(3, 40), c => tick(4, 30))', [1, 2, 3, 4]),
    ('$o.m(tick(1, 10) + tick(2, 1), b => tick(3, 20) + tick(4, 1))', [1, 2, 3, 4]),
    ('$o.m(tick(1, 10), tick(2, 20)).m(tick(3, 1), c => tick(4, 2))', [1, 2, 'body', 3, 4]),
    ('tick(1, $o).m(tick(2, 10), c => tick(3, 30))', [1, 2, 3]),
]


def job_yaqlized():
    """Eager arguments of a method call on a yaqlized object: once each, left to right (positional, then keyword
    arguments in the order written), all before the method body runs."""
    from yaql import yaqlization
    res = Result()
    log = []

    @yaqlization.yaqlize(auto_yaqlize_result=True)
    class Host(object):
        def m(self, a=0, b=0, c=0, d=0):
            log.append('body')
            return self
    for text, ticks in YAQLIZED_CALLS:
        del log[:]
        ctx = yq.root().create_child_context()

        def tick(ident, value=None):
            log.append(ident)
            return value
        ctx.register_function(tick, name='tick')
        ctx['o'] = Host()
        case = {'kind': 'yaqlized', 'text': text}
        core.CURRENT_CASE[0] = case
        res.case(('yaqlized', text))
        res.evaluations += 1
        res.transitions += 1
        res.nontrivial += 1
        try:
            yq.engine()(text).evaluate(context=ctx)
            err = None
        except Exception as e:
            err = type(e).__name__
        expected = list(ticks) if 'body' in ticks else list(ticks) + ['body']
        if text.count('.m(') == 2 and 'body' in ticks:
            expected = list(ticks) + ['body']
        res.outcomes['yaqlized %s' % (err or 'value')] += 1
        if err is not None or log != expected:
            res.fail('order construct=yaqlized-method-call', case,
                     '%s: evaluation trace %r (%s), expected %r' % (text, list(log), err or 'value', expected), size=len(text))
    res.sample({'part': 'yaqlized', 'text': YAQLIZED_CALLS[2][0]}, 1)
    return res


def jobs(tier, seed):
    out = []
    nd = 12 if tier == 'quick' else 16
    for k in range(nd):
        out.append(('defs-%02d' % k, 'job_defs', (tier, k, nd)))
    nl = 16 if tier == 'quick' else 32
    for k in range(nl):
        out.append(('lazy-%02d' % k, 'job_model', ('lazy', tier, k, nl)))
    ns = 16 if tier == 'quick' else 32
    for k in range(ns):
        out.append(('stream-%02d' % k, 'job_model', ('stream', tier, k, ns)))
    out.append(('binders', 'job_model', ('binders', tier, 0, 1)))
    out.append(('yaqlized', 'job_yaqlized', ()))
    return out


def finish(total, tier):
    """A defect of the resolution machinery shows at every definition: more than ten definitions failing
    with one symptom are reported under one key (the smallest case is kept)."""
    groups = {}
    for key, f in total.failures.items():
        if isinstance(f.case, dict) and f.case.get('kind') == 'generic':
            groups.setdefault(f.case['symptom'], []).append(key)
    for sym, keys in groups.items():
        if len(keys) <= 10:
            continue
        best = min((total.failures[k] for k in keys), key=lambda f: (f.size, f.key))
        count = sum(total.failure_counts.pop(k, 0) for k in keys)
        for k in keys:
            del total.failures[k]
        key = 'order symptom=%s across definitions' % sym
        best.key = key
        total.failures[key] = best
        total.failure_counts[key] = count
        total.extra.setdefault('definitions_failing_with_one_symptom', {})[sym] = len(keys)
    total.extra['sites_with_a_successful_probe'] = len(total.extra.get('sites_with_a_successful_probe', {}))


def replay(case):
    if case['kind'] == 'yaqlized':
        r = job_yaqlized()
        hit = [f.detail for f in r.failures.values() if f.case['text'] == case['text']]
        return {'observed': hit, 'expected': 'arguments once each, left to right, before the body', 'ok': not hit}
    if case['kind'] == 'generic':
        log, out = observe(case['text'])
        operands = [tuple(o) for o in case['operands']]
        patterns = M.generic(case['form'], operands, out[0] != 'v')
        return {'text': case['text'], 'observed': repr((log, out[:2])), 'expected': repr(patterns),
                'ok': log is not None and any(M.admits(p, log) for p in patterns)}
    ast = case['ast']
    text = I.text(ast)
    pattern, exp = M.trace(ast)
    raised = list(M.RAISED)
    log, out = observe(text, case.get('profile') or 'limits')
    expected = repr(pattern) + (', error %s' % raised[0] if raised else '')
    return {'text': text, 'observed': repr((log, out[:2])), 'expected': expected,
            'ok': pattern is None or (log is not None and verdict(ast, pattern, log, out, raised) is None)}
