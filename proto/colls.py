import warnings; warnings.filterwarnings('ignore')
import yaql, itertools, collections, functools
eng = yaql.YaqlFactory().create({'yaql.limitIterators': 200}); ROOT = yaql.create_context()
ERR = 'ERR'
def ev(txt, **vars):
    c = ROOT.create_child_context()
    for k, v in vars.items(): c[k] = v
    try: return eng(txt).evaluate(context=c)
    except Exception as e: return ERR
def L(x): return [L(y) for y in x] if isinstance(x, (list, tuple)) else x
# models: name -> (text template with $c and int args, model fn(list, *ints) -> value or ERR, domain predicate)
def m_insert(c, p, v): c = list(c); c.insert(p, v) if p <= len(c) else c.append(v); return c
def m_insert_many(c, p, vs): c = list(c); p = min(p, len(c)); return c[:p] + list(vs) + c[p:]
def m_delete(c, p, n): return [x for i, x in enumerate(c) if not (p <= i < p + n)]
def m_replace(c, p, v, n):
    if n == 0 or p >= len(c): return list(c)   # nothing in range -> unchanged?  (doc: [p,p+n) replaced with value)
    return list(c[:p]) + [v] + list(c[p + n:])
def m_replace_many(c, p, vs, n):
    if n == 0 or p >= len(c): return list(c)
    return list(c[:p]) + list(vs) + list(c[p + n:])
def m_slice(c, n): return [list(c[i:i + n]) for i in range(0, len(c), n)]
def m_split_where(c, pred):
    out = []; cur = []
    for x in c:
        if pred(x): out.append(cur); cur = []
        else: cur.append(x)
    out.append(cur)
    return out
def m_slice_where(c, pred):
    out = []
    for k, g in itertools.groupby(c, key=pred): out.append(list(g))
    return out
def m_acc(c, seed=None, has=False):
    if not has:
        if not c: return ERR
        seed, c = c[0], c[1:]
    out = [seed]
    for x in c: out.append(out[-1] + x)
    return out
MODELS = [
 ('skip', '$c.skip($i)', lambda c, i, j: list(c[i:]), lambda c, i, j: i >= 0),
 ('take', '$c.take($i)', lambda c, i, j: list(c[:i]), lambda c, i, j: i >= 0),
 ('first', '$c.first()', lambda c, i, j: c[0] if c else ERR, None),
 ('first-d', '$c.first($i)', lambda c, i, j: c[0] if c else i, None),
 ('last', '$c.last()', lambda c, i, j: c[-1] if c else ERR, None),
 ('last-d', '$c.last($i)', lambda c, i, j: c[-1] if c else i, None),
 ('single', '$c.single()', lambda c, i, j: c[0] if len(c) == 1 else ERR, None),
 ('insert', '$c.insert($i, 9)', lambda c, i, j: m_insert(c, i, 9), lambda c, i, j: i >= 0),
 ('insertMany', '$c.insertMany($i, [8, 9])', lambda c, i, j: m_insert_many(c, i, [8, 9]), lambda c, i, j: i >= 0),
 ('delete', '$c.delete($i, $j)', lambda c, i, j: m_delete(c, i, j), lambda c, i, j: i >= 0 and j >= 0),
 ('delete1', '$c.delete($i)', lambda c, i, j: m_delete(c, i, 1), lambda c, i, j: i >= 0),
 ('replace', '$c.replace($i, 9, $j)', lambda c, i, j: m_replace(c, i, 9, j), lambda c, i, j: i >= 0 and j >= 0),
 ('replaceMany', '$c.replaceMany($i, [8, 9], $j)', lambda c, i, j: m_replace_many(c, i, [8, 9], j), lambda c, i, j: i >= 0 and j >= 0),
 ('slice', '$c.slice($i)', lambda c, i, j: m_slice(c, i), lambda c, i, j: i >= 1),
 ('splitAt', '$c.splitAt($i)', lambda c, i, j: [list(c[:i]), list(c[i:])], lambda c, i, j: 0 <= i <= len(c)),
 ('splitWhere', '$c.splitWhere($ = 2)', lambda c, i, j: m_split_where(c, lambda x: x == 2), None),
 ('sliceWhere', '$c.sliceWhere($ = 2)', lambda c, i, j: m_slice_where(c, lambda x: x == 2), None),
 ('enumerate', '$c.enumerate($i)', lambda c, i, j: [[i + k, x] for k, x in enumerate(c)], None),
 ('accumulate', '$c.accumulate($1 + $2)', lambda c, i, j: m_acc(c), None),
 ('accumulate-s', '$c.accumulate($1 + $2, $i)', lambda c, i, j: m_acc(c, i, True), None),
 ('aggregate', '$c.aggregate($1 + $2)', lambda c, i, j: functools.reduce(lambda a, b: a + b, c) if c else ERR, None),
 ('aggregate-s', '$c.aggregate($1 + $2, $i)', lambda c, i, j: functools.reduce(lambda a, b: a + b, c, i), None),
 ('sum', '$c.sum()', lambda c, i, j: sum(c) if c else ERR, None),
 ('sum-i', '$c.sum($i)', lambda c, i, j: sum(c) + i, None),
 ('min', '$c.min()', lambda c, i, j: min(c) if c else ERR, None),
 ('max-i', '$c.max($i)', lambda c, i, j: max(list(c) + [i]), None),
 ('distinct', '$c.distinct()', lambda c, i, j: list(dict.fromkeys(c)), None),
 ('indexOf', '$c.indexOf($i)', lambda c, i, j: c.index(i) if i in c else -1, None),
 ('lastIndexOf', '$c.lastIndexOf($i)', lambda c, i, j: len(c) - 1 - c[::-1].index(i) if i in c else -1, None),
 ('reverse', '$c.reverse()', lambda c, i, j: list(c[::-1]), None),
 ('zip', '$c.zip([7, 8])', lambda c, i, j: [list(t) for t in zip(c, [7, 8])], None),
 ('zipLongest', '$c.zipLongest([7, 8], default => $i)', lambda c, i, j: [list(t) for t in itertools.zip_longest(c, [7, 8], fillvalue=i)], None),
 ('count', '$c.count()', lambda c, i, j: len(c), None),
 ('len', '$c.len()', lambda c, i, j: len(c), None),
 ('contains', '$c.contains($i)', lambda c, i, j: i in c, None),
 ('in', '$i in $c', lambda c, i, j: i in c, None),
 ('defaultIfEmpty', '$c.defaultIfEmpty([7])', lambda c, i, j: list(c) if c else [7], None),
 ('orderBy', '$c.orderBy($)', lambda c, i, j: sorted(c), None),
 ('orderByDesc', '$c.orderByDescending($)', lambda c, i, j: sorted(c, reverse=True), None),
 ('groupBy', '$c.groupBy($ mod 2)', lambda c, i, j: [[k, [x for x in c if x % 2 == k]] for k in dict.fromkeys(x % 2 for x in c)], None),
 ('where', '$c.where($ > $i)', lambda c, i, j: [x for x in c if x > i], None),
 ('takeWhile', '$c.takeWhile($ > $i)', lambda c, i, j: list(itertools.takewhile(lambda x: x > i, c)), None),
 ('skipWhile', '$c.skipWhile($ > $i)', lambda c, i, j: list(itertools.dropwhile(lambda x: x > i, c)), None),
 ('append', '$c.append($i, $j)', lambda c, i, j: list(c) + [i, j], None),
 ('plus', '$c + [$i]', lambda c, i, j: list(c) + [i], None),
 ('times', '$c * $i', lambda c, i, j: list(c) * i, None),
 ('index', '$c[$i]', lambda c, i, j: c[i] if -len(c) <= i < len(c) else ERR, None),
 ('toList', '$c.toList()', lambda c, i, j: list(c), None),
 ('cycle', '$c.cycle().take(5)', lambda c, i, j: [c[k % len(c)] for k in range(5)] if c else [], None),
 ('any', '$c.any($ > $i)', lambda c, i, j: any(x > i for x in c), None),
 ('all', '$c.all($ > $i)', lambda c, i, j: all(x > i for x in c), None),
 ('indexWhere', '$c.indexWhere($ > $i)', lambda c, i, j: next((k for k, x in enumerate(c) if x > i), -1), None),
 ('lastIndexWhere', '$c.lastIndexWhere($ > $i)', lambda c, i, j: max([k for k, x in enumerate(c) if x > i], default=-1), None),
 ('selectMany', '$c.selectMany([$, $i])', lambda c, i, j: [y for x in c for y in (x, i)], None),
]
seqs = [s for n in range(0, 4) for s in itertools.product([1, 2, 3], repeat=n)]
ints = range(-2, 6)
stats = collections.Counter(); ex = collections.OrderedDict()
for name, txt, model, dom in MODELS:
    for s in seqs:
        for i in ints:
            for j in ([0] if '$j' not in txt else ints):
                if '$i' not in txt and i != 0: continue
                ind = dom is None or dom(s, i, j)
                try: exp = model(list(s), i, j)
                except Exception: exp = ERR
                for form in ('tuple', 'iter'):
                    if form == 'iter' and name in ('times', 'index', 'len', 'plus'): pass
                    cval = tuple(s) if form == 'tuple' else iter(list(s))
                    got = ev(txt, c=cval, i=i, j=j)
                    stats[(name, 'in' if ind else 'out')] += 1
                    if ind and L(got) != L(exp) if not (got == ERR or exp == ERR) else (ind and (got == ERR) != (exp == ERR)):
                        stats[(name, 'MISMATCH')] += 1
                        ex.setdefault((name, form), (txt, s, i, j, 'expected', exp, 'got', got))
                    # tuple vs iterator consistency, also outside the domain
                if True:
                    a = ev(txt, c=tuple(s), i=i, j=j); b = ev(txt, c=iter(list(s)), i=i, j=j)
                    if (a == ERR) != (b == ERR) or (a != ERR and L(a) != L(b)):
                        stats[(name, 'TUPLE!=ITER' + ('' if ind else '(out of domain)'))] += 1
                        ex.setdefault((name, 'tuple-vs-iter', ind), (txt, s, i, j, 'tuple', a, 'iter', b))
tot = sum(v for (n, k), v in stats.items() if k in ('in', 'out'))
print('cases', tot)
for k, v in stats.items():
    if k[1] not in ('in', 'out'): print('  ', k, v)
for k, v in ex.items(): print('   EX', k, v)
