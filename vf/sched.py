"""E1 - stateless schedule explorer for real Python threads.

Thread bodies run in real OS threads, but exactly one of them holds the baton
at any time; a body gives the baton back to the scheduler whenever it reaches a
*scheduling point* (a call of `point(tag)`, placed by the driver's hooks in
front of the operations on shared state).  An execution is therefore a function
of its schedule = the list of scheduler choices, and the explorer enumerates
schedules by depth-first search with prefix replay (the implementation is
re-executed from the start for every schedule: live threads do not copy).

enabled lists are in canonical order: the thread that ran last first (if it is
still enabled), then ascending ids; choice 0 = "let it continue".  Choosing
another thread while the last one is still enabled is a *preemption*; the
search explores all schedules with at most `bound` preemptions
(bound=None: all schedules).  Replaying a prefix must reproduce the recorded
(thread, tag) trace of the parent execution - a divergence is a hard harness
error, never a verdict.
"""
import threading

_CUR = [None]


class Divergence(Exception):
    pass


def _headroom(n):
    return 0 if n == 0 else _headroom(n - 1)


def point(tag):
    """Scheduling point: called by hooks from inside thread bodies."""
    x = _CUR[0]
    if x is None:
        return
    tid = getattr(threading.current_thread(), 'vf_tid', None)
    if tid is None or getattr(threading.current_thread(), 'vf_exec', None) is not x:
        return
    # the hand-over below needs a few frames (semaphores are Python code); a body that is at the interpreter's
    # recursion limit gets its RecursionError here, before any scheduler state is touched, instead of in the
    # middle of the hand-over (which would leave the other threads waiting for ever)
    _headroom(24)
    x._point(tid, tag)


class Execution(object):
    """One execution under one schedule.  The scheduling decision is taken by whichever thread holds the baton
    (at a point, or when its body ends), so continuing the same thread costs no OS thread switch at all; only a
    real switch hands the baton over through the per-thread semaphores."""

    def __init__(self, bodies, prefix, expect=None):
        self.bodies = bodies
        self.prefix = prefix
        self.expect = expect          # trace the prefix must reproduce
        n = len(bodies)
        self.sem = [threading.Semaphore(0) for _ in range(n)]
        self.main = threading.Semaphore(0)
        self.done = [False] * n
        self.res = [None] * n
        self.trace = []               # (tid, tag) in global order
        self.choices = []             # index into the enabled list at each decision
        self.enabled_at = []          # (enabled list, last) at each decision
        self.trace_len_at = []        # len(trace) when decision i was taken
        self.error = None             # harness error seen inside a thread (raised by go())

    def _decide(self, last):
        """Next thread to run; called by the thread that holds the baton (or by go() for the first decision)."""
        n = len(self.bodies)
        enabled = [i for i in range(n) if not self.done[i]]
        if not enabled:
            return None
        if last in enabled:
            enabled = [last] + [i for i in enabled if i != last]
        k = len(self.choices)
        c = 0
        if self.error is None and k < len(self.prefix):
            c = self.prefix[k]
            if c >= len(enabled):
                self.error = 'choice %d out of range at decision %d (enabled %r)' % (c, k, enabled)
                c = 0
        self.enabled_at.append((enabled, last))
        self.choices.append(c)
        self.trace_len_at.append(len(self.trace))
        return enabled[c]

    def _point(self, tid, tag):
        self.trace.append((tid, tag))
        nxt = self._decide(tid)
        if nxt == tid:
            return
        self.sem[nxt].release()
        self.sem[tid].acquire()

    def _run(self, tid):
        self.sem[tid].acquire()
        try:
            self.res[tid] = ('ok', self.bodies[tid]())
        except BaseException as e:     # a body's failure is an observation, not a harness error
            self.res[tid] = ('exc', type(e).__name__, str(e)[:300])
        self.done[tid] = True
        nxt = self._decide(tid)
        if nxt is None:
            self.main.release()
        else:
            self.sem[nxt].release()

    def go(self):
        _CUR[0] = self
        n = len(self.bodies)
        ths = []
        for i in range(n):
            th = threading.Thread(target=self._run, args=(i,))
            th.vf_tid = i
            th.vf_exec = self
            th.daemon = True
            th.start()
            ths.append(th)
        first = self._decide(None)
        self.sem[first].release()
        self.main.acquire()
        for th in ths:
            th.join()
        _CUR[0] = None
        if self.error is not None:
            raise Divergence(self.error)
        if self.expect is not None:
            m = min(len(self.expect), len(self.trace))
            if self.trace[:m] != self.expect[:m]:
                raise Divergence('replayed prefix diverged: expected %r got %r'
                                 % (self.expect[:m][-6:], self.trace[:m][-6:]))
        return self

    def preemptions(self):
        p = 0
        for (enabled, last), c in zip(self.enabled_at, self.choices):
            if last is not None and last in enabled and c != 0:
                p += 1
        return p


def explore(bodies, bound, check, max_schedules=None, reset=None, shard=None):
    """Enumerate all schedules of `bodies` with at most `bound` preemptions.

    check(execution) is called for every complete execution.  `reset()` (if
    given) is called before every execution to put shared objects back into
    their initial state.  `shard=(k, K)` restricts the search to the k-th of K
    disjoint parts of the schedule tree: the choice of the thread that starts is
    free (no preemption), so every part visits the executions that differ from
    the default one only in that choice; the subtrees hanging off those
    executions are dealt in snake order by the decision index of their first
    real deviation, and the start-only executions themselves are checked by
    part 0 (the union over k is exactly the unsharded search).  Returns (schedules, capped)."""
    n = 0
    stack = [([], None)]
    while stack:
        prefix, expect = stack.pop()
        if reset is not None:
            reset()
        x = Execution(bodies, prefix, expect).go()
        # "root-like": the default execution, or one that only differs in which thread starts (no preemption yet)
        root = not prefix or (len(prefix) == 1)
        if not (root and shard is not None and shard[0] != 0):
            n += 1
            check(x)
        if max_schedules is not None and n >= max_schedules:
            return n, True
        pre = 0
        cost_before = []
        for i, (enabled, last) in enumerate(x.enabled_at):
            cost_before.append(pre)
            if last is not None and last in enabled and x.choices[i] != 0:
                pre += 1
        for i in range(len(x.choices) - 1, len(prefix) - 1, -1):
            enabled, last = x.enabled_at[i]
            if root and shard is not None and i > 0 and _part(i, shard[1]) != shard[0]:
                continue
            for alt in range(len(enabled) - 1, 0, -1):
                cost = cost_before[i] + (1 if (last is not None and last in enabled) else 0)
                if bound is not None and cost > bound:
                    continue
                # the alternative shares the trace up to the moment decision i was taken
                stack.append((x.choices[:i] + [alt], x.trace[:x.trace_len_at[i]]))
    return n, False


def _part(i, K):
    """Deal decision indices to K parts in snake order (0..K-1, K-1..0, ...): subtree sizes shrink
    roughly linearly with the index of the first deviation, so this balances the parts."""
    j = i % (2 * K)
    return j if j < K else 2 * K - 1 - j


def run_schedule(bodies, choices, reset=None):
    """Replay one recorded schedule (for replay files)."""
    if reset is not None:
        reset()
    return Execution(bodies, list(choices), None).go()


# ---------------------------------------------------------------------------
# line-granularity bound-1 exploration: thread A is preempted at its k-th line
# event inside the traced files, thread B runs to completion, A resumes.
# ---------------------------------------------------------------------------
import sys  # noqa: E402


class FineExec(object):
    def __init__(self, body_a, body_b, k, file_filter):
        self.k = k
        self.n = 0
        self.bodies = (body_a, body_b)
        self.filter = file_filter
        self.sem_a = threading.Semaphore(0)
        self.sem_b = threading.Semaphore(0)
        self.main = threading.Semaphore(0)
        self.res = [None, None]
        self.switched = False
        self.where = None

    def _tracer(self, frame, event, arg):
        if not self.filter(frame.f_code.co_filename):
            return None
        return self._local

    def _local(self, frame, event, arg):
        if event == 'line':
            self.n += 1
            if self.n == self.k and not self.switched:
                self.switched = True
                self.where = (frame.f_code.co_filename, frame.f_lineno, frame.f_code.co_name)
                self.sem_b.release()
                self.sem_a.acquire()
        return self._local

    def _run_a(self):
        sys.settrace(self._tracer)
        try:
            self.res[0] = ('ok', self.bodies[0]())
        except BaseException as e:
            self.res[0] = ('exc', type(e).__name__, str(e)[:300])
        finally:
            sys.settrace(None)
        if not self.switched:
            self.switched = True
            self.sem_b.release()
            self.sem_a.acquire()
        self.main.release()

    def _run_b(self):
        self.sem_b.acquire()
        try:
            self.res[1] = ('ok', self.bodies[1]())
        except BaseException as e:
            self.res[1] = ('exc', type(e).__name__, str(e)[:300])
        self.sem_a.release()

    def go(self):
        ta = threading.Thread(target=self._run_a)
        tb = threading.Thread(target=self._run_b)
        ta.daemon = tb.daemon = True
        ta.start()
        tb.start()
        self.main.acquire()
        ta.join()
        tb.join()
        return self


def count_line_events(body, file_filter):
    f = FineExec(body, lambda: None, -1, file_filter).go()
    return f.n
