#!/venv/bin/python
"""Build seeded/RESULTS.md (and print a compact markdown table) from seeded/*/meta.json.

meta.json['verification'] is written by tools/seedtest.py (confirmation of the change: demo passes on HEAD,
patch applies, 366 tests pass, demo fails; then the named checks for each VERIF_SEED on a scratch worktree)."""
import glob
import json
import os

HERE = os.path.realpath(os.path.join(os.path.dirname(__file__), '..'))
NOTES = {}
np_ = os.path.join(HERE, 'seeded', 'NOTES.json')
if os.path.exists(np_):
    NOTES = json.load(open(np_))

rows = []
for d in sorted(glob.glob(os.path.join(HERE, 'seeded', 'C*-*'))):
    name = os.path.basename(d)
    m = json.load(open(os.path.join(d, 'meta.json')))
    v = m.get('verification', {})
    confirmed = (v.get('demo_unchanged') == 0 and v.get('patch_applies') and '366 passed' in str(v.get('tests'))
                 and v.get('demo_changed') == 1)
    caught_by = []
    missed_by = []
    keys = []
    own = False
    prop = m.get('property', name.split('-')[0])
    for pid, runs in sorted(v.get('checks', {}).items(), key=lambda kv: (kv[0] != prop, kv[0])):
        if runs and all(r['exit'] == 1 and r['violations'] > 0 for r in runs):
            own = own or pid == prop
            caught_by.append('%s (VERIF_SEED %s)' % (pid, ','.join(str(r['seed']) for r in runs)))
            keys.extend(k.split('   (cases')[0] for k in runs[0]['keys'][:2])
        else:
            missed_by.append(pid)
    summary = (m.get('summary') or m.get('mechanism') or '').strip().replace('\n', ' ')
    needs = (m.get('needs_to_manifest') or '').strip().replace('\n', ' ')
    rows.append(dict(name=name, prop=m.get('property', name.split('-')[0]), confirmed=confirmed, caught=caught_by, missed=missed_by,
                     keys=keys, own=own, summary=summary, needs=needs, note=NOTES.get(name, '')))

out = ['# Seeded property-breaking changes', '',
       'Each directory holds `patch.diff` (against openstack/yaql), `demo.py` (exit 0 on the unchanged tree, exit 1 with the change) and',
       '`meta.json` (what it breaks, what it needs to manifest, and under `verification` what `tools/seedtest.py` measured: the',
       "repository's 366 tests pass with the change, the demonstration fails with it and passes without it, and the outcome of the",
       'registered quick check on a scratch worktree for VERIF_SEED 0, 1, 2).', '',
       '| seed | change | needs to manifest | confirmed | caught by | first finding keys |', '|---|---|---|---|---|---|']
for r in rows:
    caught = ', '.join(r['caught']) if r['caught'] else ('**missed by %s**' % ', '.join(r['missed']) if r['missed'] else 'not run')
    if r['missed'] and r['caught']:
        caught += '; not by %s' % ', '.join(r['missed'])
    if r['note']:
        caught += ' — ' + r['note']
    out.append('| %s | %s | %s | %s | %s | %s |' % (r['name'], r['summary'][:260].replace('|', '/'), r['needs'][:260].replace('|', '/'),
                                                    'yes' if r['confirmed'] else 'NO', caught,
                                                    '; '.join('`%s`' % k[:90].replace('|', '/') for k in r['keys'][:2])))
open(os.path.join(HERE, 'seeded', 'RESULTS.md'), 'w').write('\n'.join(out) + '\n')
n = len(rows)
c = sum(1 for r in rows if r['caught'])
o = sum(1 for r in rows if r['own'])
line = '%d seeds, %d confirmed, %d caught by the check of the property they were written against, %d more only by another registered check, %d missed' % (
    n, sum(1 for r in rows if r['confirmed']), o, c - o, n - c)
print(line)
out.insert(7, line + '.')
out.insert(8, '')
open(os.path.join(HERE, 'seeded', 'RESULTS.md'), 'w').write('\n'.join(out) + '\n')
# compact table for DESIGN.md section 10.5 (between the markers)
def _natural(name):
    a, b = name.split('-')
    return (a, int(b))


compact = ['| seed | change (from the seeding agent\'s summary) | caught by | first finding key |', '|---|---|---|---|']
for r in sorted(rows, key=lambda r: _natural(r['name'])):
    by = ', '.join(c.split(' ')[0] for c in r['caught'])
    if r['own']:
        cell = '**%s**' % r['prop'] + (' (also %s)' % ', '.join(c.split(' ')[0] for c in r['caught'] if not c.startswith(r['prop'])) if len(r['caught']) > 1 else '')
    elif r['caught']:
        cell = '%s (see note)' % by
    else:
        cell = '**missed** (see note)'
    compact.append('| %s | %s | %s | %s |' % (r['name'], r['summary'][:150].replace('|', '/'), cell,
                                              '`%s`' % r['keys'][0][:70].replace('|', '/') if r['keys'] else ''))
dp = os.path.join(HERE, 'DESIGN.md')
d = open(dp).read()
B, E = '<!-- SEEDTABLE BEGIN -->', '<!-- SEEDTABLE END -->'
if B in d and E in d:
    d = d[:d.index(B) + len(B)] + '\n' + '\n'.join(compact) + '\n' + d[d.index(E):]
    open(dp, 'w').write(d)
    print('DESIGN.md table updated (%d rows)' % len(rows))
for r in rows:
    if not r['own']:
        print('  not own:', r['name'], 'caught', r['caught'], 'missed', r['missed'], r['note'])
