"""C18 - concurrent evaluations do not interfere.

E1 on the evaluator: 2-3 real threads evaluate statements of one engine, each in
its own child of one shared prepared context, each with its own document.
Layer 1: preemption-bounded exploration at function-dispatch / lambda-invocation /
payload entry+exit granularity.  Layer 2: every line-granularity schedule with one
preemption (A runs to line event k, B runs to completion, A resumes).  Layer 3:
shared-state write monitor - the identity digest of everything that outlives one
evaluation is recomputed at every line event of a sequential evaluation.
Oracle: every thread's result equals its result when run alone; the shared
context chain, statement trees, engine and module globals are unchanged.
"""
import itertools
import sys
import types

import vf.loader  # noqa: F401
from vf import canon, sched
from vf.core import Result, CURRENT_CASE

import yaql
from yaql.language import expressions as X
from yaql.language import runner as R
from yaql.language import specs as S
from yaql.language import yaqltypes as T

ID = 'C18'
TITLE = 'concurrent evaluations do not interfere'
RULE = ('coarse: all schedules with <= c preemptions of 2-3 threads evaluating pool statements on one engine / one shared root context, '
        'points at runner.call, Lambda invocation, payload entry and exit; fine: every (pair, k) with thread A preempted at its k-th '
        'line event inside yaql/ and thread B run to completion; monitor: every line event of a sequential evaluation; a schedule is '
        'non-trivial when it contains a preemption')
ASSUMPTIONS = ['one thread runs at a time (baton); switches inside a source line and C-level races are not modelled',
               'hooks (rebinding runner.call, Lambda._call, FunctionDefinition.get_delegate) only add scheduling points',
               'line-granularity exploration is limited to one preemption; bound 2 at that granularity (~1e8 schedules per pair) is out of reach']

# (text, needs nothing special).  Each touches a different library module / shared-state candidate.
POOL = [
    '$.where($ > 1).select($ * 2).toList()',                                   # 0 queries
    '$.distinct().toList()',                                                   # 1 distinct (scratch set)
    '$.distinct().select($ * 2).toList()',                                     # 2
    '$.orderBy($ mod 2).thenByDescending($).toList()',                         # 3 ordering objects
    '$.groupBy($ mod 2).toList()',                                             # 4 grouping
    '$.memorize().select($ + 1).toList()',                                     # 5 memorize
    "$.select(str($)).join(',').toUpper()",                                    # 6 strings
    "regex('(\\d)').replaceBy($.select(str($)).join(''), $.value + 'x')",     # 7 regex with selector
    'let(x => $[0]) -> def(f, $ + $x) -> f($[1])',                             # 8 context constructs
    "(datetime(2000, 1, 1) + timespan(days => $[0])).day",                     # 9 date/time
    'dict($.select([$, $ * 2])).items().orderBy($[0]).toList()',               # 10 dicts
    '$.sum() + $.len() + $.aggregate($1 + $2)',                                # 11 aggregation
    "switch($[0] > 1 => 'a', true => 'b') + coalesce(null, str($[1]))",        # 12 branching
    '$.toSet().union([7].toSet()).orderBy($).toList()',                        # 13 sets
    '$.select($ * 2).indexOf(4) + $.len()',                                    # 14 overload-rich names
    '$.zip($.skip(1)).select($[0] + $[1]).takeWhile($ < 100).toList()',        # 15 zip/skip/takeWhile
    '$.orderBy($).toList()',                                                   # 16 plain sort (short trace)
    '$.orderByDescending($).toList()',                                         # 17 a different ordering
    "[$defaults.delete(region).len(), $defaults.get(token), $.len()]",         # 18 host data kept in the shared context
    '1' + ' + 1' * 220,                                                        # 19 nested deeper than the interpreter's default recursion limit allows
    'scale(k => $[0], v => 10) + scale(v => $[1], k => 2)',                    # 20 a function the prepared context defines in YAQL, keyword arguments only
    '$ranked.select($ * 2).toList()',                                          # 21 a lazily sorted collection kept in the prepared context, not yet consumed
]
DEEP, KWCALL, LAZY = 19, 20, 21
DOCS = [[1, 1, 2, 3, 3], [3, 3, 1, 2, 2], [2, 5, 5, 1], [2, 1], [2, 1, 3], [3, 1, 2]]
CORE_Q = [1, 2, 3, 5, 7, 8, 16, 17]
MONITOR_Q = [(1, 0), (3, 3), (8, 0), (12, 0), (18, 3)]      # (statement, document)
BOUNDS = {
    'quick': 'coarse: all unordered pairs (incl. same statement twice) of an 8-statement core with preemption bound 1, 4 deep pairs with bound 2 where points**2 <= 25000 (small documents), each split into 6 disjoint shards, '
             '4 triples with bound 1, 1 pair (a statement nested deeper than the default recursion limit allows || a short one) with bound 2, 2 pairs on what the prepared context holds (a YAQL-defined function called with keyword arguments only, bound 2; a lazily sorted collection not yet iterated, rebuilt per schedule, bound 1); fine: 2 ordered pairs, every line event, on the warm shared context, and 1 pair on a fresh (cold) shared context per schedule; monitor: 4 statements; yaql.eval() at line granularity inside yaql/__init__.py after histories of n distinct expressions, n in {0..3} and 2**e-1, 2**e, 2**e+1 for e <= 10',
    'thorough': 'coarse: all pairs of the first 19 statements of the pool with bound 2 where points**2 <= 8000 else bound 1, 13 deep pairs with bound 3 where points**3 <= 150000 (else 2), all triples of a 5-statement core '
                'with bound 2 where points**2 <= 20000, 2 pairs with the deeply nested statement at bound 2, 6 groups on the prepared context; '
                'fine: 20 ordered pairs, every line event (warm context), 7 pairs on a cold context per schedule; monitor: all statements; yaql.eval module path at dispatch granularity and, at line granularity, after histories of n distinct expressions (n around the powers of two up to 4097, and 10, 100, 1000, 5000)',
}

_S = {}


def world():
    if not _S:
        _S['eng'] = yaql.YaqlFactory().create()
        _S['st'] = [_S['eng'](t) for t in POOL]
        _S['root'] = prepared_root(_S['eng'])
        fresh_lazy()
    return _S


def prepared_root(eng):
    """The context a host prepares once and shares: the standard library, the host's own (raw, unconverted) data,
    and a function defined by evaluating a YAQL statement (def() returns the context it extended)."""
    base = yaql.create_context()
    base['defaults'] = {'region': 'eu', 'token': 's3', 'retries': [3]}
    return eng('def(scale, $k * $v)').evaluate(context=base)


def fresh_lazy():
    """A child of the prepared context holding $ranked = an orderBy() result nobody has iterated yet (its sort runs,
    and is remembered, at the first iteration): rebuilt before every execution that uses it."""
    if 'lazy_st' not in _S:
        _S['lazy_st'] = _S['eng']('let(ranked => $.orderBy($ mod 3))')
    _S['lazy'] = _S['lazy_st'].evaluate(data=[2, 3, 1], context=_S['root'].create_child_context())


def evaluate(i, d):
    w = world()
    try:
        return repr(w['st'][i].evaluate(data=DOCS[d], context=(w['lazy'] if i == LAZY else w['root']).create_child_context()))
    except RecursionError:
        # where exactly the interpreter gives up depends on the depth of the calling thread's own stack
        raise RecursionError('(message normalised)') from None


_base = {}


def baseline(i, d):
    if (i, d) not in _base:
        if i == LAZY:
            fresh_lazy()
        try:
            _base[(i, d)] = ('ok', evaluate(i, d))
        except Exception as e:
            _base[(i, d)] = ('exc', type(e).__name__, str(e)[:300])
    return _base[(i, d)]


# ---------------------------------------------------------------------------
_hooked = [False]


def install_hooks():
    if _hooked[0]:
        return
    _hooked[0] = True
    o_call = R.call

    def call(name, *a, **k):
        sched.point('call:' + str(name))
        return o_call(name, *a, **k)
    R.call = call
    o_lcall = T.Lambda._call

    def _call(self, *a, **k):
        sched.point('lambda')
        return o_lcall(self, *a, **k)
    T.Lambda._call = _call
    o_gd = S.FunctionDefinition.get_delegate

    def get_delegate(self, *a, **k):
        f = o_gd(self, *a, **k)
        name = str(self.name)

        def func():
            sched.point('payload>' + name)
            try:
                return f()
            finally:
                sched.point('payload<' + name)
        return func
    S.FunctionDefinition.get_delegate = get_delegate
    # evaluations that parse (yaql.eval of a not yet cached expression, YaqlInterface('...')) also step through the lexer
    import ply.lex
    L = ply.lex.Lexer
    o_token, o_input = L.token, L.input

    def token(self):
        sched.point('token')
        return o_token(self)

    def input(self, text):
        sched.point('input')
        return o_input(self, text)
    L.token, L.input = token, input


# ---------------------------------------------------------------------------
# cheap identity digest of everything that outlives one evaluation
# ---------------------------------------------------------------------------
_mods = []


def shared_digest(skip_globals=()):
    w = world()
    if not _mods:
        _mods.extend(m for n, m in sorted(sys.modules.items())
                     if n.startswith('yaql') and m is not None and '.tests' not in n)
    h = []
    c = w['root']
    while c is not None:
        h.append((tuple((k, id(v), repr(v) if isinstance(v, (dict, list, set)) else None) for k, v in c._data.items()),
                  tuple((n, tuple(sorted(id(f) for f in s))) for n, s in c._functions.items()),
                  tuple(sorted(c._exclusive_funcs)), id(c._parent_context), id(c._convention)))
        for s in c._functions.values():
            for fd in s:
                h.append((id(fd.payload), fd.is_method, fd.is_function, fd.name, fd.no_kwargs, id(fd.meta), len(fd.meta),
                          tuple((k, id(p), p.position, id(p.value_type), id(p.default), p.alias, p.name)
                                for k, p in fd.parameters.items())))
        c = c.parent

    def walk(e):
        h.append((id(e), tuple((k, id(v)) for k, v in vars(e).items())))
        for a in getattr(e, 'args', ()) or ():
            if isinstance(a, X.Expression):
                walk(a)
        for k in ('expr', 'source', 'destination'):
            v = getattr(e, k, None)
            if isinstance(v, X.Expression):
                walk(v)
    for s in w['st']:
        walk(s)
    eng = w['eng']
    h.append(tuple((k, id(v)) for k, v in vars(eng).items()))
    h.append(tuple((k, id(v)) if not isinstance(v, (int, str, type(None))) else (k, v)
                   for k, v in vars(eng.lexer).items()))
    for m in _mods:
        for k, v in vars(m).items():
            if k in skip_globals:
                continue
            if isinstance(v, (list, set)):
                h.append((k, id(v), len(v), tuple(map(id, v))))
            elif isinstance(v, dict):
                h.append((k, id(v), len(v), tuple((id(a), id(b)) for a, b in v.items())))
            else:
                h.append((k, id(v)))
            if isinstance(v, type) and v.__module__.startswith('yaql'):
                _class_digest(v, h, 0)
    return hash(tuple(h))


def _class_digest(cls, h, depth):
    """Attributes of a class, and of classes nested in it (a comparator or iterator class defined inside another
    class is as shared as a module-level one)."""
    items = tuple((a, id(b)) for a, b in vars(cls).items())
    h.append((cls.__qualname__, items))
    if depth < 3:
        for a, b in vars(cls).items():
            if isinstance(b, type) and b is not cls:
                _class_digest(b, h, depth + 1)


# ---------------------------------------------------------------------------
class _Stop(Exception):
    pass


def job_coarse(groups, max_bound, label, budget=None, shard=None):
    """groups: list of tuples of (statement index, document index).  The preemption bound of a group is the
    largest b <= max_bound with (total scheduling points)**b <= budget (schedules grow like points**b)."""
    res = Result()
    install_hooks()
    world()
    for g in groups:
        bound = max_bound
        if budget is not None:
            tot = 0
            for i, d in g:
                if i == LAZY:
                    fresh_lazy()
                tot += len(sched.Execution([lambda i=i, d=d: evaluate(i, d)], [], None).go().trace)
            while bound > 1 and tot ** bound > budget:
                bound -= 1
        base = [baseline(i, d) for i, d in g]
        lazy_reset = fresh_lazy if any(i == LAZY for i, d in g) else None
        d0 = shared_digest()
        bodies = [(lambda i=i, d=d: evaluate(i, d)) for i, d in g]
        CURRENT_CASE[0] = {'kind': 'coarse', 'threads': [list(x) for x in g], 'bound': bound}
        stats = {'bad': 0, 'n': 0}
        vectors = set()

        def check(x):
            stats['n'] += 1
            res.evaluations += 1
            res.transitions += len(x.choices)
            if x.preemptions():
                res.nontrivial += 1
            vectors.add(tuple(x.res))
            ok = all(x.res[j] == (('ok', base[j][1]) if base[j][0] == 'ok' else ('exc', base[j][1], base[j][2]))
                     for j in range(len(g)))
            if not ok:
                stats['bad'] += 1
                r2 = sched.run_schedule(bodies, x.choices, reset=lazy_reset)
                if list(r2.res) != list(x.res):
                    # the same schedule gives another result the second time: state survives an evaluation
                    res.fail('schedule outcome not reproducible (state carried over between evaluations) statements=%s'
                             % '|'.join(sorted(set(str(i) for i, d in g))),
                             {'kind': 'coarse', 'threads': [list(t) for t in g], 'choices': list(x.choices),
                              'texts': [POOL[i] for i, d in g]},
                             'first run %r, replay %r, alone %r' % (x.res, r2.res, base), size=len(x.choices))
                    raise _Stop()        # whatever was carried over also taints the schedules that follow
                res.fail('interference threads=%d statements=%s' % (len(g), '|'.join(sorted(set(str(i) for i, d in g)))),
                         {'kind': 'coarse', 'threads': [list(t) for t in g], 'choices': list(x.choices),
                          'texts': [POOL[i] for i, d in g]},
                         'schedule %r: results %r; alone %r' % (x.choices, x.res, base),
                         size=len(x.choices))
                if stats['bad'] >= 25:
                    raise _Stop()        # the verdict for this group is decided; every further violating schedule is run twice
            elif stats['n'] % 20 == 1 and shared_digest() != d0:
                # (the digest costs 7 ms: sampled every 20th schedule here, and once more after the last one)
                res.fail('shared state changed by evaluation statements=%s' % '|'.join(sorted(set(str(i) for i, d in g))),
                         {'kind': 'coarse', 'threads': [list(t) for t in g], 'choices': list(x.choices),
                          'texts': [POOL[i] for i, d in g]}, 'identity digest of the shared context/statements/engine/modules changed',
                         size=len(x.choices))
        try:
            n, capped = sched.explore(bodies, bound, check, max_schedules=400000, shard=shard, reset=lazy_reset)
        except _Stop:
            n, capped = stats['n'], False
            res.caps.append('coarse group %r stopped at a decided verdict (%d violating schedules, %d explored)' % (g, stats['bad'], n))
        if shared_digest() != d0:
            res.fail('shared state changed by evaluation statements=%s' % '|'.join(sorted(set(str(i) for i, d in g))),
                     {'kind': 'coarse', 'threads': [list(t) for t in g], 'choices': [],
                      'texts': [POOL[i] for i, d in g]}, 'identity digest of the shared context/statements/engine/modules changed '
                     'after the schedules of this group')
        if capped:
            res.caps.append('coarse group %r capped at %d schedules' % (g, n))
        res.case((label, g, bound, shard))
        res.states += n - 1
        res.outcomes['%s b=%s %s' % (label, bound, 'violating' if stats['bad'] else 'clean')] += n
        res.extra['coarse_schedules'] = res.extra.get('coarse_schedules', 0) + n
        res.extra['coarse_max_result_vectors'] = max(res.extra.get('coarse_max_result_vectors', 0), len(vectors))
        if len(res.samples) < 1:
            res.sample({'threads': [POOL[i] for i, d in g], 'docs': [DOCS[d] for i, d in g], 'bound': bound, 'schedules': n})
    res.extra.pop('coarse_max_result_vectors', None)
    return res


def _filter(fn):
    return '/yaql/' in fn and '/tests/' not in fn


def job_fine(a, b, k_lo, k_hi):
    """Thread A = (stmt, doc) a preempted at line event k in [k_lo, k_hi); thread B = b runs to completion."""
    res = Result()
    world()
    ba, bb = baseline(*a), baseline(*b)

    def body_a():
        return evaluate(*a)

    def body_b():
        return evaluate(*b)
    n = sched.count_line_events(body_a, _filter)
    d0 = shared_digest()
    res.case(('fine', a, b, k_lo, k_hi))
    for k in range(max(1, k_lo), min(n, k_hi - 1) + 1):
        CURRENT_CASE[0] = {'kind': 'fine', 'a': list(a), 'b': list(b), 'k': k}
        f = sched.FineExec(body_a, body_b, k, _filter).go()
        res.evaluations += 1
        res.transitions += 2
        res.states += 1
        res.nontrivial += 1
        exp = [('ok', ba[1]) if ba[0] == 'ok' else ('exc', ba[1], ba[2]),
               ('ok', bb[1]) if bb[0] == 'ok' else ('exc', bb[1], bb[2])]
        if f.res != exp:
            f2 = sched.FineExec(body_a, body_b, k, _filter).go()
            if f2.res != f.res:
                res.fail('schedule outcome not reproducible (state carried over between evaluations) statements=%d|%d' % (a[0], b[0]),
                         {'kind': 'fine', 'a': list(a), 'b': list(b), 'k': k, 'texts': [POOL[a[0]], POOL[b[0]]]},
                         'first run %r, replay %r, alone %r' % (f.res, f2.res, exp), size=1000 + k)
                continue
            res.fail('interference (line granularity) statements=%d|%d' % (a[0], b[0]),
                     {'kind': 'fine', 'a': list(a), 'b': list(b), 'k': k, 'texts': [POOL[a[0]], POOL[b[0]]]},
                     'A preempted at line event %d (%r): A->%r B->%r; alone %r' % (k, f.where, f.res[0], f.res[1], exp),
                     size=1000 + k)
            res.outcomes['fine violating'] += 1
        else:
            res.outcomes['fine clean'] += 1
    if shared_digest() != d0:
        res.fail('shared state changed by evaluation statements=%d|%d' % (a[0], b[0]),
                 {'kind': 'fine', 'a': list(a), 'b': list(b), 'k': 0, 'texts': [POOL[a[0]], POOL[b[0]]]},
                 'identity digest changed after fine exploration')
    res.extra['fine_line_events'] = {'%d/%d' % (a[0], a[1]): n}
    return res


def cold_root():
    """A fresh standard-library context: function definitions nobody has called yet (what a definition builds
    lazily on its first call is built by whichever thread calls first)."""
    w = world()
    w['root'] = prepared_root(w['eng'])
    fresh_lazy()


def job_fine_cold(a, b, k_lo, k_hi):
    """As job_fine, but every schedule starts on a fresh shared context (cold definitions): A is preempted at
    line event k of its FIRST evaluation on that context, B evaluates on the same context, A resumes."""
    res = Result()
    world()
    ba, bb = baseline(*a), baseline(*b)
    exp = [('ok', ba[1]) if ba[0] == 'ok' else ('exc', ba[1], ba[2]),
           ('ok', bb[1]) if bb[0] == 'ok' else ('exc', bb[1], bb[2])]

    def body_a():
        return evaluate(*a)

    def body_b():
        return evaluate(*b)
    cold_root()
    n = sched.count_line_events(body_a, _filter)
    res.case(('fine-cold', a, b, k_lo, k_hi))
    for k in range(max(1, k_lo), min(n, k_hi - 1) + 1):
        CURRENT_CASE[0] = {'kind': 'fine-cold', 'a': list(a), 'b': list(b), 'k': k}
        cold_root()
        f = sched.FineExec(body_a, body_b, k, _filter).go()
        res.evaluations += 1
        res.transitions += 2
        res.states += 1
        res.nontrivial += 1
        if f.res != exp:
            cold_root()
            f2 = sched.FineExec(body_a, body_b, k, _filter).go()
            case = {'kind': 'fine-cold', 'a': list(a), 'b': list(b), 'k': k, 'texts': [POOL[a[0]], POOL[b[0]]]}
            if f2.res != f.res:
                res.fail('schedule outcome not reproducible (state carried over between evaluations) statements=%d|%d' % (a[0], b[0]),
                         case, 'first run %r, replay %r, alone %r' % (f.res, f2.res, exp), size=1000 + k)
                continue
            res.fail('interference on a cold shared context (line granularity) statements=%d|%d' % (a[0], b[0]), case,
                     'fresh context; A preempted at line event %d of its first evaluation (%r): A->%r B->%r; alone %r'
                     % (k, f.where, f.res[0], f.res[1], exp), size=1000 + k)
            res.outcomes['fine-cold violating'] += 1
        else:
            res.outcomes['fine-cold clean'] += 1
    res.extra['fine_cold_line_events'] = {'%d/%d' % (a[0], a[1]): n}
    cold_root()
    _base.clear()
    return res


def job_monitor(i, d, k_lo=1, k_hi=1 << 60):
    """Sequential evaluation with the shared-state digest recomputed at every line event in [k_lo, k_hi)."""
    res = Result()
    w = world()
    base = shared_digest()
    n = [0]
    changes = []

    def tracer(frame, event, arg):
        if not _filter(frame.f_code.co_filename):
            return None
        return local

    def local(frame, event, arg):
        if event == 'line':
            n[0] += 1
            if not (k_lo <= n[0] < k_hi):
                return local
            dg = shared_digest()
            if dg != base and (not changes or changes[-1][1] != dg):
                changes.append((n[0], dg, frame.f_code.co_filename.split('/yaql/')[-1], frame.f_code.co_name, frame.f_lineno))
        return local
    CURRENT_CASE[0] = {'kind': 'monitor', 'stmt': i, 'doc': d}
    sys.settrace(tracer)
    try:
        try:
            w['st'][i].evaluate(data=DOCS[d], context=w['root'].create_child_context())
        except Exception:
            pass
    finally:
        sys.settrace(None)
    res.case(('monitor', i, d, k_lo))
    res.evaluations += 1
    covered = max(0, min(n[0] + 1, k_hi) - k_lo)
    res.states += covered
    res.transitions += covered
    res.nontrivial += 1
    res.outcomes['monitor ' + ('changed' if changes else 'constant')] += 1
    if changes:
        c = changes[0]
        res.fail('shared state written during evaluation at %s:%s' % (c[2], c[3]),
                 {'kind': 'monitor', 'stmt': i, 'doc': d, 'text': POOL[i]},
                 'digest of shared state changed at line event %d (%s:%s line %d); %d changes in total'
                 % (c[0], c[2], c[3], c[4], len(changes)))
    res.extra['monitor_line_events_checked'] = covered
    return res


def job_free_running(rounds):
    """SUPPLEMENTARY, never deciding: three free-running threads evaluate pool statements under a 1 microsecond switch
    interval; mismatches are reported as a NOTE and counted in the evidence only (not replayable)."""
    import threading
    res = Result()
    world()
    old = sys.getswitchinterval()
    sys.setswitchinterval(1e-6)
    bad = []
    try:
        for r in range(rounds):
            outs = {}

            def body(i):
                si = (r * 3 + i) % len(POOL)
                di = i % 3
                try:
                    outs[i] = (si, di, ('ok', evaluate(si, di)))
                except Exception as e:
                    outs[i] = (si, di, ('exc', type(e).__name__, str(e)[:300]))
            ths = [threading.Thread(target=body, args=(i,)) for i in range(3)]
            for th in ths:
                th.start()
            for th in ths:
                th.join()
            for i, (si, di, o) in outs.items():
                if o[:2] != baseline(si, di)[:2]:
                    bad.append((r, si, di, o))
    finally:
        sys.setswitchinterval(old)
    res.extra['free_running_rounds_supplementary'] = rounds
    res.extra['free_running_mismatches_supplementary'] = len(bad)
    if bad:
        res.notes.append('C18 supplementary free-running pass: %d mismatching evaluations, e.g. %r (not deciding)' % (len(bad), bad[0]))
    return res


def job_eval_path(pairs, bound):
    """yaql.eval(): module-level cached engine, expression cache and default context."""
    res = Result()
    install_hooks()
    import yaql as y
    y.eval('1')
    for (ia, da), (ib, db) in pairs:
        def mk(i, d):
            def body():
                return repr(y.eval(POOL[i], data=DOCS[d]))
            return body
        base = []
        for i, d in ((ia, da), (ib, db)):
            try:
                base.append(('ok', mk(i, d)()))
            except Exception as e:
                base.append(('exc', type(e).__name__, str(e)[:300]))

        def reset():
            y._cached_expressions = {}
        stats = [0]

        def check(x):
            res.evaluations += 1
            res.transitions += len(x.choices)
            res.states += 1
            if x.preemptions():
                res.nontrivial += 1
            if list(x.res) != base:
                stats[0] += 1
                res.fail('interference via yaql.eval module state',
                         {'kind': 'evalpath', 'a': [ia, da], 'b': [ib, db], 'choices': list(x.choices)},
                         'results %r alone %r' % (x.res, base), size=len(x.choices))
        res.case(('evalpath', ia, da, ib, db))
        sched.explore([mk(ia, da), mk(ib, db)], bound, check, reset=reset)
        res.outcomes['evalpath ' + ('violating' if stats[0] else 'clean')] += 1
    return res


EVAL_SIZES_Q = sorted(set([0, 1, 2, 3] + [2 ** e + d for e in range(2, 11) for d in (-1, 0, 1)]))
EVAL_SIZES_T = sorted(set(EVAL_SIZES_Q + [2 ** e + d for e in (11, 12) for d in (-1, 0, 1)] + [10, 100, 1000, 5000]))


def _eval_file(fn):
    return fn.replace('\\', '/').endswith('/yaql/__init__.py')


def job_eval_fine(sizes):
    """yaql.eval() at line granularity inside yaql/__init__.py, after a HISTORY of n distinct expressions already
    evaluated through it (a long-running host; sizes around the powers of two): thread A evaluates an expression
    the module has seen before and is preempted at its k-th line in yaql/__init__.py, thread B evaluates one it has
    not seen, A resumes.  Both must return what they return alone."""
    res = Result()
    import yaql as y
    ea, eb, da, db = POOL[16], POOL[17], DOCS[4], DOCS[5]

    def history(n):
        y._cached_expressions.clear()
        if n:
            y.eval(ea, data=da)
        for i in range(n - 1):
            y.eval('%d + 1' % (1000 + i))

    def body_a():
        return repr(y.eval(ea, data=da))

    def body_b():
        return repr(y.eval(eb, data=db))
    y.eval('1')
    for n in sizes:
        history(n)
        exp = [('ok', body_a()), None]
        history(n)
        exp[1] = ('ok', body_b())
        history(n)
        events = sched.count_line_events(body_a, _eval_file)
        res.case(('eval-fine', n))
        for k in range(1, events + 1):
            history(n)
            CURRENT_CASE[0] = {'kind': 'eval-fine', 'history': n, 'k': k}
            f = sched.FineExec(body_a, body_b, k, _eval_file).go()
            res.evaluations += 1
            res.transitions += 2
            res.states += 1
            res.nontrivial += 1
            if f.res != exp:
                history(n)
                f2 = sched.FineExec(body_a, body_b, k, _eval_file).go()
                res.fail('interference via yaql.eval module state (line granularity, after a history of evaluated expressions)',
                         {'kind': 'eval-fine', 'history': n, 'k': k, 'texts': [ea, eb]},
                         'after %d distinct expressions through yaql.eval(): A preempted at line event %d (%r): A->%r B->%r; alone %r; replay %r'
                         % (n, k, f.where, f.res[0], f.res[1], exp, f2.res), size=n * 100 + k)
                res.outcomes['eval-fine violating'] += 1
                break
            res.outcomes['eval-fine clean'] += 1
    y._cached_expressions.clear()
    return res


# ---------------------------------------------------------------------------
def jobs(tier, seed):
    out = []
    quick = tier == 'quick'
    core = CORE_Q if quick else list(range(DEEP))
    pairs = [((a, 0), (b, 1)) for a, b in itertools.combinations_with_replacement(core, 2)]
    nsh = 24 if quick else 64
    for s in range(nsh):
        part = pairs[s::nsh]
        if part:
            out.append(('coarse-pairs-%02d' % s, 'job_coarse', (part, 1 if quick else 2, 'pair', None if quick else 8000)))
    # deeper bound for selected pairs; each group is split into disjoint shards of its schedule tree
    deep = [((1, 0), (2, 1)), ((1, 0), (1, 1)), ((8, 0), (8, 1)), ((16, 4), (17, 5))]
    if not quick:
        deep += [((16, 4), (16, 5)), ((3, 3), (3, 3)), ((2, 3), (5, 3)), ((9, 0), (12, 1)), ((5, 3), (5, 3)), ((7, 3), (7, 3)), ((0, 3), (14, 3)), ((4, 3), (13, 3)), ((6, 3), (10, 3))]
    install_hooks()
    for gi, g in enumerate(deep):
        tot = sum(len(sched.Execution([lambda i=i, d=d: evaluate(i, d)], [], None).go().trace) for i, d in g)
        b = 2 if quick else 3
        while b > 1 and tot ** b > (25000 if quick else 150000):
            b -= 1
        if b < 2:
            continue          # covered at bound 1 by the pair jobs
        K = 6 if quick else 16
        for k in range(K):
            out.append(('coarse-deep-%d-%02d' % (gi, k), 'job_coarse', ([g], b, 'pair-deep', None, (k, K))))
    # interpreter-wide settings (recursion limit, switch interval, integer digit limit) are shared by all threads: a
    # statement that needs more stack than the default limit allows next to short ones, preemption bound 2
    for gi, g in enumerate([((DEEP, 3), (16, 3))] if quick else [((DEEP, 3), (16, 3)), ((DEEP, 3), (8, 0))]):
        K = 8 if quick else 16
        for k in range(K):
            out.append(('coarse-recursion-%d-%02d' % (gi, k), 'job_coarse', ([g], 2, 'pair-recursion', None, (k, K))))
    # what a prepared context holds besides the library: a function defined in YAQL called with keyword arguments only,
    # and a lazily sorted collection that is first iterated by two evaluations at once
    prepared = [(((KWCALL, 3), (KWCALL, 4)), 2), (((LAZY, 0), (LAZY, 0)), 1)]
    if not quick:
        prepared += [(((KWCALL, 3), (8, 0)), 2), (((LAZY, 0), (16, 3)), 2), (((LAZY, 0), (LAZY, 0)), 2), (((LAZY, 0), (LAZY, 0), (LAZY, 0)), 1)]
    for gi, (g, b) in enumerate(prepared):
        K = 4 if b == 2 else 1
        for k in range(K):
            out.append(('coarse-prepared-%d-%d' % (gi, k), 'job_coarse', ([g], b, 'pair-prepared', None, (k, K) if K > 1 else None)))
    tcore = [1, 2, 8] if quick else [1, 2, 5, 7, 8]
    triples = [((a, 0), (b, 1), (c, 2)) for a, b, c in itertools.combinations_with_replacement(tcore, 3)]
    if quick:
        triples = triples[:4]
    for s, g in enumerate(triples):
        out.append(('coarse-triple-%02d' % s, 'job_coarse', ([g], 1 if quick else 2, 'triple', None if quick else 20000)))
    if quick:
        fine = [((1, 0), (2, 1)), ((8, 0), (8, 1))]
    else:
        fine = [((a, 0), (b, 1)) for a, b in ((1, 2), (2, 1), (1, 1), (0, 14), (3, 3), (3, 4), (5, 5), (5, 2), (6, 7), (7, 7),
                                              (8, 8), (8, 0), (9, 12), (10, 10), (11, 14), (12, 8), (13, 1), (14, 0), (15, 15), (2, 15))]
    step = 600 if quick else 1500
    for (a, b) in fine:
        n = sched.count_line_events(lambda: evaluate(*a), _filter)
        for lo in range(1, n + 1, step):
            out.append(('fine-%d-%d-%05d' % (a[0], b[0], lo), 'job_fine', (a, b, lo, lo + step)))
    # the same on a cold shared context per schedule
    cold = [((1, 0), (1, 1))] if quick else \
        [((a, 0), (b, 1)) for a, b in ((1, 1), (1, 2), (7, 7), (10, 10), (8, 8), (3, 3))] + [((18, 3), (18, 3))]
    for (a, b) in cold:
        cold_root()
        n = sched.count_line_events(lambda: evaluate(*a), _filter)
        cstep = max(100, -(-n // 8)) if quick else 400
        for lo in range(1, n + 1, cstep):
            out.append(('fine-cold-%d-%d-%05d' % (a[0], b[0], lo), 'job_fine_cold', (a, b, lo, lo + cstep)))
    mstep = 2500
    for i, d in (MONITOR_Q if quick else [(i, 0) for i in range(len(POOL))]):
        n = sched.count_line_events(lambda: evaluate(i, d), _filter)
        for lo in range(1, n + 1, mstep):
            out.append(('monitor-%02d-%05d' % (i, lo), 'job_monitor', (i, d, lo, lo + mstep)))
    ep = [((1, 0), (2, 1)), ((8, 0), (8, 1))] if quick else [((a, 0), (b, 1)) for a, b in ((1, 2), (8, 8), (0, 14), (5, 5), (7, 6), (3, 3))]
    if not quick:
        out.append(('free-running-supplementary', 'job_free_running', (600,)))
    if quick:
        out.append(('evalpath', 'job_eval_path', (ep, 1)))
    else:
        for n, pair in enumerate(ep):
            out.append(('evalpath-%d' % n, 'job_eval_path', ([pair], 2)))
    sizes = EVAL_SIZES_Q if quick else EVAL_SIZES_T
    for k in range(4):
        out.append(('eval-fine-%d' % k, 'job_eval_fine', (sizes[k::4],)))
    # the measurements above evaluated statements in this (parent) process: workers must not inherit that world
    _S.clear()
    _base.clear()
    return out


def replay(case):
    k = case['kind']
    install_hooks()
    if k == 'coarse':
        g = [tuple(t) for t in case['threads']]
        bodies = [(lambda i=i, d=d: evaluate(i, d)) for i, d in g]
        x = sched.run_schedule(bodies, case['choices'], reset=fresh_lazy if any(i == LAZY for i, d in g) else None)
        exp = [baseline(i, d) for i, d in g]
        return {'observed': repr(x.res), 'expected': repr(exp),
                'ok': all(x.res[j][:2] == exp[j][:2] for j in range(len(g)))}
    if k == 'fine':
        a, b = tuple(case['a']), tuple(case['b'])
        f = sched.FineExec(lambda: evaluate(*a), lambda: evaluate(*b), case['k'], _filter).go()
        exp = [baseline(*a), baseline(*b)]
        return {'observed': repr(f.res), 'expected': repr(exp), 'where': repr(f.where),
                'ok': all(f.res[j][:2] == exp[j][:2] for j in range(2))}
    if k == 'fine-cold':
        a, b = tuple(case['a']), tuple(case['b'])
        exp = [baseline(*a), baseline(*b)]
        cold_root()
        f = sched.FineExec(lambda: evaluate(*a), lambda: evaluate(*b), case['k'], _filter).go()
        return {'observed': repr(f.res), 'expected': repr(exp), 'where': repr(f.where),
                'ok': all(f.res[j][:2] == exp[j][:2] for j in range(2))}
    if k == 'eval-fine':
        r = job_eval_fine([case['history']])
        return {'observed': [f.detail for f in r.failures.values()], 'expected': 'both evaluations as alone', 'ok': not r.failures}
    if k == 'monitor':
        r = job_monitor(case['stmt'], case['doc'])
        return {'observed': [f.detail for f in r.failures.values()], 'expected': 'no write to shared state',
                'ok': not r.failures}
    return {'ok': False, 'observed': 'run the check for %s cases' % k}
