"""C06 - resolution does not depend on registration or iteration order.

Permutation search over the real resolver.  A family is a multiset of 2-4
overloads of `foo` in ONE layer whose 1-2 parameters are typed over the lattice
Any > A > {B, C} > D, X unrelated (plus Lazy) such that every eager parameter
accepts the value it is called with (simultaneously matching candidates; a lazy
one in the family forces the laziness comparison).  Values are instances of A,
B, C, D, null, and e - an instance of a class below both D and X, so that a
parameter pair (D-chain type, X) is neutral for specificity and "more specific"
is not transitive inside the space.  Every call is spelled positionally, with
the last argument by keyword and with all arguments by keyword (`foo(x => $v)`);
for every family, call value and spelling the call is resolved under ALL n!
enumeration orders, commanded in three ways:

  list     a Context subclass whose get_functions returns the overloads in the commanded order
  multi    a MultiContext subclass doing the same, for every split of the family over two members
  set      an unmodified Context holding definitions whose hash is constant, registered in the
           commanded order: the real set then iterates in insertion order (asserted), so the
           registration order drives the real set-based code path

Keyword spellings go through the commanded list, directly
(`context(name, engine, receiver)(*args, **kwargs)`) and, for the small
families, also as parsed text (`foo(pa(0), y => pb('y'))`).

A second, small space mixes @no_kwargs overloads (among them one taking
*rules typed MappingRule) with ordinary ones in one layer: how `name => v` is
read must not depend on who is enumerated first.  There the keyword arguments
are handed over as the parser does it (positional mapping-rule expressions),
directly and through text.

Two more small spaces: definitions that share ONE python callable (made from
the same function with different parameter types / kinds), registered in every
order; and a MultiContext layer with exclusive members above a parent layer
that holds a competing overload, under both member orders.

Oracle (differential): one outcome - payload tag + evaluation log + received
arguments, or error class - per (family, call spelling), whatever the order,
driver and path.
"""
import itertools

import vf.loader  # noqa: F401
from vf.core import Result
from vf import resolution as R
from models import resolve as M

from yaql.language import contexts, specs, yaqltypes

ID = 'C06'
TITLE = 'resolution is order independent'
RULE = ('all (family, call value(s), function/method syntax, positional/keyword spelling) within the bound, each resolved '
        'under every permutation of the enumeration order x {commanded list, every 2-member MultiContext split, '
        'registration order into the real set; for keyword spellings: commanded list, direct and text}; a case is distinct by '
        '(signatures, values, syntax, spelling) and non-trivial when at least two candidates survive the type filter '
        '(all of them, by construction, unless a lazy parameter makes the family ambiguous)')
ASSUMPTIONS = ['a CPython set whose elements all have the same hash iterates in insertion order (asserted on every use)',
               'every enumeration order of a layer can occur: the overload set is keyed by object identity (addresses)']
BOUNDS = {
    'quick': '1 parameter: multisets of 2-4 signatures, values a b c d e null, function and method syntax; '
             '2 parameters: multisets of 2-3 signatures for all 25 value pairs over a b c d null (function syntax; method syntax for 2) '
             'and, eager signatures only, for the pairs (d,e) (e,d) (e,e) where the unrelated type X occurs; '
             'positional spelling: all n! orders as commanded list and as registration order into the real set for every family, '
             'all MultiContext splits for 1 parameter n <= 3 and 2 parameters n = 2 (not for the e pairs); '
             'keyword spellings (last argument / all arguments by keyword): all n! orders as commanded list for every family, '
             'also through text for n = 2 and for 1 parameter n = 3; '
             '@no_kwargs mixing: multisets of 2-3 of 5 @no_kwargs shapes [*r:Rule, (), x:Any, x:A, (x,y)] and 5 ordinary shapes '
             '[(), x:Any, x:A, (x:Any, y:A=default), (x,y)] with at least one @no_kwargs x 11 calls (empty, positional, k => v, '
             'unknown keyword) x all orders x {list, set, text}; '
             'shared callable: multisets of 2-3 definitions (type x kind) made from one python function, values a b d, both syntaxes, all orders x {list, set}, and two such definitions next to a third with a callable of its own; MultiContext exclusivity: 1-2 overloads per member typed over Any A B C D, exclusive flags (T,F) (F,T) (T,T), parent overload Any|Lazy, values b d, both member orders x all enumeration orders; one plain layer: 2-3 overloads typed over Any A B C D registered with every mix of exclusive flags (at least one True) in every registration order, parent overload Any|Lazy, values b d',
    'thorough': 'as quick plus MultiContext splits for every family of quick, method syntax for 2 parameters n = 3, '
                'all 11 value pairs containing e with lazy signatures, and 2 parameters n = 4: all sets of 4 distinct eager signatures '
                'for the value pairs over {d, null}, multisets of 4 for (d, d) (list and set drivers, all spellings)',
}

LAT = R.LAT6
ORDER = ['Any', 'A', 'B', 'C', 'D', 'X']
VALUES = ['a', 'b', 'c', 'd', 'n']


def types_for(v):
    if v == 'n':
        return ORDER[:5] + ['Lazy']        # null: every nullable type accepts it (X is kept for the value e)
    return [t for t in ORDER if LAT.accepts(t, False, v)] + ['Lazy']


def signatures(values, lazy=True):
    per = [[t for t in types_for(v) if lazy or t != 'Lazy'] for v in values]
    return list(itertools.product(*per))


def overload(i, sig, values):
    params = tuple((('x', 'y')[k], 'pos', t, t == 'Lazy' or values[k] == 'n', False) for k, t in enumerate(sig))
    return ('t%d' % i, params, 'function' if sig[0] == 'Lazy' else 'ext', False)   # a method cannot start with a lazy parameter


def spellings(values, method):
    """Which arguments travel by keyword: none, the last one, all of them."""
    free = len(values) - (1 if method else 0)
    return ['pos', 'mixed', 'kw'][:free + 1]


def call_for(values, method, spelling='pos'):
    recv = ('val', values[0]) if method else None
    named = [(('x', 'y')[k], ('var', v)) for k, v in enumerate(values)][1 if method else 0:]
    by_keyword = {'pos': 0, 'mixed': 1, 'kw': len(named)}[spelling]
    cut = len(named) - by_keyword
    return (recv, tuple(item for name, item in named[:cut]), tuple(named[cut:]))


# ---------------------------------------------------------------------------
# the three ways of commanding an enumeration order
# ---------------------------------------------------------------------------
class CommandedContext(contexts.Context):
    command = ()

    def get_functions(self, name, predicate=None, use_convention=False):
        found, exclusive = super(CommandedContext, self).get_functions(name, predicate, use_convention)
        return [fd for fd in self.command if fd in found], exclusive


class CommandedMulti(contexts.MultiContext):
    command = ()

    def get_functions(self, name, predicate=None, use_convention=False):
        found, exclusive = super(CommandedMulti, self).get_functions(name, predicate, use_convention)
        return [fd for fd in self.command if fd in found], exclusive


class ConstHashDefinition(specs.FunctionDefinition):
    """Same definition, but all instances collide: a set of them iterates in insertion order."""
    __slots__ = ()

    def __hash__(self):
        return 0


_const = {}


def const_hash(fd):
    c = _const.get(id(fd))
    if c is None:
        c = _const[id(fd)] = ConstHashDefinition(fd.name, fd.payload, fd.parameters, fd.doc, fd.meta,
                                                 fd.is_function, fd.is_method, fd.no_kwargs)
    return c


_state = {}


def base():
    if 'base' not in _state:
        _state['base'] = R.base_context('c06', R.VALUES6)
    return _state['base']


def outcomes(sigs, values, method, drivers, spelling='pos'):
    call = call_for(values, method, spelling)
    ovs = tuple(overload(i, s, values) for i, s in enumerate(sigs))
    return observe_orders(ovs, call, drivers), ((False, ovs),), call


def observe_orders(ovs, call, drivers, rules=False, fds=None):
    """{(driver, detail, order): observation} for all enumeration orders of the
    overloads `ovs` of one layer.  rules=True: keyword arguments travel as the
    parser hands them over (positional `name => expr` expressions)."""
    fds = fds or [R.definition(o, R.CLASSES6) for o in ovs]
    n = len(fds)
    perms = list(itertools.permutations(range(n)))
    out = {}
    if 'list' in drivers:
        ctx = CommandedContext(base())
        for fd in fds:
            ctx.register_function(fd)
        for p in perms:
            ctx.command = [fds[i] for i in p]
            out[('list', '', p)] = R.direct(ctx, call, R.VALUES6, rules)
            if 'text' in drivers:
                out[('text', '', p)] = R.textual(ctx, call)
    if 'multi' in drivers:
        for split in itertools.product((0, 1), repeat=n):
            if len(set(split)) < 2:
                continue
            members = [contexts.Context(base()), contexts.Context(base())]
            for fd, m in zip(fds, split):
                members[m].register_function(fd)
            ctx = CommandedMulti(members)
            for p in perms:
                ctx.command = [fds[i] for i in p]
                out[('multi', ''.join(map(str, split)), p)] = R.direct(ctx, call, R.VALUES6)
    if 'set' in drivers:
        cfds = [const_hash(fd) for fd in fds]
        for p in perms:
            ctx = contexts.Context(base())
            for i in p:
                ctx.register_function(cfds[i])
            stored = list(ctx.get_functions('foo')[0])
            if stored != [cfds[i] for i in p if cfds[i] in stored]:
                raise AssertionError('harness: the set does not iterate in insertion order')
            out[('set', '', p)] = R.direct(ctx, call, R.VALUES6, rules)
    return out


SINGLE_PASS_KEY = ('order-dependent winner: single left-to-right pass in choose_overload '
                   '(a match is compared only with the current winner; an incomparable or equal pair met first raises Ambiguous '
                   'although a later candidate specialises every other)')


def classes(observations):
    return ' / '.join(sorted(set(o[0][0] if o[0][0] == 'run' else o[0][1] for o in observations)))


def drivers_for(sigs, values, drivers, spelling):
    if spelling == 'pos':
        return tuple(drivers)
    small = len(sigs) == 2 or (len(values) == 1 and len(sigs) == 3)
    return ('list', 'text') if small else ('list',)


def judge(res, sigs, values, method, drivers):
    for spelling in spellings(values, method):
        judge_spelling(res, sigs, values, method, drivers_for(sigs, values, drivers, spelling), spelling)


def judge_spelling(res, sigs, values, method, drivers, spelling):
    res.case((sigs, values, method, spelling))
    obs, layers, call = outcomes(sigs, values, method, drivers, spelling)
    size = (len(sigs), len(values), method, spelling != 'pos',
            sum(ORDER.index(t) if t in ORDER else 9 for sg in sigs for t in sg), values)
    verdict(res, obs, layers, call, drivers, '',
            {'signatures': sigs, 'values': values, 'method': method, 'spelling': spelling, 'drivers': sorted(drivers),
             'text': R.text_of(call)}, size)


def verdict(res, obs, layers, call, drivers, note, case, size):
    """One outcome per (family, call) over all orders, drivers and paths."""
    res.evaluations += len(obs)
    res.transitions += len(obs)
    res.nontrivial += 1
    ovs = layers[0][1]
    spelled = 'keyword' if call[2] else 'positional'
    distinct = sorted(set(obs.values()), key=repr)
    res.outcomes['n=%d %s%s %s' % (len(ovs), spelled, note and ' ' + note, classes(distinct))] += 1
    if len(distinct) == 1:
        return
    explained = all(
        o == _expected(((False, tuple(ovs[i] for i in p)),), call, (M.SINGLE_PASS,))
        for (driver, detail, p), o in obs.items())
    by = {}
    for (driver, detail, p), o in sorted(obs.items()):
        by.setdefault(repr(o[0]), []).append('%s%s:%s' % (driver, detail and '/' + detail, ''.join(map(str, p))))
    if explained:
        key = SINGLE_PASS_KEY
    else:
        varying = sorted(d for d in drivers if len(set(o for k, o in obs.items() if k[0] == d)) > 1)
        where = 'every driver' if varying == sorted(drivers) else '+'.join(varying) or 'no single driver (the drivers disagree with each other)'
        key = 'order-dependent outcome (not the single-pass pattern)%s; %s arguments%s; varies within %s' % (
            '' if note else ': ' + classes(distinct), spelled, note and ', ' + note, where)
    res.fail(key, case,
             'outcomes by order: %s; model (most specific of all matches): %r'
             % ('; '.join('%s <- %s' % (k, ' '.join(v[:8]) + (' ...' if len(v) > 8 else '')) for k, v in sorted(by.items())),
                _expected(layers, call)[0]), size=size)


def _expected(layers, call, relaxed=()):
    outcome, evaluated, binding = M.resolve(LAT, layers, call, relaxed)
    return outcome, evaluated, None if binding is None else R.render(binding)


# ---------------------------------------------------------------------------
# enumeration
# ---------------------------------------------------------------------------
def families(tier):
    """(signatures, values, method, drivers), simplest first."""
    thorough = tier == 'thorough'
    every = ('list', 'multi', 'set')
    plain = ('list', 'set')
    out = []
    for v in VALUES + ['e']:
        sigs = signatures((v,))
        for n in (2, 3, 4):
            for fam in itertools.combinations_with_replacement(sigs, n):
                for method in (False, True):
                    if not method or all(s[0] != 'Lazy' for s in fam):
                        out.append((fam, (v,), method, every if n <= 3 or thorough else plain))
    for vs in itertools.product(VALUES, repeat=2):
        sigs = signatures(vs)
        for n in (2, 3):
            for fam in itertools.combinations_with_replacement(sigs, n):
                out.append((fam, vs, False, every if n == 2 or thorough else plain))
                if (n == 2 or thorough) and all(s[0] != 'Lazy' for s in fam):
                    out.append((fam, vs, True, every if n == 2 else plain))
    with_e = [vs for vs in itertools.product(VALUES + ['e'], repeat=2) if 'e' in vs]
    for vs in with_e if thorough else [('d', 'e'), ('e', 'd'), ('e', 'e')]:
        sigs = signatures(vs, lazy=thorough)
        for n in (2, 3):
            for fam in itertools.combinations_with_replacement(sigs, n):
                out.append((fam, vs, False, plain))
                if n == 2 and thorough and all(s[0] != 'Lazy' for s in fam):
                    out.append((fam, vs, True, plain))
    if thorough:
        for vs in itertools.product('dn', repeat=2):
            eager = signatures(vs, lazy=False)
            if vs == ('d', 'd'):
                fams = itertools.combinations_with_replacement(eager, 4)
            else:
                fams = itertools.combinations(eager, 4)
            for fam in fams:
                out.append((fam, vs, False, plain))
    return out


# @no_kwargs overloads next to ordinary ones: how `name => v` is read must not depend on who is enumerated first
def P(name, kind, typ, nullable=False, default=False):
    return (name, kind, typ, nullable, default)


NO_KWARGS_SHAPES = [(P('r', 'varargs', 'Rule'),), (), (P('x', 'pos', 'Any'),), (P('x', 'pos', 'A'),),
                    (P('x', 'pos', 'Any'), P('y', 'pos', 'Any'))]
ORDINARY_SHAPES = [(), (P('x', 'pos', 'Any'),), (P('x', 'pos', 'A'),), (P('x', 'pos', 'Any'), P('y', 'pos', 'A', False, True)),
                   (P('x', 'pos', 'Any'), P('y', 'pos', 'Any'))]
A_, N_, ONE = ('var', 'a'), ('var', 'n'), ('const', 1)
MIXED_CALLS = [(None, (), ()), (None, (A_,), ()), (None, (N_,), ()), (None, (ONE,), ()), (None, (A_, A_), ()),
               (None, (), (('x', A_),)), (None, (), (('x', ONE),)), (None, (A_,), (('y', A_),)),
               (None, (), (('x', A_), ('y', A_))), (None, (), (('zz', A_),)), (None, (A_,), (('zz', A_),))]


def mixed_families():
    """Multisets of 2-3 shapes of which at least one is @no_kwargs (all-@no_kwargs families included)."""
    shapes = [(s, True) for s in NO_KWARGS_SHAPES] + [(s, False) for s in ORDINARY_SHAPES]
    for n in (2, 3):
        for fam in itertools.combinations_with_replacement(range(len(shapes)), n):
            if any(shapes[i][1] for i in fam):
                yield fam, tuple(('t%d' % k, shapes[i][0], 'function', shapes[i][1]) for k, i in enumerate(fam))


def job_mixed(tier):
    res = Result()
    drivers = ('list', 'set', 'text')
    for fam, ovs in mixed_families():
        note = '@no_kwargs next to ordinary overloads' if len(set(o[3] for o in ovs)) > 1 else 'all @no_kwargs'
        for ci, call in enumerate(MIXED_CALLS):
            res.case(('mixed', fam, ci))
            obs = observe_orders(ovs, call, drivers, rules=True)
            verdict(res, obs, ((False, ovs),), call, drivers, note,
                    {'overloads': ovs, 'call': call, 'drivers': sorted(drivers), 'text': R.text_of(call)},
                    (len(ovs), 3, False, bool(call[2]), sum(fam), ci))
            if call[2]:
                # the same call through the host API with python keyword arguments (not mapping-rule expressions)
                res.case(('mixed-pykw', fam, ci))
                obs = observe_orders(ovs, call, ('list', 'set'), rules=False)
                verdict(res, obs, ((False, ovs),), call, ('list', 'set'), note + ', python **kwargs through the host API',
                        {'overloads': ovs, 'call': call, 'drivers': ['list', 'set'], 'text': R.text_of(call), 'pykw': True},
                        (len(ovs), 3, False, True, sum(fam), ci))
    return res


# several definitions made from ONE python callable (different parameter types / kinds)
def _shared_payload(x):
    return R.report('s', (('x', x),))


_shared = {}


def shared_definition(slot, typ, kind):
    key = (slot, typ, kind)
    if key not in _shared:
        _shared[key] = specs.get_function_definition(
            _shared_payload, name='foo', convention=R.CONVENTION,
            parameter_type_func=lambda name: yaqltypes.PythonType(R.CLASSES6[typ], False),
            function=kind != 'method', method=kind != 'function')
    return _shared[key]


def shared_families():
    for v in ('a', 'b', 'd'):
        members = [(t, kind) for t in types_for(v)[:-1] for kind in ('function', 'method', 'ext')]
        for n in (2, 3):
            for fam in itertools.combinations_with_replacement(members, n):
                yield v, fam


def job_shared(tier):
    res = Result()
    drivers = ('list', 'set')
    for v, fam in shared_families():
        ovs = tuple(('s', (P('x', 'pos', t),), kind, False) for t, kind in fam)
        fds = [shared_definition(i, t, kind) for i, (t, kind) in enumerate(fam)]
        for method in (False, True):
            call = call_for((v,), method)
            res.case(('shared', v, fam, method))
            obs = observe_orders(ovs, call, drivers, fds=fds)
            verdict(res, obs, ((False, ovs),), call, drivers, 'definitions sharing one python callable',
                    {'shared_payload': fam, 'value': v, 'method': method, 'drivers': sorted(drivers)},
                    (len(fam), 1, method, False, sum(ORDER.index(t) for t, kind in fam), v))
    return res


# two definitions sharing one python callable next to a third definition with a callable of its own
def job_shared_mixed(tier):
    res = Result()
    drivers = ('list', 'set')
    for v in ('a', 'b', 'd'):
        ts = types_for(v)[:-1]
        for t1, t2 in itertools.combinations_with_replacement(ts, 2):
            for t3 in ts:
                for kind in ('function', 'ext'):
                    fam = ((t1, kind), (t2, kind))
                    own = ('o', (P('x', 'pos', t3),), kind, False)
                    ovs = tuple(('s', (P('x', 'pos', t),), k, False) for t, k in fam) + (own,)
                    fds = [shared_definition(i, t, k) for i, (t, k) in enumerate(fam)] + [R.definition(own, R.CLASSES6)]
                    for method in ((False, True) if kind == 'ext' else (False,)):
                        call = call_for((v,), method)
                        res.case(('shared-mixed', v, fam, t3, method))
                        obs = observe_orders(ovs, call, drivers, fds=fds)
                        verdict(res, obs, ((False, ovs),), call, drivers,
                                'two definitions sharing one python callable next to a definition of its own',
                                {'shared_mixed': [list(fam), t3, kind], 'value': v, 'method': method, 'drivers': sorted(drivers)},
                                (3, 1, method, False, sum(ORDER.index(t) for t in (t1, t2, t3)), v))
    return res


# a MultiContext layer with an exclusive member above a parent layer that competes
def multi_exclusive_families():
    for v in ('b', 'd'):
        for n, splits in ((2, ((0, 1),)), (3, ((0, 0, 1), (0, 1, 1)))):
            for types in itertools.product(ORDER[:5], repeat=n):
                for split in splits:
                    for flags in ((True, False), (False, True), (True, True)):
                        for parent in ('Any', 'Lazy'):
                            yield v, types, split, flags, parent


def observe_multi_exclusive(v, types, split, flags, parent):
    ovs = tuple(('t%d' % i, (P('x', 'pos', t),), 'function', False) for i, t in enumerate(types))
    pov = ('p', (P('x', 'pos', parent, parent == 'Lazy'),), 'function', False)
    fds = [R.definition(o, R.CLASSES6) for o in ovs]
    call = call_for((v,), False)
    out = {}
    for member_order in ((0, 1), (1, 0)):
        below = contexts.Context(base())
        below.register_function(R.definition(pov, R.CLASSES6))
        members = [contexts.Context(below), contexts.Context(below)]
        for fd, m in zip(fds, split):
            members[m].register_function(fd, exclusive=flags[m])
        ctx = CommandedMulti([members[m] for m in member_order])
        for p in itertools.permutations(range(len(fds))):
            ctx.command = [fds[i] for i in p]
            out[('multi', 'members%d%d' % member_order, p)] = R.direct(ctx, call, R.VALUES6)
    return out, ((True, ovs), (False, (pov,))), call


def job_multi_exclusive(tier):
    res = Result()
    for fam in multi_exclusive_families():
        res.case(('multi-exclusive',) + fam)
        obs, layers, call = observe_multi_exclusive(*fam)
        v, types, split, flags, parent = fam
        verdict(res, obs, layers, call, ('multi',), 'MultiContext layer with an exclusive member above a competing parent layer',
                {'multi_exclusive': fam}, (len(types), 1, False, False, sum(ORDER.index(t) for t in types), fam))
    return res


# one plain layer whose overloads were registered with different exclusive flags, in every registration order,
# above a parent layer that competes: the layer is exclusive as soon as one registration said so, whichever came first
def plain_exclusive_families():
    for v in ('b', 'd'):
        for n in (2, 3):
            for types in itertools.product(ORDER[:5], repeat=n):
                for flags in itertools.product((False, True), repeat=n):
                    if not any(flags):
                        continue
                    for parent in ('Any', 'Lazy'):
                        yield v, types, flags, parent


def observe_plain_exclusive(v, types, flags, parent):
    ovs = tuple(('t%d' % i, (P('x', 'pos', t),), 'function', False) for i, t in enumerate(types))
    pov = ('p', (P('x', 'pos', parent, parent == 'Lazy'),), 'function', False)
    fds = [R.definition(o, R.CLASSES6) for o in ovs]
    call = call_for((v,), False)
    out = {}
    for p in itertools.permutations(range(len(fds))):
        below = contexts.Context(base())
        below.register_function(R.definition(pov, R.CLASSES6))
        layer = contexts.Context(below)
        for i in p:
            layer.register_function(fds[i], exclusive=flags[i])
        out[('plain', 'registered', p)] = R.direct(layer, call, R.VALUES6)
    return out, ((True, ovs), (False, (pov,))), call


def job_plain_exclusive(tier):
    res = Result()
    for fam in plain_exclusive_families():
        res.case(('plain-exclusive',) + fam)
        obs, layers, call = observe_plain_exclusive(*fam)
        v, types, flags, parent = fam
        verdict(res, obs, layers, call, ('plain',), 'layer with exclusive and plain registrations of one name above a competing parent layer',
                {'plain_exclusive': fam}, (len(types), 1, False, False, sum(ORDER.index(t) for t in types), fam))
    return res


def job(tier, k, of):
    res = Result()
    fams = families(tier)[k::of]
    for sigs, values, method, drivers in fams:
        judge(res, sigs, values, method, drivers)
    if fams:
        sigs, values, method, drivers = fams[len(fams) // 2]
        res.sample({'signatures': repr(sigs), 'values': values, 'method': method,
                    'orders': len(list(itertools.permutations(sigs)))})
    return res


def jobs(tier, seed):
    of = 32 if tier == 'quick' else 64
    return ([('families-%02d' % k, 'job', (tier, k, of)) for k in range(of)] +
            [('mixed-no-kwargs', 'job_mixed', (tier,)), ('shared-payload', 'job_shared', (tier,)), ('shared-mixed', 'job_shared_mixed', (tier,)),
             ('multi-exclusive', 'job_multi_exclusive', (tier,)), ('plain-exclusive', 'job_plain_exclusive', (tier,))])


def _tuples(v):
    return tuple(_tuples(x) for x in v) if isinstance(v, list) else v


def replay(case):
    if 'overloads' in case:
        ovs, call = _tuples(case['overloads']), _tuples(case['call'])
        layers = ((False, ovs),)
        obs = observe_orders(ovs, call, set(case['drivers']), rules=not case.get('pykw'))
    elif 'shared_payload' in case:
        fam = _tuples(case['shared_payload'])
        ovs = tuple(('s', (P('x', 'pos', t),), kind, False) for t, kind in fam)
        layers, call = ((False, ovs),), call_for((case['value'],), case['method'])
        obs = observe_orders(ovs, call, set(case['drivers']),
                             fds=[shared_definition(i, t, kind) for i, (t, kind) in enumerate(fam)])
    elif 'shared_mixed' in case:
        fam, t3, kind = case['shared_mixed']
        fam = tuple(tuple(x) for x in fam)
        own = ('o', (P('x', 'pos', t3),), kind, False)
        ovs = tuple(('s', (P('x', 'pos', t),), k, False) for t, k in fam) + (own,)
        layers, call = ((False, ovs),), call_for((case['value'],), case['method'])
        obs = observe_orders(ovs, call, set(case['drivers']),
                             fds=[shared_definition(i, t, k) for i, (t, k) in enumerate(fam)] + [R.definition(own, R.CLASSES6)])
    elif 'multi_exclusive' in case:
        obs, layers, call = observe_multi_exclusive(*_tuples(case['multi_exclusive']))
    elif 'plain_exclusive' in case:
        obs, layers, call = observe_plain_exclusive(*_tuples(case['plain_exclusive']))
    else:
        sigs = tuple(tuple(s) for s in case['signatures'])
        values = tuple(case['values'])
        obs, layers, call = outcomes(sigs, values, case['method'], set(case['drivers']), case.get('spelling', 'pos'))
    table = {}
    for (driver, detail, p), o in sorted(obs.items()):
        table['%s%s:%s' % (driver, detail and '/' + detail, ''.join(map(str, p)))] = repr(o)
    return {'observed': table, 'expected': 'one outcome for all orders; model: %r' % (_expected(layers, call),),
            'ok': len(set(obs.values())) == 1}
