"""Reference model of yaql's string functions (property C19).

Written from the docstrings of yaql/standard_library/strings.py (quoted per
function) and the property statement ("negative values counting from the
end").  Imports nothing from yaql and deliberately does not delegate to
str.find/rfind/split/rsplit/strip/replace/startswith - the implementation is a
thin wrapper around exactly those, so the model spells the documented meaning
out with loops.

A result is ('v', value) | ('e', 'nomatch') | None (= outside the documented
domain: enumerated, counted, never judged).
"""

NOMATCH = ('e', 'nomatch')


def V(x):
    return ('v', x)


# --------------------------------------------------------------------------
# positions
# --------------------------------------------------------------------------
def _from_end(n, start):
    """Property statement: a negative start counts from the end.  Starts
    below -len are outside the quantifier (start in [-len, len+2])."""
    if start < -n:
        return None
    return start + n if start < 0 else start


def substring(s, start, length=-1):
    """'Returns a substring beginning from start index ...  length: -1 by
    default, which means end of substring to be equal to the end of input
    string.'  Other negative lengths are not documented."""
    n = len(s)
    start = _from_end(n, start)
    if start is None or length < -1:
        return None
    out = []
    i = start
    while i < n and (length == -1 or len(out) < length):
        out.append(s[i])
        i += 1
    return V(''.join(out))


def _occurrences(s, sub, lo, hi):
    """Positions i with lo <= i and i + len(sub) <= hi at which sub occurs."""
    m = len(sub)
    return [i for i in range(lo, hi - m + 1) if s[i:i + m] == sub]


def _window(s, start, length):
    n = len(s)
    start = _from_end(n, start)
    if start is None:
        return None
    if length is None or length == -1:
        # 2-argument form: "beginning from start"; -1 = up to the end of the
        # string (convention documented for substring, applied to the family)
        return start, n
    if length < -1:
        return None
    return start, min(start + length, n)


def index_of(s, sub, start=0, length=None):
    """'Returns an index of first occurrence sub in string beginning from
    start [ending with start+length].  -1 is a return value if there is no
    any occurrence.'"""
    w = _window(s, start, length)
    if w is None:
        return None
    occ = _occurrences(s, sub, w[0], w[1])
    return V(occ[0] if occ else -1)


def last_index_of(s, sub, start=0, length=None):
    """'Returns an index of last occurrence sub in string beginning from
    start [ending with start+length].  -1 ... if there is no any occurrence.'"""
    w = _window(s, start, length)
    if w is None:
        return None
    occ = _occurrences(s, sub, w[0], w[1])
    return V(occ[-1] if occ else -1)


# --------------------------------------------------------------------------
# split / join
# --------------------------------------------------------------------------
def is_space(c):
    # "whitespace characters": the Unicode White_Space notion of the host
    # language (CPython's table is the trusted reference)
    return c.isspace()


def _split_ws(s, max_splits):
    out = []
    i, n = 0, len(s)
    while True:
        while i < n and is_space(s[i]):
            i += 1
        if i == n:
            return out
        if max_splits != -1 and len(out) == max_splits:
            out.append(s[i:])        # the rest is the last token
            return out
        j = i
        while j < n and not is_space(s[j]):
            j += 1
        out.append(s[i:j])
        i = j


def _split_sep(s, sep, max_splits):
    out = []
    m, n = len(sep), len(s)
    i = cur = 0
    while i <= n - m:
        if (max_splits == -1 or len(out) < max_splits) and s[i:i + m] == sep:
            out.append(s[cur:i])
            i += m
            cur = i
        else:
            i += 1
    out.append(s[cur:])
    return out


def split(s, sep=None, max_splits=-1):
    """'Returns a list of tokens in the string, using separator as the
    delimiter.  separator: null by default, which means splitting with
    whitespace characters.  maxSplits: -1 by default, which means all possible
    splits are done.'  An empty separator and maxSplits < -1 are undocumented."""
    if max_splits < -1 or sep == '':
        return None
    if sep is None:
        return V(_split_ws(s, max_splits))
    return V(_split_sep(s, sep, max_splits))


def right_split(s, sep=None, max_splits=-1):
    """'... If maxSplits is given then at most maxSplits splits are done - the
    rightmost ones.'  = split of the mirrored string, mirrored back."""
    if max_splits < -1 or sep == '':
        return None
    r = s[::-1]
    parts = _split_ws(r, max_splits) if sep is None else _split_sep(r, sep[::-1], max_splits)
    return V([p[::-1] for p in reversed(parts)])


def join(seq, sep):
    """'Returns a string with sequence elements joined by the separator.'
    argType: sequence of strings (other element types are not modelled)."""
    if not all(isinstance(x, str) for x in seq):
        return None
    out = ''
    for k, x in enumerate(seq):
        out += (sep if k else '') + x
    return V(out)


# --------------------------------------------------------------------------
# trim family
# --------------------------------------------------------------------------
def _strip(s, chars, left, right):
    strip_it = is_space if chars is None else (lambda c: c in chars)
    i, j = 0, len(s)
    while left and i < j and strip_it(s[i]):
        i += 1
    while right and j > i and strip_it(s[j - 1]):
        j -= 1
    return s[i:j]


def trim(s, chars=None):
    """'Returns a string with the leading and trailing chars removed.  chars:
    null by default, which means trim is done with whitespace characters.'"""
    return V(_strip(s, chars, True, True))


def trim_left(s, chars=None):
    return V(_strip(s, chars, True, False))


def trim_right(s, chars=None):
    return V(_strip(s, chars, False, True))


def norm(s, chars=None):
    """'... If the resulting string is empty, returns null.'  (receiver is
    nullable: null stays null)"""
    if s is None:
        return V(None)
    r = _strip(s, chars, True, True)
    return V(r if r != '' else None)


def is_empty(s, trim_spaces=True, chars=None):
    """'Returns true if the string with removed leading and trailing chars is
    empty.  trim: true by default, which means string to be trimmed with
    chars.  false means checking whether input string is empty.'  (null
    receiver is empty)"""
    if s is None:
        return V(True)
    return V((_strip(s, chars, True, True) if trim_spaces else s) == '')


# --------------------------------------------------------------------------
# replace
# --------------------------------------------------------------------------
def replace(s, old, new, count=-1):
    """'Returns a string with first count occurrences of old replaced with
    new.  count: -1 by default, which means to do all replacements.'  An empty
    `old` and counts below -1 are undocumented."""
    if old == '' or count < -1:
        return None
    out = ''
    i, done, m = 0, 0, len(old)
    while i < len(s):
        if (count == -1 or done < count) and s[i:i + m] == old:
            out += new
            i += m
            done += 1
        else:
            out += s[i]
            i += 1
    return V(out)


def replace_dict(s, pairs, count=-1):
    """'Returns a string with all occurrences of replacements' keys replaced
    with corresponding replacements' values.  If count is specified, only the
    first count occurrences of every key are replaced.'  The three docstring
    examples ({abc=>xx, ab=>yy} -> "xx yy xx", {ab=>yy, abc=>xx} -> "yyc yy
    yyc", count 1 -> "yyc ab xx") fix the meaning: the entries are applied one
    after another in dictionary order.  `pairs` is the ordered list of the
    dictionary's (key, value) entries.  Keys and values need not be strings
    ("dict of replacements in format {old => new ...}", the library's own test
    replaces {1 => y, 2 => false, null => '!'}): an entry stands for the string
    representations (str_) of its key and its value, and every ENTRY of the
    dictionary is applied - two different keys that are spelled alike (1 and
    '1') are two entries.  A key or value without a documented string
    representation, or one spelled as the empty string, is outside the domain."""
    for k, v in pairs:
        old, new = str_(k), str_(v)
        if old is None or new is None:
            return None
        r = replace(s, old[1], new[1], count)
        if r is None:
            return None
        s = r[1]
    return V(s)


# --------------------------------------------------------------------------
# simple ones
# --------------------------------------------------------------------------
def to_upper(s):
    """'all case-based characters uppercase' - Unicode case mapping of the
    host language is the reference."""
    return V(s.upper())


def to_lower(s):
    return V(s.lower())


def starts_with(s, *prefixes):
    """'Returns true if a string starts with any of given args.'"""
    return V(any(s[:len(p)] == p for p in prefixes))


def ends_with(s, *suffixes):
    return V(any(len(p) <= len(s) and s[len(s) - len(p):] == p for p in suffixes))


def to_char_array(s):
    """'Converts a string to array of one character strings.'"""
    return V([c for c in s])


def len_(s):
    n = 0
    for _ in s:
        n += 1
    return V(n)


def concat(*parts):
    out = ''
    for p in parts:
        out += p
    return V(out)


def repeat(s, n):
    """'Returns string repeated count times.'  Negative counts undocumented."""
    if n < 0:
        return None
    out = ''
    for _ in range(n):
        out += s
    return V(out)


def contains(sub, s):
    """operator in: 'true if there is at least one occurrence of left string
    in right'."""
    return V(len(_occurrences(s, sub, 0, len(s))) > 0)


def compare(op, a, b):
    """'ordering lexicographically' - by code points."""
    ka, kb = [ord(c) for c in a], [ord(c) for c in b]
    return V({'<': ka < kb, '<=': ka <= kb, '>': ka > kb, '>=': ka >= kb,
              '=': ka == kb, '!=': ka != kb}[op])


def str_(v):
    """'Returns a string representation of the value.'  null/true/false are
    spelled the YAQL way; integers in decimal, floats as the host prints
    them; containers are undocumented (the docstring example is a Python 2
    repr)."""
    if v is None:
        return V('null')
    if v is True:
        return V('true')
    if v is False:
        return V('false')
    if isinstance(v, str):
        return V(v)
    if isinstance(v, int):
        digits = ''
        n = abs(v)
        while True:
            digits = '0123456789'[n % 10] + digits
            n //= 10
            if n == 0:
                break
        return V(('-' if v < 0 else '') + digits)
    if isinstance(v, float):
        return V(repr(v))
    return None


def hex_(n):
    """'Returns a string with hexadecimal representation of num' -
    hex(256) = "0x100".  Only integers have a documented spelling; a boolean
    is not a number."""
    if isinstance(n, bool):
        return NOMATCH
    if not isinstance(n, int):
        return None
    digits = ''
    m = abs(n)
    while True:
        digits = '0123456789abcdef'[m % 16] + digits
        m //= 16
        if m == 0:
            break
    return V(('-' if n < 0 else '') + '0x' + digits)


# --------------------------------------------------------------------------
# characters(...)
# --------------------------------------------------------------------------
_DIGITS = '0123456789'
_LOWER = 'abcdefghijklmnopqrstuvwxyz'
_UPPER = 'ABCDEFGHIJKLMNOPQRSTUVWXYZ'
_PUNCT = '!"#$%&\'()*+,-./:;<=>?@[\\]^_`{|}~'
_WS = ' \t\n\r\x0b\x0c'

# flag (keyword spelling of the docstring signature) -> characters included.
# letters / lowercase / uppercase: "both lowercase and uppercase letters" /
# "lowercase letters" / "uppercase letters" - the locale-independent (ASCII)
# letters, as for the ascii* flags.
CLASSES = {
    'digits': _DIGITS,
    'hexdigits': _DIGITS + 'abcdefABCDEF',
    'asciiLowercase': _LOWER,
    'asciiUppercase': _UPPER,
    'asciiLetters': _LOWER + _UPPER,
    'letters': _LOWER + _UPPER,
    'octdigits': '01234567',
    'punctuation': _PUNCT,
    'printable': _DIGITS + _LOWER + _UPPER + _PUNCT + _WS,
    'lowercase': _LOWER,
    'uppercase': _UPPER,
    'whitespace': _WS,
}
FLAGS = ('digits', 'hexdigits', 'asciiLowercase', 'asciiUppercase', 'asciiLetters', 'letters',
         'octdigits', 'punctuation', 'printable', 'lowercase', 'uppercase', 'whitespace')


def characters(flags):
    """'Returns a list of all distinct items of specified types.'  The result
    is a set of characters (order is not documented)."""
    out = set()
    for f in flags:
        out |= set(CLASSES[f])
    return V(out)
