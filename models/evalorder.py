"""Reference model of evaluation order (property C11).

The statement: "In any call, the eagerly evaluated arguments are evaluated
exactly once each, left to right, before the function body runs, regardless of
how many overloads are considered.  Arguments of lazily evaluated parameters
are evaluated only when, and as many times as, the function's meaning
requires."  (language reference, "Function calls": "a function may declare a
lazy argument. In this case, it is not evaluated and the function
implementation receives a passed value as a callable".)

Two oracles, both producing a *pattern* of admissible traces of the probe
function tick(id, value) (which logs id after its own arguments were
evaluated):

 generic(...)  for any call whose meaning the model does not know: only which
               operands are eager / lazy is given;
 trace(ast)    for the constructs whose meaning the statement names (and / or /
               ?. / switch / switchCase / selectCase / coalesce, literals,
               mapping rules, binders, per-element lambdas of the streaming
               functions and of the generating functions generate /
               generateMany, operands that fail): models/interp.py extended
               with these constructs is run and the ticks it performs are the
               prediction.

A pattern is a list of items:  id  |  ('perm', [ids...], [ids...], ...) - the
groups in any order (different lambdas applied to one element)  |
('free', [ids...]) - any sequence over these ids (sort keys; lazy operands of a
function whose meaning is not modelled).
Imports nothing from yaql.
"""
from models import interp as I

Err = I.Err
OutOfDomain = I.OutOfDomain


# --- patterns ------------------------------------------------------------------------
def admits(pattern, observed, i=0, j=0, prefix=False):
    """Does the observed list of tick ids match the pattern?  (prefix=True: is it the beginning of a match?)"""
    if prefix and j == len(observed):
        return True
    if i == len(pattern):
        return j == len(observed)
    item = pattern[i]
    if isinstance(item, tuple) and item[0] == 'free':
        ids = item[1]
        k = j
        while True:
            if admits(pattern, observed, i + 1, k, prefix):
                return True
            if k < len(observed) and observed[k] in ids:
                k += 1
            else:
                return False
    if isinstance(item, tuple) and item[0] == 'perm':
        groups = [g for g in item[1:] if g]
        if not groups:
            return admits(pattern, observed, i + 1, j, prefix)
        for n, g in enumerate(groups):
            seg = observed[j:j + len(g)]
            if seg == g or (prefix and len(seg) < len(g) and seg == g[:len(seg)]):
                rest = ('perm',) + tuple(groups[:n] + groups[n + 1:])
                if admits([rest] + pattern[i + 1:], observed, 0, j + len(seg), prefix):
                    return True
        return False
    return j < len(observed) and observed[j] == item and admits(pattern, observed, i + 1, j + 1, prefix)


def first_divergence(pattern, observed):
    """Index of the first observed tick that no admissible trace has at that place (len(observed) if the
    observed trace is merely too short)."""
    n = 0
    while n < len(observed) and admits(pattern, observed[:n + 1], prefix=True):
        n += 1
    return n


def generic(form, operands, failed):
    """Admissible patterns of a call of unknown meaning.

    form      'f' function / operator / literal: all operands are arguments
              'm' method: the first operand is the receiver - it is the left
                  operand of `.` and evaluated before the method is looked up
    operands  [(tick id, is_lazy)] in written order
    failed    the call raised

    A successful call: every eager operand once, in written order, before
    anything lazy; the lazy ones as the (unknown) meaning requires.  A failed
    call may have failed before evaluating any argument (no such function,
    arity) or afterwards (argument types, body) - all or nothing.
    """
    eager = [i for i, lazy in operands if not lazy]
    lazies = [i for i, lazy in operands if lazy]
    full = eager + ([('free', lazies)] if lazies else [])
    out = [full]
    if failed:
        early = eager[:1] if form == 'm' and operands and not operands[0][1] else []
        if early != full:
            out.append(early)
    return out


# --- the probe and the constructs the statement names -------------------------------------
TRACE = []


def _tick(frame, args, kwargs):
    if not 1 <= len(args) <= 2 or kwargs:
        raise Err('tick')
    TRACE.append(args[0])
    return args[1] if len(args) > 1 else None


def capture(fn, *args):
    """Run fn and return (value, the ticks it made) without logging them."""
    global TRACE
    saved, TRACE = TRACE, []
    try:
        v = fn(*args)
        return v, TRACE
    finally:
        TRACE = saved


def truth(v):
    return I.truth(v)


def _and(e, env):
    # "Returns left operand if it evaluates to false. Otherwise evaluates right operand and returns it."
    a = I.ev(e[1], env)
    return I.ev(e[2], env) if truth(a) else a


def _or(e, env):
    # "Returns left operand if it evaluates to true. Otherwise evaluates right operand and returns it."
    a = I.ev(e[1], env)
    return a if truth(a) else I.ev(e[2], env)


def _not(e, env):
    return not truth(I.ev(e[1], env))


def _neg(e, env):
    v = I.ev(e[1], env)
    if I.kind(v) != 'int':
        raise OutOfDomain('unary minus on a non-integer')
    return -v


def _elvis(e, env):
    # ('elvis', receiver, method name, [args]): "Evaluates expr on receiver if receiver isn't null ... If receiver is null returns null."
    r = I.ev(e[1], env)
    if r is None:
        return None
    return I.ev(('meth', ('val', r), e[2], e[3]), env)


def _switch(e, env):
    # "Returns the value of the first argument for which the key evaluates to true, null if there is no such arg."
    for c, v in e[1]:
        if truth(I.ev(c, env)):
            return I.ev(v, env)
    return None


def _select_case(e, env):
    # "All the predicates after the first one which was evaluated to true remain unevaluated."
    for i, c in enumerate(e[1]):
        if truth(I.ev(c, env)):
            return i
    return len(e[1])


def _switch_case(e, env):
    # "Returns evaluated case-th argument. If case is less than 0 or greater than the amount of predicates,
    # returns evaluated last argument. Returns null if no args are provided."
    case = I.ev(e[1], env)
    if isinstance(case, bool):
        raise OutOfDomain('boolean case')
    if not isinstance(case, int):
        raise Err('case is not an integer')
    args = e[2]
    if 0 <= case < len(args):
        return I.ev(args[case], env)
    return I.ev(args[-1], env) if args else None


def _coalesce(e, env):
    # "Returns the first predicate which evaluates to non-null value."
    for a in e[1]:
        v = I.ev(a, env)
        if v is not None:
            return v
    return None


def _lazy_cases(e, env):
    # selectAllCases / examine: "The actual evaluation is done lazily as the iterator advances"
    if e[0] == 'examine':
        return I.Lazy(truth(I.ev(a, env)) for a in e[1])
    return I.Lazy(i for i, a in enumerate(e[1]) if truth(I.ev(a, env)))


def _rule(e, env):
    # a mapping rule evaluates its source, then its destination
    k = I.ev(e[1], env)
    return (k, I.ev(e[2], env))


def _dict(e, env):
    out = {}
    for r in e[1]:
        k, v = I.ev(r, env)
        I.put(out, I.key_ok(k), v)
    return out


def _dict_set(e, env):
    # ('dictset', d, [rules]): d.set(k => v, ...)
    d = I.ev(e[1], env)
    pairs = [I.ev(r, env) for r in e[2]]
    if not isinstance(d, dict):
        raise Err('set on a non-dictionary')
    out = dict(d)
    for k, v in pairs:
        I.put(out, I.key_ok(k), v)
    return out


# --- an operand that fails while it is evaluated ------------------------------------------------
# ('raise', class name, operand): the operand is evaluated (its tick is logged), then the evaluation of
# the whole sub-expression fails with an error of that class.  Nothing in the language catches an error,
# so it leaves every construct it is raised in: nothing after it is evaluated, nothing again.
RAISE_TEXT = {
    'IndexError': '[%s][1]',                                    # list index out of range
    'KeyError': "{a => %s}['b']",                               # dictionary key lookup
    'StopIteration': '[%s].skip(1).first()',                    # first() of an empty collection
    'ValueError': "int(str(%s) + 'x')",                         # int() of a non-numeric string
    'TypeError': '[%s].skip(1).aggregate($1 + $2)',             # aggregate() of an empty collection without seed
    'NoFunctionRegisteredException': '[%s, nosuchfunction()]',  # unknown function
    'NoMatchingFunctionException': 'len(%s)',                   # no overload of a function accepts an integer
    'NoMatchingMethodException': '%s.len()',                    # no overload of a method accepts an integer
}
RAISED = []        # classes of the errors raised by the last trace()


def _raise(e, env):
    I.ev(e[2], env)
    RAISED.append(e[1])
    raise Err('operand raises ' + e[1])


I.EXT.update({
    'raise': _raise,
    'and': _and, 'or': _or, 'not': _not, 'elvis': _elvis, 'switch': _switch, 'selectCase': _select_case,
    'switchCase': _switch_case, 'coalesce': _coalesce, 'selectAllCases': _lazy_cases, 'examine': _lazy_cases,
    'rule': _rule, 'dict': _dict, 'dictset': _dict_set, 'val': lambda e, env: e[1], 'neg': _neg,
})


def _commas(xs):
    return ', '.join(I.text(x) for x in xs)


I.TEXT_EXT.update({
    'raise': lambda e: '(%s)' % (RAISE_TEXT[e[1]] % I.text(e[2])),
    'and': lambda e: '(%s and %s)' % (I.text(e[1]), I.text(e[2])),
    'or': lambda e: '(%s or %s)' % (I.text(e[1]), I.text(e[2])),
    'not': lambda e: '(not %s)' % I.text(e[1]),
    'neg': lambda e: '(-%s)' % I.text(e[1]),
    'elvis': lambda e: '(%s?.%s(%s))' % (I._recv(e[1]), e[2], _commas(e[3])),
    'switch': lambda e: 'switch(%s)' % ', '.join('%s => %s' % (I.text(c), I.text(v)) for c, v in e[1]),
    'selectCase': lambda e: 'selectCase(%s)' % _commas(e[1]),
    'switchCase': lambda e: '%s.switchCase(%s)' % (I._recv(e[1]), _commas(e[2])),
    'coalesce': lambda e: 'coalesce(%s)' % _commas(e[1]),
    'selectAllCases': lambda e: 'selectAllCases(%s)' % _commas(e[1]),
    'examine': lambda e: 'examine(%s)' % _commas(e[1]),
    'rule': lambda e: '%s => %s' % (I.text(e[1]), I.text(e[2])),
    'dict': lambda e: 'dict(%s)' % _commas(e[1]),
    'dictset': lambda e: '%s.set(%s)' % (I._recv(e[1]), _commas(e[2])),
})


# --- streaming functions with per-element lambdas: "once per element consumed" ----------------
def _coll(args, n):
    if len(args) != n or not I.is_coll(args[0]):
        raise Err('not a collection / arity')
    return args[0]


def _select_many(frame, args, kwargs):
    coll, f = _coll(args, 2), args[1]

    def gen():
        for x in coll:
            inner = f(x)
            if not I.is_coll(inner):
                raise Err('selectMany: selector result is not a collection')
            for y in inner:
                yield y
    return I.Lazy(gen())


def _take_while(frame, args, kwargs):
    coll, p = _coll(args, 2), args[1]

    def gen():
        for x in coll:
            if not truth(p(x)):
                return
            yield x
    return I.Lazy(gen())


def _skip_while(frame, args, kwargs):
    coll, p = _coll(args, 2), args[1]

    def gen():
        skipping = True
        for x in coll:
            if skipping and truth(p(x)):
                continue
            skipping = False        # the predicate is not asked again
            yield x
    return I.Lazy(gen())


def _any(frame, args, kwargs):
    coll, p = _coll(args, 2), args[1]
    for x in coll:
        if truth(p(x)):
            return True             # stops at the first decisive element
    return False


def _all(frame, args, kwargs):
    coll, p = _coll(args, 2), args[1]
    for x in coll:
        if not truth(p(x)):
            return False
    return True


def _index_where(frame, args, kwargs):
    coll, p = _coll(args, 2), args[1]
    for i, x in enumerate(coll):
        if truth(p(x)):
            return i
    return -1


def _first(frame, args, kwargs):
    for x in _coll(args, 1):
        return x
    raise Err('first() of an empty collection')


def _take(frame, args, kwargs):
    coll, n = _coll(args, 2), args[1]
    if isinstance(n, bool) or not isinstance(n, int) or n < 0:
        raise OutOfDomain('take count')

    def gen():
        if n == 0:
            return
        for i, x in enumerate(coll, 1):
            yield x
            if i >= n:
                return              # no element beyond the n-th is asked for
    return I.Lazy(gen())


def _distinct(frame, args, kwargs):
    coll, key = _coll(args, 2), args[1]

    def gen():
        seen = []
        for x in coll:
            k = key(x)
            if not any(I.equal(k, s) for s in seen):
                seen.append(k)
                yield x
    return I.Lazy(gen())


def _to_dict(frame, args, kwargs):
    # key and value selector of one element: relative order not constrained
    coll, kf, vf = _coll(args, 3), args[1], args[2]
    out = {}
    for x in coll:
        k, tk = capture(kf, x)
        v, tv = capture(vf, x)
        TRACE.append(('perm', tk, tv))
        I.put(out, I.key_ok(k), v)
    return out


def _group_by(frame, args, kwargs):
    coll, kf, vf = _coll(args, 3), args[1], args[2]
    groups = []
    for x in coll:
        k, tk = capture(kf, x)
        v, tv = capture(vf, x)
        TRACE.append(('perm', tk, tv))
        for g in groups:
            if I.equal(g[0], k):
                g[1].append(v)
                break
        else:
            groups.append([k, [v]])
    return groups


def _order_by(frame, args, kwargs):
    # the number of key evaluations of a sort is left unspecified: any sequence over the elements' key ticks,
    # when the sorted collection is first consumed
    coll, key = _coll(args, 2), args[1]

    def gen():
        items = list(coll)
        ids = []
        keyed = []
        for x in items:
            k, t = capture(key, x)
            ids.extend(t)
            keyed.append((k, x))
        TRACE.append(('free', ids))
        if any(isinstance(k, bool) or not isinstance(k, int) for k, _ in keyed):
            raise OutOfDomain('sort keys other than integers')
        for k, x in sorted(keyed, key=lambda kx: kx[0]):
            yield x
    return I.Lazy(gen())


def _aggregate(frame, args, kwargs):
    # "Applies selector to every item of the collection and the accumulated value": $1 accumulator, $2 element
    if len(args) not in (2, 3):
        raise Err('aggregate')
    coll, f = _coll(args[:1], 1), args[1]
    it = iter(coll)
    if len(args) == 3:
        acc = args[2]
    else:
        for acc in it:
            break
        else:
            raise Err('aggregate of an empty collection without seed')
    for x in it:
        acc = f(acc, x)
    return acc


def _accumulate(frame, args, kwargs):
    if len(args) != 3:
        raise Err('accumulate')
    coll, f, seed = _coll(args[:1], 1), args[1], args[2]

    def gen():
        acc = seed
        yield acc
        for x in coll:
            acc = f(acc, x)
            yield acc
    return I.Lazy(gen())


def _memorize(frame, args, kwargs):
    # "Returns an iterator over collection and memorizes already iterated values": buffering changes
    # nothing about which elements are computed, and when
    coll = _coll(args, 1)
    if isinstance(coll, list):
        return coll
    return I.Lazy(x for x in coll)


def _default_if_empty(frame, args, kwargs):
    # whether the collection is empty is known after asking for its first element (at the call);
    # the remaining elements are computed when pulled
    coll, default = _coll(args, 2), args[1]
    if isinstance(coll, list):
        return coll if coll else default
    it = iter(coll)
    for head in it:
        break
    else:
        return default

    def gen():
        yield head
        for x in it:
            yield x
    return I.Lazy(gen())


# --- lazily generated sources: their lambdas run only for the elements a consumer asks for ---------
def _generate(frame, args, kwargs):
    # "Returns iterator to values beginning from initial value with every next value produced with producer
    # applied to every previous value, while predicate is true" (selector: "to store every element in the
    # resulted list"): the n-th element needs the predicate and the selector on it and the producer on its
    # n - 1 predecessors; the producer on the n-th element is needed only by whoever asks for element n + 1.
    if not 3 <= len(args) <= 4 or set(kwargs) - {'decycle'}:
        raise Err('generate')
    initial, pred, prod = args[:3]
    sel = args[3] if len(args) > 3 else None
    decycle = kwargs.get('decycle', False)

    def gen():
        x = initial
        past = []
        while truth(pred(x)):
            if decycle:             # "return only distinct values": a repeated value ends the sequence
                if any(I.equal(x, p) for p in past):
                    return
                past.append(x)
            yield x if sel is None else sel(x)
            x = prod(x)
    return I.Lazy(gen())


def _generate_many(frame, args, kwargs):
    # "values beginning from initial queue of values with every next value produced with producer applied to
    # top of queue ... Represents tree traversal, where producer is used to get child nodes"; depthFirst "puts
    # produced elements to the start of queue".  The children of a node are asked for when the traversal goes
    # on past that node.  (Breadth first over a tree that branches, the next node is known without the
    # children of the current one: the driver does not enumerate that combination.)
    if not 2 <= len(args) <= 3 or set(kwargs) - {'depthFirst'}:
        raise Err('generateMany')
    initial, prod = args[:2]
    sel = args[2] if len(args) > 2 else None
    depth_first = kwargs.get('depthFirst', False)

    def gen():
        queue = [initial]
        while queue:
            x = queue.pop(0)
            yield x if sel is None else sel(x)
            children = prod(x)
            if not I.is_coll(children):
                raise Err('generateMany: producer result is not a collection')
            children = list(children)
            queue = children + queue if depth_first else queue + children
    return I.Lazy(gen())


def _int(v):
    if isinstance(v, bool) or not isinstance(v, int):
        raise Err('not an integer')
    return v


def _range(frame, args, kwargs):
    # "Returns an iterator over values from start up to stop, not including stop"
    if len(args) != 2 or kwargs:
        raise OutOfDomain('range() forms other than range(start, stop)')
    start, stop = _int(args[0]), _int(args[1])
    return I.Lazy(x for x in range(start, stop))


HORIZON = 9     # an endless source is followed for this many elements; a case that needs more is not judged


def _sequence(frame, args, kwargs):
    # "Returns an iterator to the sequence beginning from start with step": endless
    if len(args) != 1 or kwargs:
        raise OutOfDomain('sequence() forms other than sequence(start)')
    start = _int(args[0])

    def gen():
        for i in range(HORIZON):
            yield start + i
        I.NOTES.add('endless source followed beyond the horizon')
        raise OutOfDomain('endless source followed beyond the horizon')
    return I.Lazy(gen())


def _zip(frame, args, kwargs):
    # "the n-th iterable contains the n-th element from each of collections. Stops iterating as soon as any
    # of the collections is exhausted": the collections are asked in the order written
    if kwargs or not all(I.is_coll(a) for a in args):
        raise Err('zip')

    def gen():
        its = [iter(a) for a in args]
        while True:
            row = []
            for it in its:
                for x in it:
                    row.append(x)
                    break
                else:
                    return
            yield row
    return I.Lazy(gen())


I.LIB.update({
    'generate': ('f', (1, 2, 3), _generate),
    'generateMany': ('f', (1, 2), _generate_many),
    'range': ('f', (), _range),
    'sequence': ('f', (), _sequence),
    'zip': ('m', (), _zip),
    'tick': ('f', (), _tick),
    'memorize': ('m', (), _memorize),
    'defaultIfEmpty': ('m', (), _default_if_empty),
    'selectMany': ('m', (1,), _select_many),
    'takeWhile': ('m', (1,), _take_while),
    'skipWhile': ('m', (1,), _skip_while),
    'any': ('m', (1,), _any),
    'all': ('m', (1,), _all),
    'indexWhere': ('m', (1,), _index_where),
    'first': ('m', (), _first),
    'take': ('m', (), _take),
    'count': ('m', (), lambda frame, args, kwargs: len(list(_coll(args, 1)))),
    'distinct': ('m', (1,), _distinct),
    'toDict': ('m', (1, 2), _to_dict),
    'groupBy': ('m', (1, 2), _group_by),
    'orderBy': ('m', (1,), _order_by),
    'aggregate': ('m', (1,), _aggregate),
    'accumulate': ('m', (1,), _accumulate),
    # helper registered by the driver next to tick: receiver.then(x) returns x
    'then': ('m', (), lambda frame, args, kwargs: args[1]),
})
I.OPS['<'] = lambda a, b: I.op_gt(b, a)


def trace(ast, data=None):
    """(pattern, outcome) of a modelled construct: the ticks the reference interpreter performs, in order,
    up to and including finalisation; outcome as interp.run.  (None, None) outside the domain."""
    global TRACE
    TRACE = []
    del RAISED[:]
    out = I.run(ast, data)
    if out is None:
        return None, None
    return list(TRACE), out
