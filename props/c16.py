"""C16 - literals denote exactly the values they spell.

E3 enumeration, nine families, every case parsed (Constant.value in the tree,
exact type) and evaluated (the value again):
 spell   every string of a bounded space, spelled by models/literals.quote in each of the three styles, must read
         back as exactly that string (all strings <= 4 over a 15-symbol alphabet of quotes, backslashes and escape
         look-alikes; every BMP code point alone and embedded; astral samples);
 escape  every code point in every escape form (\\uXXXX, \\UXXXXXXXX, \\xXX, 1-3 digit octal, \\N{NAME}, single
         letters), alone, embedded and followed by a digit, in '..' and "..", and unchanged in `..`;
 body    every token body <= 4 over an 18-symbol escape alphabet, decoded by the independent decoder;
 int     every n < 10**5, and 10**k, 10**k-1, repdigits d*(10**k-1)/9 for every k up to the bound;
 decimal every a.f with a < 100 (and boundary integer parts) and every fraction of <= 3 digits, plus long forms,
         against the correctly rounded rational;
 word    every word <= 3 over {a Z _ 1 e-acute} and a list of look-alikes of true/false/null and operator words;
 options string literals holding every surrogate code point, BMP and astral samples and all strings <= 2 over the
         spell alphabet, numbers and constants, on an engine with a (generous) memory quota and iterator limit:
         engine options must not change what a literal denotes;
 together two and three literals in one expression: every ordered pair (triple) over a boundary-rich set of literals
         (string bodies that are empty, end in 1..4 backslashes, hold the escaped quote of their own style, the quote
         characters of the other styles, the separators , => + and closing brackets, in all three styles and mixed; numbers,
         true/false/null and keywords) inside [a, b], a + b, {a => b}, list(a, b), concat(a, b) (and the three-literal
         forms), with and without blanks around the separators: each literal node of the tree and the value of the
         expression are what the reference model says each literal denotes ALONE - what a literal denotes does not
         depend on what follows it in the text; a literal that alone is an unterminated string makes the expression an
         error whenever the reference division into tokens leaves a quote open;
 host    host functions whose parameter is declared as a literal (NumericConstant, StringConstant, BooleanConstant,
         Constant, nullable and not) or left untyped, called positionally and by keyword with literals of every
         class: the value the host receives is the value the literal denotes (type included).
Ill-formed escapes are outside the domain (C03 owns them): counted, not judged.
"""
import itertools
import sys
import unicodedata

import vf.loader  # noqa: F401
from vf import core
from vf.core import Result, chunks
from models import literals as M

import yaql
from yaql.language import exceptions as yexc
from yaql.language import expressions as X
from yaql.language import specs as yspecs
from yaql.language import yaqltypes

ID = 'C16'
TITLE = 'literals denote the values they spell'
RULE = ('texts are generated from value descriptions (string, code point + escape form, body, number, word), never '
        'parsed back by the checker; a case is distinct by its text and non-trivial when the reference defines its '
        'value (in-domain); expected values are computed without the lexer: the string itself, chr(cp), '
        'the independent decoder, integer arithmetic, correctly rounded Fraction; expressions with several literals are '
        'composed from literal descriptions and expect, per literal, the value the reference gives the literal alone')
ASSUMPTIONS = ['every case compares Constant.value in the tree; the literal is also evaluated except in the bulk of the sweeps '
               '(code points U+0800..U+D7FF, strings and bodies of length 4, integers 2000..99999 other than multiples of 64, 3-digit fractions, '
               'three-literal expressions written without blanks)',
               'several literals in one expression: [..], +, {=>}, list() and concat() of the standard library build the list / string / dict '
               'of their operands (C16 judges the literal nodes of the tree as well, so a failure of these functions alone cannot hide a literal)',
               'CPython int arithmetic, chr() and Fraction->float rounding are the reference',
               'unicodedata names are the reference for \\N{NAME}',
               'a value whose verbatim spelling would need an unpaired backslash has no verbatim spelling (domain note of DESIGN C16)',
               'leading-zero numerals, non-latin letters/digits and operator words are not covered by the language reference: out of domain']
BOUNDS = {
    'quick': 'spell: strings <=4 over 15 symbols x 3 styles, BMP alone+embedded x 3 styles, all ordered pairs of 40 line-structure characters (C0 controls, DEL, NEL, NBSP, LS, PS, BOM, space, a) alone, embedded and separated x 3 styles; escape: \\u all BMP, \\x \\octal all, '
             '\\U and \\N for cp < 0x3000 and plane boundaries (full style x context product below 0x300, 4 contexts above); body <=4 over 18 symbols x 3 styles; int: n<10**5, k<=4000 step 7 '
             'plus all k<=120; decimal: 103 integer parts x 1110 fractions + long forms; words <=3 over 5 symbols; '
             'options: all 2048 surrogates x (3 raw styles + \\u) alone and embedded, 270 BMP + 12 astral samples, strings <=2 over 15 symbols, '
             '30 numbers/constants on an engine with memoryQuota=10**9, limitIterators=10**6; host: 10 declared parameter types x 2 call forms x 38 literals; '
             'together: 118 literals (36 bodies x 3 styles + 10 numbers/constants/keywords) alone and all ordered pairs x 5 embeddings '
             'x 2 spacings; all ordered triples over a 42-literal core (13 bodies x 3 styles + 3 scalars) x [a, b, c], a + b + c x 2 spacings',
    'thorough': 'as quick with \\U, \\N for every BMP code point, int k<=min(4000, digit limit) every k, bodies <=5; '
                'together: core triples also in concat(a,b,c) and {a => [b, c]}; all ordered triples over all 118 literals in [a,b,c]',
}

INT_LIMIT = sys.get_int_max_str_digits() if hasattr(sys, 'get_int_max_str_digits') else 0
MAX_K = 4000 if not INT_LIMIT else min(4000, INT_LIMIT - 1)

SPELL_ALPHA = ['\\', "'", '"', '`', 'n', 'x', 'u', '0', '4', 'a', '{', 'N', '}', ' ', 'é']
BODY_ALPHA = ['\\', "'", '"', '`', 'n', 'x', 'u', '0', '7', '8', 'a', 'q', 'Z', ' ', '4', 'f', 'N', '{']
ASTRAL = [0x10000, 0x10001, 0x1F600, 0x1D7D8, 0x1FFFF, 0x20000, 0x2FFFF, 0xE0001, 0xF0000, 0xFFFFF, 0x100000, 0x10FFFF]
OPERATOR_WORDS = ('and', 'or', 'not', 'in', 'mod')
WORDS = ['true', 'false', 'null', 'True', 'FALSE', 'Null', 'nulls', 'truee', '_true', 'true_', 'tru', 'nul',
         'and', 'or', 'not', 'in', 'mod', 'andy', 'nota', 'inn', 'i', 'n', 'mode', 'And', 'NOT', 'a_b', 'a__b', 'a__',
         '_', '__', '___', '__a', '_a', '_1', '__1', '_a_', 'x1', 'camelCase', 'snake_case_9', '__init__', 'nullnull']

NONLATIN_WORDS = ['\ufb01le', '\u00b5', '\u00aa', '\u017f', '\u212b', '\uff41b', 'x\u00b2', '\u2167', '\u0434\u0430', '\u4e2d', '\u03a9',
                  '\u2126', '\u00e5', 'a\u030a', '\u1e9e', '\u00df', '\u0131', '\u0130x', '\u01c4', '\u3392']

_state = {}


def setup():
    if not _state:
        _state['eng'] = yaql.YaqlFactory().create()
        _state['eng-limits'] = yaql.YaqlFactory().create(options=LIMITS)
        _state['root'] = yaql.create_context()
    return _state


# generous limits: they restrict resources, never the meaning of a literal
LIMITS = {'yaql.memoryQuota': 10 ** 9, 'yaql.limitIterators': 10 ** 6}


def observe(text, evaluate=True, engine='eng'):
    """('const'|'kw', value, evaluated) | ('tree', node type) | ('rejected', class) | ('raised', class).
    With evaluate=False the third item repeats Constant.value (parse-only case)."""
    s = setup()
    try:
        st = s[engine](text)
    except yexc.YaqlParsingException as e:
        return ('rejected', type(e).__name__)
    except Exception as e:
        return ('raised', type(e).__name__)
    e = st.expression
    if isinstance(e, X.KeywordConstant):
        kind = 'kw'
    elif isinstance(e, X.Constant):
        kind = 'const'
    else:
        return ('tree', type(e).__name__)
    if not evaluate:
        return (kind, e.value, e.value)
    try:
        ev = st.evaluate(context=s['root'].create_child_context())
    except Exception as ex:
        return ('raised', 'evaluate:' + type(ex).__name__)
    return (kind, e.value, ev)


def same(x, y):
    if type(x) is not type(y):
        return False
    if isinstance(x, float):
        return repr(x) == repr(y)
    return x == y


def judge(res, family, text, expect, case, keyinfo, evaluate=True, engine='eng'):
    """expect: ('const'|'kw', value) | ('rejected',) | None (out of domain)."""
    core.CURRENT_CASE[0] = case
    res.case((family, text))
    obs = observe(text, evaluate, engine)
    res.evaluations += 1
    res.extra['evaluated_as_well_as_parsed'] = res.extra.get('evaluated_as_well_as_parsed', 0) + (1 if evaluate else 0)
    res.transitions += 1
    if expect is None:
        res.out_of_domain += 1
        res.outcomes['%s: out of domain -> %s' % (family, obs[0])] += 1
        return
    res.nontrivial += 1
    if expect[0] == 'rejected':
        ok = obs[0] == 'rejected'
    else:
        ok = obs[0] == expect[0] and same(obs[1], expect[1]) and same(obs[2], expect[1])
    res.outcomes['%s: %s' % (family, obs[0] if obs[0] in ('rejected', 'raised', 'tree') else 'value')] += 1
    if not ok:
        how = obs[0] + ' ' + obs[1] if obs[0] in ('rejected', 'raised', 'tree') else 'wrong value'
        shown = text if len(text) < 80 else text[:40] + '...(%d chars)' % len(text)
        res.fail('%s %s: %s' % (family, keyinfo, how), case,
                 'text %r observed %.200r expected %.200r' % (shown, obs, expect), size=len(text))


# --------------------------------------------------------------------------
# spell: value -> quote() -> read back
# --------------------------------------------------------------------------
def sweep_evaluates(cp):
    """Per-code-point sweeps evaluate the literal (besides reading Constant.value) outside the bulk of the BMP."""
    return cp < 0x800 or cp >= 0xD800


def spell(res, value, evaluate=True):
    for q in M.STYLES:
        expect = ('const', value)
        if q == '`' and not M.verbatim_spellable(value):
            expect = None
        judge(res, 'spell', M.quote(value, q), expect, {'family': 'spell', 'value': value, 'style': q}, 'style=' + q,
              evaluate)


def job_spell_strings(firsts):
    res = Result()
    if firsts[0] == SPELL_ALPHA[0]:
        spell(res, '')
    for first in firsts:
        for n in range(1, 5):
            for rest in itertools.product(SPELL_ALPHA, repeat=n - 1):
                spell(res, first + ''.join(rest), n <= 3)
    res.sample({'family': 'spell', 'value': firsts[0] + "'\\", 'texts': [M.quote(firsts[0] + "'\\", q) for q in M.STYLES]}, limit=1)
    return res


# line-structure characters: every ordered pair (a text that arrives from a file may be "normalised" on the way in)
LINE_CHARS = [chr(c) for c in list(range(0, 32)) + [0x7f, 0x85, 0xa0, 0x2028, 0x2029, 0xfeff]] + [' ', 'a']


def job_spell_pairs(firsts):
    res = Result()
    for c1 in firsts:
        for c2 in LINE_CHARS:
            spell(res, c1 + c2)
            spell(res, 'a' + c1 + c2 + 'b')
            spell(res, c1 + 'a' + c2, False)
    res.sample({'family': 'spell', 'value': firsts[0] + LINE_CHARS[10]}, limit=1)
    return res


def job_spell_codepoints(ranges):
    res = Result()
    for lo, hi in ranges:
        for cp in range(lo, hi):
            spell(res, chr(cp), sweep_evaluates(cp))
            spell(res, 'a' + chr(cp) + 'b', sweep_evaluates(cp))
    res.sample({'family': 'spell', 'ranges': ranges[:2]}, limit=1)
    return res


# --------------------------------------------------------------------------
# escape: code point x form
# --------------------------------------------------------------------------
def forms(cp, wide):
    out = [('u', '\\u%04x' % cp), ('u', '\\u%04X' % cp)] if cp < 0x10000 else []
    if cp < 0x100:
        out += [('x', '\\x%02x' % cp), ('x', '\\x%02X' % cp)]
    if cp < 0o1000:
        out += [('octal', '\\' + o) for o in sorted({'%o' % cp, '%02o' % cp, '%03o' % cp}) if len(o) <= 3]
    if wide:
        out.append(('U', '\\U%08x' % cp))
        out.append(('U', '\\U%08X' % cp))
        name = unicodedata.name(chr(cp), None)
        if name:
            out.append(('N', '\\N{%s}' % name))
            try:
                if unicodedata.lookup(name.lower()) == chr(cp):     # names are matched case-insensitively
                    out.append(('N', '\\N{%s}' % name.lower()))
            except KeyError:
                pass
    return [f for i, f in enumerate(out) if f not in out[:i]]


FULL_BELOW = 0x300      # below this (and for astral samples) the full style x context product is run per escape form


def escape_cases(res, cp, wide):
    c = chr(cp)
    for form, esc in forms(cp, wide):
        # alone, embedded, and directly followed by a digit (a short octal escape would absorb an octal digit)
        digit = '9' if form == 'octal' and len(esc) < 4 else '0'
        if cp < FULL_BELOW or cp > 0xFFFF:
            plan = [(q, pre, post) for q in M.STYLES for pre, post in (('', ''), ('a', 'b'), ('a', digit))]
        else:
            plan = [("'", '', ''), ('"', '', ''), ("'", 'a', digit), ('`', '', '')]
        for q, pre, post in plan:
            body = pre + esc + post
            value = pre + (esc if q == '`' else c) + post
            judge(res, 'escape', q + body + q, ('const', value),
                  {'family': 'escape', 'body': body, 'style': q, 'cp': cp}, 'form=\\%s style=%s' % (form, q),
                  sweep_evaluates(cp))


def letter_cases(res):
    """Single-letter escapes and the escaped back quote, alone, embedded and between escaped backslashes."""
    for letter, value in sorted(M.SINGLE.items()) + [('`', '\\`')]:
        for q in M.STYLES:
            for pre, post in (('', ''), ('a', 'b'), ('\\\\', '\\\\')):
                body = pre + '\\' + letter + post
                if not M.is_token_body(body, q):
                    continue
                if q == '`':
                    expect = body.replace('\\`', '`')
                else:
                    expect = pre.replace('\\\\', '\\') + value + post.replace('\\\\', '\\')
                judge(res, 'escape', q + body + q, ('const', expect),
                      {'family': 'escape', 'body': body, 'style': q}, 'form=\\letter style=%s' % q)


def job_escapes(ranges, wide):
    res = Result()
    for lo, hi in ranges:
        for cp in range(lo, hi):
            escape_cases(res, cp, wide)
    if ranges[0][0] == 0:
        letter_cases(res)
    res.sample({'family': 'escape', 'ranges': ranges[:2], 'forms': [f for _, f in forms(ranges[0][0] or 0x41, True)]}, limit=1)
    return res


# --------------------------------------------------------------------------
# body: arbitrary token bodies through the independent decoder
# --------------------------------------------------------------------------
def job_bodies(firsts, maxlen):
    res = Result()
    for first in firsts:
        for n in range(1, maxlen + 1):
            for rest in itertools.product(BODY_ALPHA, repeat=n - 1):
                body = first + ''.join(rest)
                for q in M.STYLES:
                    if not M.is_token_body(body, q):
                        continue            # not one literal: a different text, enumerated by C03
                    if q == '`':
                        expect = ('const', M.verbatim_value(body))
                    else:
                        v = M.decode(body)
                        expect = None if v is M.ILLFORMED else ('const', v)
                    judge(res, 'body', q + body + q, expect, {'family': 'body', 'body': body, 'style': q}, 'style=' + q,
                          n <= 3)
    res.sample({'family': 'body', 'text': "'" + firsts[0] + "\\x4f'", 'maxlen': maxlen}, limit=1)
    return res


# --------------------------------------------------------------------------
# numbers
# --------------------------------------------------------------------------
def int_case(res, text, value, what, evaluate=True):
    expect = ('const', value)
    if len(text) > 1 and text[0] == '0':
        expect = None                   # leading zeros: not covered by the reference
    if INT_LIMIT and len(text) > INT_LIMIT:
        expect = None
    judge(res, 'int', text, expect, {'family': 'int', 'what': what}, 'digits=%s' % ('<=18' if len(text) <= 18 else '>18'),
          evaluate)


def job_small_ints(lo, hi):
    res = Result()
    for n in range(lo, hi):
        int_case(res, str(n), n, ['n', n], n < 2000 or n % 64 == 0)
        if n < 1000:
            int_case(res, '00' + str(n), n, ['0n', n])
    res.sample({'family': 'int', 'range': [lo, hi]}, limit=1)
    return res


def big_int(what):
    kind, k = what[0], what[1]
    if kind == 'pow':
        return '1' + '0' * k, 10 ** k
    if kind == 'pow-1':
        return '9' * k, 10 ** k - 1
    if kind == 'pow+1':
        return '1' + '0' * (k - 1) + '1', 10 ** k + 1
    d = what[2]
    return str(d) * k, d * ((10 ** k - 1) // 9)


def job_big_ints(ks):
    res = Result()
    for k in ks:
        whats = [['pow', k], ['pow-1', k], ['pow+1', k]] + [['rep', k, d] for d in range(1, 9)]
        for what in whats:
            text, value = big_int(what)
            int_case(res, text, value, what)
    res.sample({'family': 'int', 'k': ks[:3]}, limit=1)
    return res


WHOLE = [str(i) for i in range(100)] + ['255', '1000', '65536', '4294967296', '9007199254740993',
                                        '18446744073709551616', '1' + '0' * 22, '1' + '0' * 23, '9' * 308, '1' + '0' * 308,
                                        '17976931348623157' + '0' * 292, '17976931348623158' + '0' * 292, '9' * 309]
LONG_FRACTIONS = ['1' * 17, '1' * 18, '3' * 25, '0' * 20 + '1', '0' * 323 + '4', '0' * 323 + '5', '0' * 324 + '1', '0' * 400 + '9',
                  '30000000000000004', '299999999999999988897769753748', '5' + '0' * 30, '4' + '9' * 30,
                  '1000000000000000055511151231257827', '2' * 1000]


def decimal_case(res, whole, frac, evaluate=True):
    value = M.decimal_value(whole, frac)
    expect = ('const', value) if value is not None else None
    if len(whole) > 1 and whole[0] == '0':
        expect = None
    judge(res, 'decimal', whole + '.' + frac, expect, {'family': 'decimal', 'whole': whole, 'frac': frac},
          'fraction-digits=%s' % ('<=3' if len(frac) <= 3 else '>3'), evaluate)


def job_decimals(wholes):
    res = Result()
    for whole in wholes:
        for n in (1, 2, 3):
            for f in itertools.product('0123456789', repeat=n):
                decimal_case(res, whole, ''.join(f), n <= 2)
        for f in LONG_FRACTIONS:
            decimal_case(res, whole, f)
    res.sample({'family': 'decimal', 'wholes': wholes[:3]}, limit=1)
    return res


# --------------------------------------------------------------------------
# the module-level yaql.eval() path: one process-wide engine and a cache of parsed expressions
# --------------------------------------------------------------------------
def job_evalpath():
    """Every string of length <= 3 over {a, blank, tab, newline, no-break space} spelled raw in the three quote
    styles and evaluated through yaql.eval(), one after the other in ONE process (simplest first): a literal must
    denote its own text whatever was evaluated before it."""
    import yaql
    res = Result()
    alphabet = ['a', ' ', '\t', '\n', '\u00a0']
    values = ['']
    for n in (1, 2, 3):
        values.extend(''.join(v) for v in itertools.product(alphabet, repeat=n))
    for v in values:
        for q in M.STYLES:
            text = q + v + q
            core.CURRENT_CASE[0] = {'family': 'evalpath', 'text': text}
            res.case(('evalpath', text))
            res.evaluations += 1
            res.transitions += 1
            res.nontrivial += 1
            try:
                got = yaql.eval(text)
            except Exception as e:
                got = ('raised', type(e).__name__)
            res.outcomes['evalpath: %s' % ('value' if isinstance(got, str) else 'raised')] += 1
            if not same(got, v):
                res.fail('evalpath style=%s: wrong value through yaql.eval()' % q, {'family': 'evalpath', 'text': text, 'value': v},
                         'yaql.eval(%r) returned %r, expected %r (after the shorter literals were evaluated in the same process)'
                         % (text, got, v), size=len(text))
    res.sample({'family': 'evalpath', 'texts': ["'a  a'", "'a\ta'"]}, limit=1)
    return res


# --------------------------------------------------------------------------
# words
# --------------------------------------------------------------------------
def job_words():
    res = Result()
    words = list(WORDS)
    for n in (1, 2, 3):
        words.extend(''.join(w) for w in itertools.product(['a', 'Z', '_', '1', 'é'], repeat=n))
    seen = set()
    for w in words:
        if w in seen:
            continue
        seen.add(w)
        m = M.keyword(w, OPERATOR_WORDS)
        if m is None:
            expect = None
        elif m[0] == 'const':
            expect = ('const', m[1])
        elif m[0] == 'text':
            expect = ('kw', w)
        else:
            expect = ('rejected',)
        cls = 'none' if m is None else m[0]
        judge(res, 'word', w, expect, {'family': 'word', 'word': w}, 'class=' + cls)
    # words with letters outside the reference's examples (compatibility characters, other scripts): whether the
    # lexer takes them as keywords is not documented, but a word it does take as a keyword denotes its own text
    for w in NONLATIN_WORDS:
        obs = observe(w, True)
        res.case(('word-nonlatin', w))
        res.evaluations += 1
        res.transitions += 1
        if obs[0] != 'kw':
            res.out_of_domain += 1
            res.outcomes['word: non-latin not a keyword -> %s' % obs[0]] += 1
            continue
        res.nontrivial += 1
        res.outcomes['word: non-latin keyword'] += 1
        if not (same(obs[1], w) and same(obs[2], w)):
            res.fail('word class=accepted-keyword: wrong value', {'family': 'word', 'word': w},
                     'keyword %r denotes %r / evaluates to %r instead of its own text' % (w, obs[1], obs[2]), size=len(w))
    res.sample({'family': 'word', 'words': words[:8]}, limit=1)
    return res


# --------------------------------------------------------------------------
# options: the same literals on an engine with resource limits
# --------------------------------------------------------------------------
OPTION_SAMPLES = sorted(set(range(0, 0x10000, 0x111)) | {0x7F, 0x80, 0xFF, 0x100, 0x7FF, 0x800, 0xD7FF, 0xE000, 0xFFFD, 0xFFFE, 0xFFFF})
OPTION_SCALARS = [('0', 0), ('1', 1), ('7', 7), ('255', 255), ('1' + '0' * 40, 10 ** 40), ('9' * 400, 10 ** 400 - 1),
                  ('0.0', 0.0), ('0.5', 0.5), ('1.0', 1.0), ('2.25', 2.25), ('0.1', 0.1), ('123456789.125', 123456789.125),
                  ('true', True), ('false', False), ('null', None)]


def option_case(res, text, expect, case, keyinfo):
    judge(res, 'options', text, expect, dict(case, family='options', text=text), keyinfo, True, 'eng-limits')


def job_options():
    res = Result()
    for cp in range(0xD800, 0xE000):
        c = chr(cp)
        for value in (c, 'a' + c + 'b'):
            for q in M.STYLES:
                option_case(res, M.quote(value, q), ('const', value), {'style': q}, 'raw style=' + q)
        esc = '\\u%04x' % cp
        option_case(res, "'" + esc + "'", ('const', c), {'style': "'"}, "form=\\u style='")
        option_case(res, '"x' + esc + esc + '"', ('const', 'x' + c + c), {'style': '"'}, 'form=\\u style="')
    for cp in OPTION_SAMPLES + ASTRAL:
        c = chr(cp)
        for value in (c, 'a' + c + 'b'):
            for q in M.STYLES:
                if q == '`' and not M.verbatim_spellable(value):
                    continue
                option_case(res, M.quote(value, q), ('const', value), {'style': q}, 'raw style=' + q)
    for n in (0, 1, 2):
        for tup in itertools.product(SPELL_ALPHA, repeat=n):
            value = ''.join(tup)
            for q in M.STYLES:
                if q == '`' and not M.verbatim_spellable(value):
                    continue
                option_case(res, M.quote(value, q), ('const', value), {'style': q}, 'raw style=' + q)
    for text, value in OPTION_SCALARS:
        option_case(res, text, ('const', value), {}, 'scalar')
    for w in ('abc', '_x', 'True'):
        option_case(res, w, ('kw', w), {}, 'word')
    res.sample({'family': 'options', 'options': LIMITS}, limit=1)
    return res


# --------------------------------------------------------------------------
# host: literal-typed parameters of host functions
# --------------------------------------------------------------------------
# name -> (declared type | None, accepted literal classes, nullable)
HOST_PARAMS = [
    ('num', lambda: yaqltypes.NumericConstant(), ('int', 'decimal'), False),
    ('text', lambda: yaqltypes.StringConstant(), ('string', 'keyword'), False),
    ('flag', lambda: yaqltypes.BooleanConstant(), ('bool',), False),
    ('lit', lambda: yaqltypes.Constant(False), ('int', 'decimal', 'string', 'keyword', 'bool'), False),
    ('nnum', lambda: yaqltypes.NumericConstant(True), ('int', 'decimal'), True),
    ('ntext', lambda: yaqltypes.StringConstant(True), ('string', 'keyword'), True),
    ('nflag', lambda: yaqltypes.BooleanConstant(True), ('bool',), True),
    ('nlit', lambda: yaqltypes.Constant(True), ('int', 'decimal', 'string', 'keyword', 'bool'), True),
    ('word', lambda: yaqltypes.Keyword(), ('keyword',), False),
    ('plain', None, ('int', 'decimal', 'string', 'keyword', 'bool'), True),
]
# (text, class, denoted value); leading-zero numerals are outside the reference, the rest is what the other families establish
HOST_LITERALS = (
    [(t, 'int', v) for t, v in (('0', 0), ('1', 1), ('7', 7), ('10', 10), ('255', 255), ('1' + '0' * 40, 10 ** 40))]
    + [(t, 'decimal', v) for t, v in (('0.0', 0.0), ('0.000', 0.0), ('0.5', 0.5), ('1.0', 1.0), ('1.25', 1.25), ('10.0', 10.0))]
    + [(M.quote(v, q), 'string', v) for v in ('', 'a', 'a b', '0', 'false', ' ', 'null') for q in M.STYLES]
    + [("'\\x00'", 'string', '\x00'), ('`\\d`', 'string', '\\d')]
    + [(w, 'keyword', w) for w in ('abc', '_', 'False')]
    + [('true', 'bool', True), ('false', 'bool', False), ('null', 'null', None)]
)
HOST_UNCOVERED = [('00', 'int'), ('007', 'int'), ('00.0', 'decimal')]      # judged differentially against the bare literal


def host_context():
    s = setup()
    if 'host' not in s:
        ctx = s['root'].create_child_context()
        received = []
        for name, make, _, _ in HOST_PARAMS:
            def payload(value, _name=name):
                received.append((_name, value))
                return value
            payload.__name__ = name
            if make is not None:
                payload = yspecs.parameter('value', make())(payload)
            ctx.register_function(payload, name=name)
        s['host'] = (ctx, received)
    return s['host']


def host_call(text):
    """('v', result, received values) | ('e', exception class)."""
    s = setup()
    ctx, received = host_context()
    del received[:]
    try:
        result = s['eng'](text).evaluate(context=ctx.create_child_context())
    except (yexc.NoMatchingFunctionException, yexc.NoMatchingMethodException):
        return ('e', 'nomatch')
    except Exception as e:
        return ('e', type(e).__name__)
    return ('v', result, [v for _, v in received])


def host_expect(name, cls, value):
    for pname, _, accepts, nullable in HOST_PARAMS:
        if pname == name:
            if cls == 'null':
                # which literal-typed declarations take the null literal is a question about parameter types, not
                # about what `null` denotes (today: non-nullable Constant takes it, nullable Numeric/String/Boolean
                # constants refuse it): judged only where the declaration is generic and nullable
                return ('v', None) if pname in ('nlit', 'plain') else None
            return ('v', value) if cls in accepts else ('e', 'nomatch')
    raise KeyError(name)


def host_judge(res, name, form, lit, cls, expect):
    text = '%s(%s)' % (name, lit) if form == 'positional' else '%s(value => %s)' % (name, lit)
    case = {'family': 'host', 'fn': name, 'form': form, 'literal': lit, 'class': cls}
    core.CURRENT_CASE[0] = case
    res.case(('host', text))
    obs = host_call(text)
    res.evaluations += 1
    res.transitions += 1
    if expect is None:
        res.out_of_domain += 1
        res.outcomes['host: out of domain -> %s' % (obs[0],)] += 1
        return
    res.nontrivial += 1
    if expect[0] == 'e':
        ok = obs == expect
    else:
        ok = obs[0] == 'v' and same(obs[1], expect[1]) and len(obs[2]) == 1 and same(obs[2][0], expect[1])
    res.outcomes['host: %s' % ('value' if obs[0] == 'v' else obs[1])] += 1
    if not ok:
        how = 'raised ' + obs[1] if obs[0] == 'e' else ('accepted' if expect[0] == 'e' else 'wrong value')
        res.fail('host param=%s literal=%s: %s' % (name, cls, how), case,
                 'text %r observed %.200r expected %.200r' % (text, obs, expect), size=len(text))


def job_host():
    res = Result()
    for name, _, _, _ in HOST_PARAMS:
        for form in ('positional', 'keyword'):
            for lit, cls, value in HOST_LITERALS:
                host_judge(res, name, form, lit, cls, host_expect(name, cls, value))
            for lit, cls in HOST_UNCOVERED:
                bare = observe(lit)
                expect = host_expect(name, cls, bare[1]) if bare[0] == 'const' else None
                host_judge(res, name, form, lit, cls, expect)
    res.sample({'family': 'host', 'functions': [n for n, _, _, _ in HOST_PARAMS], 'texts': ['num(0)', "text(value => '')"]}, limit=1)
    return res


# --------------------------------------------------------------------------
# together: several literals in one expression
# --------------------------------------------------------------------------
BS = '\\'
BAD = ('bad',)          # the lone literal is not one string token (its body ends in an unpaired backslash)


def together_bodies(q):
    """(body, core) token bodies of style q, simplest first: empty, runs of 1..4 backslashes at the end, the
    escaped quote of the own style (alone, embedded, after and in front of paired backslashes), the quote characters
    of the other styles (raw and behind a backslash), the separators of the embeddings, and bodies that look like the
    end of one literal followed by the start of the next.  core marks the subset used for triples in the quick tier."""
    o1, o2 = [s for s in M.STYLES if s != q]
    return [('', 1), ('a', 1), (BS * 2, 1), ('a' + BS * 2, 1), (BS + q, 1), (o1, 1), (o2, 1), (', ', 1), (BS, 1),
            (BS + q + BS * 2, 1), (BS * 4, 1), (BS * 3 + q, 1), (BS * 2 + o2, 1),
            (' ', 0), ('C:' + BS * 2, 0), (BS * 3, 0), ('a' + BS + q + 'b', 0), (BS + q + BS + q, 0), (o1 + o2, 0), (BS + o1, 0),
            (BS * 2 + o1, 0), (',', 0), ('=>', 0), (' => ', 0), ('+', 0), (' + ', 0), (BS + q + ', ' + BS + q, 0),
            (BS + q + ' + ' + BS + q, 0), (o1 + ', ' + o1, 0), (o2 + ' => ' + o2, 0), (BS + 'n', 0), (BS + 'x41' + BS * 2, 0),
            (']', 0), (')', 0), ('}', 0), ('[' + o1, 0)]


TOGETHER_SCALARS = [('1', 1), ('null', 1), ('abc', 1), ('0', 0), ('10', 0), ('0.5', 0), ('1.0', 0), ('true', 0), ('false', 0), ('_x', 0)]


def together_literals(core_only=False):
    """[(class, body)]: class is a quote style or 'scalar' (number, constant or keyword, body = its text)."""
    out = []
    for q in M.STYLES:
        out += [(q, body) for body, core in together_bodies(q) if core or not core_only]
    out += [('scalar', text) for text, core in TOGETHER_SCALARS if core or not core_only]
    return out


def literal_text(cls, body):
    return body if cls == 'scalar' else cls + body + cls


def literal_denotes(cls, body):
    """What the literal denotes on its own, from the reference model: ('const'|'kw', value) | BAD | None."""
    if cls == 'scalar':
        if body[0] in M.DIGITS:
            whole, dot, frac = body.partition('.')
            return ('const', M.decimal_value(whole, frac) if dot else M.int_value(whole))
        m = M.keyword(body, OPERATOR_WORDS)
        return ('const', m[1]) if m[0] == 'const' else ('kw', body)
    if not M.is_token_body(body, cls):
        return BAD
    v = M.verbatim_value(body) if cls == '`' else M.decode(body)
    return None if v is M.ILLFORMED else ('const', v)


# name -> (template, strings only); the tight variant is the template without its blanks
SHAPES = {
    'alone': ('%s', False),
    'list2': ('[%s, %s]', False), 'plus2': ('%s + %s', True), 'map2': ('{%s => %s}', False),
    'call2': ('list(%s, %s)', False), 'concat2': ('concat(%s, %s)', True),
    'list3': ('[%s, %s, %s]', False), 'plus3': ('%s + %s + %s', True), 'concat3': ('concat(%s, %s, %s)', True),
    'nest3': ('{%s => [%s, %s]}', False),
}
SHAPES2 = ('list2', 'plus2', 'map2', 'call2', 'concat2')
# (shape, tight) variants of the triples over the core literals; the tight triples are compared in the tree only, the
# others are evaluated as well.  thorough runs [a,b,c] without blanks over ALL literals instead of the core.
SHAPES3 = {'quick': (('list3', False), ('list3', True), ('plus3', False), ('plus3', True)),
           'thorough': (('list3', False), ('plus3', False), ('plus3', True), ('concat3', True), ('nest3', False))}


def together_text(shape, tight, lits):
    template = SHAPES[shape][0]
    if tight:
        template = template.replace(' ', '')
    return template % tuple(literal_text(*l) for l in lits)


def together_value(shape, values):
    if shape == 'alone':
        return values[0]
    if shape.startswith(('list', 'call')):
        return list(values)
    if shape.startswith(('plus', 'concat')):
        return ''.join(values)
    if shape == 'map2':
        return {values[0]: values[1]}
    return {values[0]: [values[1], values[2]]}


def together_expect(shape, tight, lits):
    """('value', [(kind, value) per literal], value of the expression) | ('rejected',) | None: every literal denotes
    what it denotes alone; when one of them alone is an unterminated string the text is judged only if the reference
    division into tokens leaves a quote open (then it is an error), otherwise it is a different text (not judged)."""
    denotes = [literal_denotes(*l) for l in lits]
    if any(d is None for d in denotes):
        return None
    if any(d is BAD for d in denotes):
        return ('rejected',) if M.string_tokens(together_text(shape, tight, lits)) is M.UNTERMINATED else None
    return ('value', denotes, together_value(shape, [d[1] for d in denotes]))


def constants(node, out):
    """The literal nodes of a tree, left to right."""
    if isinstance(node, X.Constant):
        out.append(('kw' if isinstance(node, X.KeywordConstant) else 'const', node.value))
    elif isinstance(node, X.MappingRuleExpression):
        constants(node.source, out)
        constants(node.destination, out)
    elif isinstance(node, X.Function):
        for a in node.args:
            constants(a, out)
    else:
        out.append(('node', type(node).__name__))
    return out


def deep_same(x, y):
    if type(x) is not type(y):
        return False
    if isinstance(x, list):
        return len(x) == len(y) and all(deep_same(a, b) for a, b in zip(x, y))
    if isinstance(x, dict):
        return len(x) == len(y) and all(any(deep_same(k, k2) and deep_same(v, v2) for k2, v2 in y.items()) for k, v in x.items())
    return same(x, y)


def observe_together(text, evaluate=True):
    """('value', literal nodes, evaluated | None when not evaluated) | ('rejected', class) | ('raised', class)."""
    s = setup()
    try:
        st = s['eng'](text)
    except yexc.YaqlParsingException as e:
        return ('rejected', type(e).__name__)
    except Exception as e:
        return ('raised', type(e).__name__)
    nodes = constants(st.expression, [])
    if not evaluate:
        return ('value', nodes, None)
    try:
        ev = st.evaluate(context=s['root'].create_child_context())
    except Exception as ex:
        return ('raised', 'evaluate:' + type(ex).__name__)
    return ('value', nodes, ev)


def together_verdict(obs, expect, evaluate=True):
    """None when the observation is what the reference expects, else a short description of the difference."""
    if expect[0] == 'rejected':
        return None if obs[0] == 'rejected' else 'accepted' if obs[0] == 'value' else 'raised ' + obs[1]
    if obs[0] != 'value':
        return obs[0] + ' ' + obs[1]
    if len(obs[1]) != len(expect[1]) or not all(a[0] == b[0] and same(a[1], b[1]) for a, b in zip(obs[1], expect[1])):
        return 'wrong literal in the tree'
    return None if not evaluate or deep_same(obs[2], expect[2]) else 'wrong value'


def together_case(res, shape, tight, lits, evaluate=True):
    if SHAPES[shape][1] and any(cls == 'scalar' for cls, _ in lits):
        return
    case = {'family': 'together', 'shape': shape, 'tight': tight, 'lits': [list(l) for l in lits]}
    core.CURRENT_CASE[0] = case
    res.case(('together', shape, tight, tuple(lits)))
    text = together_text(shape, tight, lits)
    expect = together_expect(shape, tight, lits)
    obs = observe_together(text, evaluate)
    res.evaluations += 1
    res.extra['evaluated_as_well_as_parsed'] = res.extra.get('evaluated_as_well_as_parsed', 0) + (1 if evaluate else 0)
    res.transitions += 1
    if expect is None:
        res.out_of_domain += 1
        res.outcomes['together: out of domain -> %s' % obs[0]] += 1
        return
    res.nontrivial += 1
    res.outcomes['together: %s' % obs[0]] += 1
    how = together_verdict(obs, expect, evaluate)
    if how:
        classes = sorted({cls for cls, _ in lits}, key=(M.STYLES + ('scalar',)).index)
        res.fail('together literals=%s: %s' % ('+'.join(classes), how), case,
                 'text %r observed %.200r expected %.200r' % (text, obs, expect), size=len(text))


def job_together_pairs(firsts):
    res = Result()
    lits = together_literals()
    for a in firsts:
        a = tuple(a)
        together_case(res, 'alone', False, (a,))
        for b in lits:
            for shape in SHAPES2:
                for tight in (False, True):
                    together_case(res, shape, tight, (a, b))
    res.sample({'family': 'together', 'texts': [together_text(sh, t, (tuple(firsts[0]), lits[3])) for sh in SHAPES2 for t in (False, True)]}, limit=1)
    return res


def job_together_triples(firsts, core_only, variants):
    res = Result()
    lits = together_literals(core_only)
    for a in firsts:
        a = tuple(a)
        for b in lits:
            for c in lits:
                for shape, tight in variants:
                    together_case(res, shape, tight, (a, b, c), not tight)
    res.sample({'family': 'together', 'texts': [together_text(sh, t, (tuple(firsts[0]), lits[2], lits[3])) for sh, t in variants]}, limit=1)
    return res


# --------------------------------------------------------------------------
def jobs(tier, seed):
    out = []
    for i, sl in enumerate(chunks(SPELL_ALPHA, 8)):
        out.append(('spell-strings-%d' % i, 'job_spell_strings', (sl,)))
    for lo in range(0, 0x10000, 0x2000):
        out.append(('spell-bmp-%04x' % lo, 'job_spell_codepoints', ([(lo, lo + 0x2000)],)))
    out.append(('spell-astral', 'job_spell_codepoints', ([(cp, cp + 1) for cp in ASTRAL],)))
    for i, sl in enumerate(chunks(LINE_CHARS, 10)):
        out.append(('spell-pairs-%d' % i, 'job_spell_pairs', (sl,)))
    wide_all = tier == 'thorough'
    cuts = [0, 0x80, 0x100, 0x200, 0x300, 0x1000, 0x2000] + list(range(0x3000, 0x10001, 0x1000))
    for lo, hi in zip(cuts, cuts[1:]):
        out.append(('escape-%04x' % lo, 'job_escapes', ([(lo, hi)], wide_all or lo < 0x3000)))
    out.append(('escape-astral', 'job_escapes', ([(cp, cp + 1) for cp in ASTRAL], True)))
    maxlen = 4 if tier == 'quick' else 5
    for i, sl in enumerate(chunks(BODY_ALPHA, 9 if tier == 'quick' else 18)):
        out.append(('body-%d' % i, 'job_bodies', (sl, maxlen)))
    for lo in range(0, 10 ** 5, 25000):
        out.append(('int-small-%d' % lo, 'job_small_ints', (lo, lo + 25000)))
    ks = list(range(6, MAX_K + 1)) if tier == 'thorough' else sorted(set(range(6, 121)) | set(range(6, MAX_K + 1, 7)) | {MAX_K})
    nj = 4 if tier == 'quick' else 8
    for i in range(nj):
        out.append(('int-big-%d' % i, 'job_big_ints', (ks[i::nj],)))      # strided: equal shares of the long numerals
    for i, sl in enumerate(chunks(WHOLE, 6)):
        out.append(('decimal-%d' % i, 'job_decimals', (sl,)))
    out.append(('words', 'job_words', ()))
    out.append(('evalpath', 'job_evalpath', ()))
    out.append(('options', 'job_options', ()))
    out.append(('host', 'job_host', ()))
    for i, sl in enumerate(chunks(together_literals(), 16)):
        out.append(('together-pairs-%d' % i, 'job_together_pairs', (sl,)))
    for i, sl in enumerate(chunks(together_literals(core_only=True), 16)):
        out.append(('together-triples-%d' % i, 'job_together_triples', (sl, True, SHAPES3[tier])))
    if tier == 'thorough':
        for i, sl in enumerate(chunks(together_literals(), 32)):
            out.append(('together-triples-all-%d' % i, 'job_together_triples', (sl, False, (('list3', True),))))
    return out


def replay(case):
    fam = case['family']
    if fam == 'evalpath':
        r = job_evalpath()
        return {'observed': [f.detail for f in r.failures.values()], 'expected': 'every literal denotes its own text', 'ok': not r.failures}
    if fam == 'options':
        obs = observe(case['text'], True, 'eng-limits')
        plain = observe(case['text'])
        return {'text': case['text'], 'observed': '%.300r' % (obs,), 'expected': 'as without options: %.300r' % (plain,),
                'ok': obs[0] == plain[0] and all(same(a, b) for a, b in zip(obs[1:], plain[1:]))}
    if fam == 'host':
        name, lit, cls = case['fn'], case['literal'], case['class']
        text = '%s(%s)' % (name, lit) if case['form'] == 'positional' else '%s(value => %s)' % (name, lit)
        bare = observe(lit)
        expect = host_expect(name, cls, bare[1] if bare[0] in ('const', 'kw') else None) if bare[0] in ('const', 'kw') else None
        obs = host_call(text)
        if expect is None:
            ok = True
        elif expect[0] == 'e':
            ok = obs == expect
        else:
            ok = obs[0] == 'v' and same(obs[1], expect[1]) and len(obs[2]) == 1 and same(obs[2][0], expect[1])
        return {'text': text, 'observed': '%.300r' % (obs,), 'expected': '%.300r' % (expect,), 'ok': ok}
    if fam == 'together':
        lits = [tuple(l) for l in case['lits']]
        text = together_text(case['shape'], case['tight'], lits)
        expect = together_expect(case['shape'], case['tight'], lits)
        obs = observe_together(text)
        return {'text': text, 'observed': '%.300r' % (obs,), 'expected': '%.300r' % (expect,),
                'alone': [[literal_text(*l), '%.80r' % (literal_denotes(*l),)] for l in lits],
                'ok': expect is None or together_verdict(obs, expect) is None}
    if fam == 'spell':
        text = M.quote(case['value'], case['style'])
        expect = ('const', case['value'])
        if case['style'] == '`' and not M.verbatim_spellable(case['value']):
            expect = None
    elif fam in ('escape', 'body'):
        q, body = case['style'], case['body']
        text = q + body + q
        if q == '`':
            expect = ('const', M.verbatim_value(body))
        else:
            v = M.decode(body)
            expect = None if v is M.ILLFORMED else ('const', v)
    elif fam == 'int':
        what = case['what']
        if what[0] in ('n', '0n'):
            text, value = ('00' if what[0] == '0n' else '') + str(what[1]), what[1]
        else:
            text, value = big_int(what)
        expect = None if (len(text) > 1 and text[0] == '0') else ('const', value)
    elif fam == 'decimal':
        text = case['whole'] + '.' + case['frac']
        value = M.decimal_value(case['whole'], case['frac'])
        expect = None if value is None else ('const', value)
    else:
        text = case['word']
        m = M.keyword(text, OPERATOR_WORDS)
        expect = None if m is None else ('const', m[1]) if m[0] == 'const' else ('kw', text) if m[0] == 'text' else ('rejected',)
    obs = observe(text)
    if expect is None:
        ok = True
    elif expect[0] == 'rejected':
        ok = obs[0] == 'rejected'
    else:
        ok = obs[0] == expect[0] and same(obs[1], expect[1]) and same(obs[2], expect[1])
    return {'text': text if len(text) < 200 else text[:100] + '...', 'observed': '%.300r' % (obs,),
            'expected': '%.300r' % (expect,), 'ok': ok}
