import warnings; warnings.filterwarnings('ignore')
import sys
src = open('/tmp/proto/spell.py').read()
exec(src.split("fds = []")[0])
from yaql.language import specs as S
fds = []
c = ROOT
while c is not None:
    for name, s in c._functions.items():
        for fd in s: fds.append(fd)
    c = c.parent
def lit(v):
    if v is None: return 'null'
    if v is True: return 'true'
    if v is False: return 'false'
    if isinstance(v, int): return str(v) if v >= 0 else '(%d)' % v
    if isinstance(v, str): return "'%s'" % v
    return None
def canon2(r):
    if r[0] == 'ok':
        v = r[1]
        if not isinstance(v, (int, float, str, bool, type(None), tuple)): return ('ok', type(v).__name__)
    return r
stats = collections.Counter(); diffs = []
for fd in sorted(fds, key=lambda f: (f.name, f.payload.__name__)):
    if fd.name.startswith('#') or fd.name.startswith('*'): continue
    if fd.name in ('random', 'now', 'localtz', '__main'): continue
    ps = sorted([p for k, p in fd.parameters.items() if p.position is not None and k != '*' and not isinstance(p.value_type, yaqltypes.HiddenParameterType)], key=lambda p: p.position)
    vals = []; ok = True
    for p in ps:
        cv = corpus(p)
        if cv is None: ok = False; break
        vals.append(cv[0])
    if not ok: continue
    names = [p.alias or p.name for p in ps]
    has_def = [p.default is not S.NO_DEFAULT for p in ps]
    lazy = [isinstance(p.value_type, yaqltypes.LazyParameterType) for p in ps]
    def render(items, kw):   # items: list of text or '' (skip)
        args = list(items) + ['%s => %s' % (k, v) for k, v in kw]
        if fd.is_function: return '%s(%s)' % (fd.name, ', '.join(args))
        recv = items[0]
        if not recv[0] in "'[{" and not recv[-1] == ')': recv = '(' + recv + ')'
        return '%s.%s(%s)' % (recv, fd.name, ', '.join(list(items[1:]) + ['%s => %s' % (k, v) for k, v in kw]))
    groups = []
    # group 1: each defaulted param i (not first when method): omitted-by-keyword-absence vs skipped slot vs explicit default
    for i, p in enumerate(ps):
        if not has_def[i] or (i == 0 and not fd.is_function): continue
        variants = []
        # a) pass others by position up to i-1, rest by keyword, omit i
        kw = [(names[j], vals[j]) for j in range(i + 1, len(ps))]
        if not fd.no_kwargs or not kw: variants.append(('omit', render(vals[:i], kw)))
        # b) skipped slot (needs something after it positionally)
        if i < len(ps) - 1: variants.append(('skip', render(vals[:i] + [''] + vals[i + 1:], [])))
        # c) explicit default
        dl = lit(p.default)
        if dl is not None and not lazy[i]: variants.append(('explicit', render(vals[:i] + [dl] + vals[i + 1:], [])))
        if len(variants) > 1: groups.append(variants)
    # group 2: call()
    if not any(lazy) and fd.is_function and vals and not fd.no_kwargs:
        groups.append([('pos', render(vals, [])), ('call', "call('%s', [%s], {})" % (fd.name, ', '.join(vals))),
                       ('callkw', "call('%s', [%s], {%s})" % (fd.name, ', '.join(vals[:-1]), "'%s' => %s" % (names[-1], vals[-1])))])
    if not any(lazy) and fd.is_method and not fd.is_function and vals and not fd.no_kwargs:
        groups.append([('pos', render(vals, [])), ('call', "call('%s', [%s], {}, %s)" % (fd.name, ', '.join(vals[1:]), vals[0]))])
    for g in groups:
        res = [(lab, t, canon2(ev(t))) for lab, t in g]
        stats['groups'] += 1; stats['spellings'] += len(res)
        if len({r for _, _, r in res}) > 1:
            stats['DIFF'] += 1; diffs.append((fd.name, fd.payload.__name__, res))
print(stats)
for d in diffs:
    print('==', d[0], d[1])
    for lab, t, r in d[2]: print('     %-9s %-70s %s' % (lab, t, str(r)[:70]))
