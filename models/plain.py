"""Reference model for property C10 (round trip and finalisation into plain data).

Written from the property statement and doc/source/extending_yaql.rst
("yaql.convertTuplesToLists ... converts all tuples in the expression result
to lists. The default is True", "yaql.convertSetsToLists ... converts all sets
in the expression result to lists ... The default is False"); imports nothing
from yaql.

The finalised form of a value ("image"):
    mapping            -> dict      (keys and values finalised)
    set-like           -> list if convertSetsToLists else set
    tuple              -> list if convertTuplesToLists else tuple
    list               -> list
    any other iterable -> list      (generators, iterators, views, ordering objects)
    anything else      -> itself    (scalar leaf)
Images are tagged trees ('dict', [(k, v), ...]) | ('list', [...]) | ('tuple', [...])
| ('set', [...]) | ('setlist', [...]) | leaf, so that an image whose dict key or
set member would be unhashable can still be written down: `image` reports such
places in `bad` as (site, converted_to), site in {'dict-key', 'set-element'}.
"""
import collections.abc
import itertools

LEAVES = (1, 1.5, 'a', True, None)
CONTAINERS = ('list', 'tuple', 'dict', 'set', 'frozenset', 'gen')
SCALARS = (int, float, str, bool, type(None))


class Gen(object):
    """Stands for a one-shot generator in the twin of a document (hashable by
    identity like a real generator, but re-readable)."""

    def __init__(self, items, ordered=True):
        self.items = items
        self.ordered = ordered


# ---------------------------------------------------------------------------
# documents
# ---------------------------------------------------------------------------
def nodes(desc):
    return 1 if desc[0] == 'leaf' else 1 + sum(nodes(c) for c in desc[1])


def _hashable_desc(desc):
    kind = desc[0]
    if kind in ('leaf', 'gen'):
        return True
    if kind in ('tuple', 'frozenset'):
        return all(_hashable_desc(c) for c in desc[1])
    return False


def documents(depth, width, max_nodes):
    """Every document description of nesting depth <= depth (a leaf has depth 1),
    containers of 0..width children, at most max_nodes nodes; simplest first.
    Sets only hold hashable host values, and only pairwise distinct ones
    (1 and True are the same set member)."""
    leaves = [('leaf', i) for i in range(len(LEAVES))]
    cur = list(leaves)                      # all documents of depth <= 1
    for _d in range(depth - 1):
        new = []
        for kind in CONTAINERS:
            for w in range(width + 1):
                for children in itertools.product(cur, repeat=w):
                    desc = (kind, tuple(children))
                    if nodes(desc) > max_nodes:
                        continue
                    if kind in ('set', 'frozenset'):
                        if not all(_hashable_desc(c) for c in children):
                            continue
                        if len(build(desc)) != w:
                            continue
                    new.append(desc)
        cur = leaves + new                  # depth <= d + 2
    return sorted(cur, key=lambda d: (nodes(d), _depth(d)))


def _depth(desc):
    return 1 if desc[0] == 'leaf' else 1 + max([_depth(c) for c in desc[1]] or [0])


def build(desc, twin=False, frozenset_as_iterator=False):
    """The host document (twin=False: generators are real one-shot generators,
    build once per evaluation) or its re-readable twin: generators are Gen and
    a host list is the same sequence as a tuple (the canonical sequence type of
    a result is decided by convertTuplesToLists alone).
    frozenset_as_iterator: the twin a library would see if it treated a host
    frozenset as "some iterable" instead of a set (diagnosis only)."""
    kind = desc[0]
    if kind == 'leaf':
        return LEAVES[desc[1]]
    kids = [build(c, twin, frozenset_as_iterator) for c in desc[1]]
    if kind == 'list':
        return tuple(kids) if twin else kids
    if kind == 'tuple':
        return tuple(kids)
    if kind == 'dict':
        return {'k%d' % i: k for i, k in enumerate(kids)}
    if kind == 'set':
        return set(kids)
    if kind == 'frozenset':
        # read as an iterator, a frozenset yields its members in some order of its own
        return Gen(kids, ordered=False) if twin and frozenset_as_iterator else frozenset(kids)
    return Gen(kids) if twin else (k for k in kids)


def spell(desc):
    kind = desc[0]
    if kind == 'leaf':
        return repr(LEAVES[desc[1]])
    return '%s(%s)' % (kind, ', '.join(spell(c) for c in desc[1]))


def rebound(twin, how):
    """What an identity-like expression that rebinds `$` per element / per entry gives back, as a twin:
    'same' the document, 'single' a sequence holding just the document, 'elements' the members of a collection
    document as a sequence (in no particular order when the collection is a set), 'values' / 'keys' those of a
    dict document (entry order is not part of the property)."""
    if how == 'same':
        return twin
    if how == 'single':
        return Gen([twin])
    if how == 'elements':
        if isinstance(twin, Gen):
            return Gen(list(twin.items), twin.ordered)
        return Gen(list(twin), ordered=isinstance(twin, tuple))
    return Gen(list(twin.values() if how == 'values' else twin.keys()), ordered=False)


# ---------------------------------------------------------------------------
# images
# ---------------------------------------------------------------------------
def image(v, t2l, s2l, bad):
    if isinstance(v, Gen):
        return ('list' if v.ordered else 'setlist', [image(x, t2l, s2l, bad) for x in v.items])
    if isinstance(v, SCALARS):
        return v
    if isinstance(v, collections.abc.Mapping):
        pairs = []
        for k, x in v.items():
            ki = image(k, t2l, s2l, bad)
            u = unhashable_type(ki)
            if u:
                bad.append(('dict-key', u))
            pairs.append((ki, image(x, t2l, s2l, bad)))
        return ('dict', pairs)
    if isinstance(v, collections.abc.Set):
        items = [image(x, t2l, s2l, bad) for x in v]
        if s2l:
            return ('setlist', items)
        for it in items:
            u = unhashable_type(it)
            if u:
                bad.append(('set-element', u))
        return ('set', items)
    if isinstance(v, tuple):
        return ('list' if t2l else 'tuple', [image(x, t2l, s2l, bad) for x in v])
    if isinstance(v, list):
        return ('list', [image(x, t2l, s2l, bad) for x in v])
    if isinstance(v, collections.abc.Iterable) and not isinstance(v, (bytes, bytearray)):
        return ('list', [image(x, t2l, s2l, bad) for x in v])
    return v


def unhashable_type(img):
    """Name of the first unhashable plain type a finalised member would have, or None."""
    if not isinstance(img, tuple) or len(img) != 2 or img[0] not in ('dict', 'list', 'setlist', 'set', 'tuple'):
        return None
    if img[0] == 'tuple':
        for x in img[1]:
            u = unhashable_type(x)
            if u:
                return u
        return None
    return {'setlist': 'list'}.get(img[0], img[0])


def is_tag(img):
    return isinstance(img, tuple) and len(img) == 2 and img[0] in ('dict', 'list', 'setlist', 'set', 'tuple') \
        and isinstance(img[1], list)


def same(value, img, relaxed=False, _hashed=False):
    """Exact agreement of a finalised value with an image: container types,
    leaf types (True is not 1), sets and lists-made-from-sets order-insensitive.
    relaxed (only used where the image itself needs an unhashable key/member):
    a dict key or set member may use the hashable spelling of its image (tuple
    for list, frozenset for set) and a set that cannot hold its members may be a list."""
    if not is_tag(img):
        return type(value) is type(img) and value == img
    tag, items = img
    if tag == 'dict':
        if type(value) is not dict or len(value) != len(items):
            return False
        return _match(list(value.items()), items,
                      lambda kx, kv: same(kx[0], kv[0], relaxed, True) and same(kx[1], kv[1], relaxed, False))
    want = [{'list': list, 'setlist': list, 'tuple': tuple, 'set': set}[tag]]
    if relaxed and _hashed:
        want += [tuple] if tag in ('list', 'setlist') else [frozenset] if tag == 'set' else []
    if relaxed and tag == 'set' and any(unhashable_type(it) for it in items):
        want.append(list)
    if type(value) not in want or len(value) != len(items):
        return False
    if tag in ('list', 'tuple'):
        return all(same(a, b, relaxed, _hashed) for a, b in zip(value, items))
    return _match(list(value), items, lambda y, it: same(y, it, relaxed, _hashed or tag == 'set'))


def _match(values, items, eq):
    """Is there a one-to-one pairing of values with items under eq?  (Backtracking:
    an unordered member may agree with several images, greedy pairing is not enough.)"""
    if not items:
        return not values
    first, rest = items[0], items[1:]
    for j, y in enumerate(values):
        if eq(y, first) and _match(values[:j] + values[j + 1:], rest, eq):
            return True
    return False


def first_difference(value, img):
    """(expected, observed) type names at the outermost node where a finalised
    value stops agreeing with its image; None if they agree."""
    if same(value, img):
        return None
    if not is_tag(img):
        return (type(img).__name__, type(value).__name__)
    tag, items = img
    want = {'list': list, 'setlist': list, 'tuple': tuple, 'set': set, 'dict': dict}[tag]
    if type(value) is not want or len(value) != len(items):
        return (tag if tag != 'setlist' else 'list', type(value).__name__ if type(value) is not want else 'different length')
    if tag in ('list', 'tuple'):
        pairs = list(zip(value, items))
    elif tag == 'dict':
        pairs = [(x, vi) for ki, vi in items for k, x in value.items() if same(k, ki)]
        if len(pairs) != len(items):
            return ('dict key', 'other key')
    else:
        lone_items = [it for it in items if not any(same(y, it) for y in value)]
        lone_values = [y for y in value if not any(same(y, it) for it in items)]
        pairs = list(zip(lone_values, lone_items))
    for y, it in pairs:
        d = first_difference(y, it)
        if d:
            return d
    return (tag, 'same type, different members')


def show(img):
    if not is_tag(img):
        return repr(img)
    tag, items = img
    if tag == 'dict':
        return '{' + ', '.join('%s: %s' % (show(k), show(v)) for k, v in items) + '}'
    o, c = {'list': '[]', 'setlist': '[]', 'tuple': '()', 'set': ('set(', ')')}[tag]
    return o + ', '.join(show(x) for x in items) + c


def census(value, t2l, s2l, hashed_ok=False, _in_hashed=False, out=None):
    """Type names found in a finalised value that are not plain data.  Plain:
    dict, list, tuple iff tuple conversion is off, set iff set conversion is
    off, scalar leaves.  With hashed_ok, tuples and frozensets are additionally
    tolerated as dict keys / set members (the only hashable spelling a composite
    key or member can have in Python)."""
    out = set() if out is None else out
    t = type(value)
    if t in SCALARS:
        return out
    if t is dict:
        for k, x in value.items():
            census(k, t2l, s2l, hashed_ok, True, out)
            census(x, t2l, s2l, hashed_ok, False, out)
    elif t is list or (t is tuple and (not t2l or (hashed_ok and _in_hashed))):
        for x in value:
            census(x, t2l, s2l, hashed_ok, _in_hashed, out)
    elif (t is set and not s2l) or (t is frozenset and hashed_ok and _in_hashed):
        for x in value:
            census(x, t2l, s2l, hashed_ok, True, out)
    else:
        out.add(t.__name__)
    return out
