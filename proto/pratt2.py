import warnings; warnings.filterwarnings('ignore')
import itertools, collections, copy
import yaql
from yaql.language import factory as F, expressions as X, exceptions
from pratt import P, canon, text
OT = F.OperatorType

def groups_of(ops):
    gs = [[]]
    for r in ops:
        if not r: gs.append([])
        else: gs[-1].append((r[0], r[1]))
    return [g for g in gs]   # may contain empty groups? keep

def model_insert(groups, existing, existing_binary, new, typ, create_group):
    groups = [list(g) for g in groups]
    bin_t = (OT.BINARY_LEFT_ASSOCIATIVE, OT.BINARY_RIGHT_ASSOCIATIVE)
    if existing is None:
        if create_group: groups.insert(0, [(new, typ)])
        else: groups[0].insert(0, (new, typ))
        return groups
    for gi, g in enumerate(groups):
        for (s, t) in g:
            if s == existing and ((t in bin_t) == bool(existing_binary)) and t != OT.NAME_VALUE_PAIR:
                if create_group: groups.insert(gi + 1, [(new, typ)])
                else: g.append((new, typ))
                return groups
    raise ValueError

def table_from_groups(groups):
    t = collections.defaultdict(dict)
    lvl = 0
    for g in groups:
        lvl += 1
        for sym, typ in g:
            if typ == OT.NAME_VALUE_PAIR: continue
            if typ == OT.PREFIX_UNARY: t[sym]['prefix'] = lvl
            elif typ == OT.SUFFIX_UNARY: t[sym]['suffix'] = lvl
            elif typ == OT.BINARY_LEFT_ASSOCIATIVE: t[sym]['binary'] = (lvl, 'l')
            else: t[sym]['binary'] = (lvl, 'r')
    return t

class P2(P):
    def expr(self, stack=None):
        tok = self.next()
        if tok[0] == 'opd': left = tok[1]
        elif tok[0] == '(':
            left = self.expr(None); assert self.next() == (')',)
        elif tok[0] == 'op' and 'prefix' in self.tab[tok[1]]:
            lvl = self.tab[tok[1]]['prefix']
            operand = self.expr((lvl, self.level_assoc(lvl, 'l')))
            left = ('u' + tok[1], operand)
        else: raise SyntaxError(tok)
        while True:
            tok = self.peek()
            if tok is None or tok[0] in (')', ']'): return left
            if tok[0] == '[':
                lvl = self.tab['[]']['binary']
                if not self.shifts(stack, lvl): return left
                self.next(); idx = self.expr(None); assert self.next() == (']',)
                left = ('index', left, idx); continue
            d = self.tab[tok[1]]
            if 'suffix' in d and not ('binary' in d):
                if not self.shifts(stack, (d['suffix'], 'r')): return left
                self.next(); left = ('u' + tok[1], left); continue
            b = d.get('binary')
            if b is None: raise SyntaxError(tok)
            if not self.shifts(stack, b): return left
            self.next(); right = self.expr(b); left = (tok[1], left, right)

def run(inserts, label):
    fac = yaql.YaqlFactory()
    groups = groups_of(fac.operators)
    for ins in inserts:
        fac.insert_operator(*ins)
        groups = model_insert(groups, *ins)
    real_groups = [g for g in groups_of(fac.operators)]
    same_table = [g for g in real_groups if g] == [g for g in groups if g]
    eng = fac.create(); tab = table_from_groups([g for g in groups if g])
    bins = [s for s, d in tab.items() if 'binary' in d and s not in ('[]', '{}')]
    pres = [s for s, d in tab.items() if 'prefix' in d]; sufs = [s for s, d in tab.items() if 'suffix' in d]
    new_syms = {i[2] for i in inserts}
    n = bad = 0; ex = []
    names = 'abcd'
    for k in (1, 2):
        for ops in itertools.product(bins, repeat=k):
            variants = [None] + [('p', p, pos) for p in pres for pos in range(k + 1)] + [('s', s, pos) for s in sufs for pos in range(k + 1)]
            for v in variants:
                used = set(ops) | ({v[1]} if v else set())
                if not (used & new_syms): continue
                toks = []
                for j in range(k + 1):
                    if v and v[0] == 'p' and v[2] == j: toks.append(('op', v[1]))
                    toks.append(('opd', names[j]))
                    if v and v[0] == 's' and v[2] == j: toks.append(('op', v[1]))
                    if j < k: toks.append(('op', ops[j]))
                txt = text(toks)
                try: exp = P2(toks, tab).expr()
                except SyntaxError: exp = 'ERR'
                try: got = canon(eng(txt))
                except exceptions.YaqlParsingException: got = 'ERR'
                n += 1
                if exp != got:
                    bad += 1
                    if len(ex) < 6: ex.append((txt, exp, got))
    print(label, 'table_equal', same_table, 'cases', n, 'mismatch', bad)
    for e in ex: print('   ', e)

run([('*', True, '**', OT.BINARY_RIGHT_ASSOCIATIVE, True)], 'pow new group after *')
run([('*', True, '%%', OT.BINARY_LEFT_ASSOCIATIVE, False)], '%% joins *')
run([('.', True, '!', OT.SUFFIX_UNARY, True)], '! suffix new group after .')
run([('not', False, '~', OT.PREFIX_UNARY, False)], '~ prefix joins not')
run([('->', True, '~', OT.PREFIX_UNARY, False)], '~ prefix joins -> (right group)')
run([(None, True, ':', OT.BINARY_LEFT_ASSOCIATIVE, True)], ': tightest new group')
run([(None, True, ':', OT.BINARY_LEFT_ASSOCIATIVE, False)], ': joins first group')
run([('or', True, 'xor', OT.BINARY_LEFT_ASSOCIATIVE, False)], 'xor joins or')
run([('+', True, '**', OT.BINARY_RIGHT_ASSOCIATIVE, False)], '** right joins + (INhomogeneous)')
run([('-', False, '!', OT.SUFFIX_UNARY, False)], '! suffix joins unary +,- (INhomogeneous)')
run([('*', True, '**', OT.BINARY_RIGHT_ASSOCIATIVE, True), ('**', True, '!', OT.SUFFIX_UNARY, True)], 'two inserts')
