import warnings; warnings.filterwarnings('ignore')
import datetime, re, collections, itertools
import yaql
from yaql.language import yaqltypes, utils, specs, exceptions, contexts
from yaql.standard_library import queries
eng = yaql.YaqlFactory(allow_delegates=True).create({'yaql.limitIterators': 50})
ROOT = yaql.create_context(delegates=True)
# corpus: type -> list of (yaql text)
def corpus(p):
    t = p.value_type
    n = type(t).__name__
    if isinstance(t, yaqltypes.HiddenParameterType): return None
    if n == 'String': return ["'ab'"]
    if n == 'Integer' : return ['2']
    if n == 'Number': return ['3']
    if n == 'DateTime': return ['datetime(2015, 1, 2)']
    if n in ('Iterable', 'Sequence'): return ['[1, 2, 3]']
    if n == 'Iterator': return ['[1, 2, 3].select($)']
    if n == 'Lambda': return ['$']
    if n == 'Keyword': return ['foo']
    if n == 'StringConstant': return ["'s'"]
    if n == 'MappingRule': return ['a => 1']
    if n == 'YaqlExpression': return ['len()']
    if n == 'Yaqlized': return None
    if n == 'PythonType':
        pt = t.python_type
        if pt is object: return ['1']
        if pt is int: return ['2']
        if pt is bool: return ['true']
        if pt is datetime.timedelta: return ['timespan(hours => 1)']
        if pt is datetime.datetime: return ['datetime(2015, 1, 2)']
        if pt is utils.MappingType: return ['{a => 1}']
        if pt is utils.SetType: return ['set(1, 2)']
        if pt is type(None): return ['null']
        if pt is type(re.compile('.')): return ["regex('a')"]
        if pt is utils.MappingRule: return ['a => 1']
        if pt is queries.OrderingIterable: return ['[2, 1].orderBy($)']
        if pt is utils.IteratorType: return ['[1, 2, 3].select($)']
        if pt is contexts.ContextBase: return ['let(a => 1)']
        return None
    return None

def canon(v):
    if isinstance(v, float): return round(v, 9)
    if isinstance(v, dict): return ('d', tuple(sorted((repr(canon(k)), repr(canon(x))) for k, x in v.items())))
    if isinstance(v, (list, tuple)): return ('l', tuple(canon(x) for x in v))
    if isinstance(v, (set, frozenset)): return ('s', tuple(sorted(repr(canon(x)) for x in v)))
    return v

def ev(txt):
    try: return ('ok', canon(eng(txt).evaluate(context=ROOT.create_child_context(), data=None)))
    except Exception as e: return ('exc', type(e).__name__)

fds = []
c = ROOT
while c is not None:
    for name, s in c._functions.items():
        for fd in s: fds.append(fd)
    c = c.parent
print(len(fds))
stats = collections.Counter(); diffs = []
for fd in sorted(fds, key=lambda f: (f.name, f.payload.__name__)):
    if fd.name.startswith('#') or fd.name.startswith('*'): stats['operator'] += 1; continue
    if fd.name in ('random', 'now', 'localtz', '__main'): continue
    ps = sorted([p for k, p in fd.parameters.items() if p.position is not None and k != '*' and not isinstance(p.value_type, yaqltypes.HiddenParameterType)], key=lambda p: p.position)
    kwonly = [p for k, p in fd.parameters.items() if p.position is None and k != '**' and not isinstance(p.value_type, yaqltypes.HiddenParameterType)]
    vals = []
    ok = True
    for p in ps:
        cv = corpus(p)
        if cv is None: ok = False; break
        vals.append(cv[0])
    if not ok: stats['nocorpus'] += 1; continue
    names = [p.alias or p.name for p in ps]
    def spell(k, as_method):
        pos = vals[:k]; kw = ['%s => %s' % (n, v) for n, v in zip(names[k:], vals[k:])]
        if as_method:
            if k == 0: return None
            recv = pos[0]
            if not recv[0] in "'[{" and not recv[-1] == ')' : recv = '(' + recv + ')'
            return '%s.%s(%s)' % (recv, fd.name, ', '.join(pos[1:] + kw))
        return '%s(%s)' % (fd.name, ', '.join(pos + kw))
    variants = []
    forms = []
    if fd.is_function: forms.append(False)
    if fd.is_method: forms.append(True)
    for as_m in forms:
        for k in range(len(vals) + 1):
            if fd.no_kwargs and k < len(vals): continue
            t = spell(k, as_m)
            if t: variants.append(t)
    res = [(t, ev(t)) for t in variants]
    outs = {r for _, r in res}
    stats['fds'] += 1; stats['spellings'] += len(res)
    if len(outs) > 1:
        stats['DIFF'] += 1
        diffs.append((fd.name, fd.payload.__name__, res))
print(stats)
for d in diffs:
    print('==', d[0], d[1])
    for t, r in d[2]: print('     %-70s %s' % (t, str(r)[:80]))
