"""Import yaql from the working tree under test and nothing else.

YAQL_VERIF_REPO (default /repo) names the tree.  The tree is put first on
sys.path, byte-code writing is disabled, and the origin of the imported
package is asserted, so a check always executes the *current* sources.
"""
import os
import sys

sys.dont_write_bytecode = True
REPO = os.path.realpath(os.environ.get('YAQL_VERIF_REPO', '/repo'))
VERIF = os.path.realpath(os.path.join(os.path.dirname(__file__), '..'))

if REPO not in sys.path[:1]:
    sys.path.insert(0, REPO)
if VERIF not in sys.path:
    sys.path.insert(1, VERIF)

import warnings  # noqa: E402
warnings.filterwarnings('ignore')

import yaql  # noqa: E402

_origin = os.path.realpath(yaql.__file__)
if not _origin.startswith(REPO + os.sep):
    raise SystemExit('HARNESS ERROR: yaql imported from %s, expected under %s'
                     % (_origin, REPO))
