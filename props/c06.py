"""C06 - resolution does not depend on registration or iteration order.

Permutation search over the real resolver.  A family is a multiset of 2-4
overloads of `foo` in ONE layer whose 1-2 parameters are typed over the lattice
Any > A > {B, C} > D (plus Lazy) such that every eager parameter accepts the
value it is called with (simultaneously matching candidates; a lazy one in the
family forces the laziness comparison).  For every family and call value the
call is resolved under ALL n! enumeration orders, commanded in three ways:

  list     a Context subclass whose get_functions returns the overloads in the commanded order
  multi    a MultiContext subclass doing the same, for every split of the family over two members
  set      an unmodified Context holding definitions whose hash is constant, registered in the
           commanded order: the real set then iterates in insertion order (asserted), so the
           registration order drives the real set-based code path

Oracle (differential): one outcome - payload tag + evaluation log + received
arguments, or error class - per (family, call), whatever the order and driver.
"""
import itertools

import vf.loader  # noqa: F401
from vf.core import Result
from vf import resolution as R
from models import resolve as M

from yaql.language import contexts, specs

ID = 'C06'
TITLE = 'resolution is order independent'
RULE = ('all (family, call value(s), function/method syntax) within the bound, each resolved under every permutation '
        'of the enumeration order x {commanded list, every 2-member MultiContext split, registration order into the '
        'real set}; a case is distinct by (signatures, values, syntax) and non-trivial when at least two candidates '
        'survive the type filter (all of them, by construction, unless a lazy parameter makes the family ambiguous)')
ASSUMPTIONS = ['a CPython set whose elements all have the same hash iterates in insertion order (asserted on every use)',
               'every enumeration order of a layer can occur: the overload set is keyed by object identity (addresses)']
BOUNDS = {
    'quick': '1 parameter: multisets of 2-4 signatures, values a b c d null, function and method syntax; '
             '2 parameters: multisets of 2-3 signatures for all 25 value pairs (function syntax; method syntax for 2); '
             'all n! orders as commanded list and as registration order into the real set for every family, '
             'all MultiContext splits for 1 parameter n <= 3 and 2 parameters n = 2',
    'thorough': 'as quick plus MultiContext splits for every family of quick, method syntax for 2 parameters n = 3, and '
                '2 parameters n = 4: all sets of 4 distinct eager signatures for the value pairs over {d, null}, multisets of 4 for (d, d) '
                '(list and set drivers)',
}

LAT = R.LAT6
ORDER = ['Any', 'A', 'B', 'C', 'D']
VALUES = ['a', 'b', 'c', 'd', 'n']


def types_for(v):
    if v == 'n':
        return ORDER + ['Lazy']            # null: every nullable type accepts it
    return [t for t in ORDER if LAT.accepts(t, False, v)] + ['Lazy']


def signatures(values, lazy=True):
    per = [[t for t in types_for(v) if lazy or t != 'Lazy'] for v in values]
    return list(itertools.product(*per))


def overload(i, sig, values):
    params = tuple((('x', 'y')[k], 'pos', t, t == 'Lazy' or values[k] == 'n', False) for k, t in enumerate(sig))
    return ('t%d' % i, params, 'function' if sig[0] == 'Lazy' else 'ext', False)   # a method cannot start with a lazy parameter


def call_for(values, method):
    if method:
        return (('val', values[0]), tuple(('var', v) for v in values[1:]), ())
    return (None, tuple(('var', v) for v in values), ())


# ---------------------------------------------------------------------------
# the three ways of commanding an enumeration order
# ---------------------------------------------------------------------------
class CommandedContext(contexts.Context):
    command = ()

    def get_functions(self, name, predicate=None, use_convention=False):
        found, exclusive = super(CommandedContext, self).get_functions(name, predicate, use_convention)
        return [fd for fd in self.command if fd in found], exclusive


class CommandedMulti(contexts.MultiContext):
    command = ()

    def get_functions(self, name, predicate=None, use_convention=False):
        found, exclusive = super(CommandedMulti, self).get_functions(name, predicate, use_convention)
        return [fd for fd in self.command if fd in found], exclusive


class ConstHashDefinition(specs.FunctionDefinition):
    """Same definition, but all instances collide: a set of them iterates in insertion order."""
    __slots__ = ()

    def __hash__(self):
        return 0


_const = {}


def const_hash(fd):
    c = _const.get(id(fd))
    if c is None:
        c = _const[id(fd)] = ConstHashDefinition(fd.name, fd.payload, fd.parameters, fd.doc, fd.meta,
                                                 fd.is_function, fd.is_method, fd.no_kwargs)
    return c


_state = {}


def base():
    if 'base' not in _state:
        _state['base'] = R.base_context('c06', R.VALUES6)
    return _state['base']


def outcomes(sigs, values, method, drivers):
    """{(driver, detail, order): observation} for all orders of the family."""
    call = call_for(values, method)
    ovs = [overload(i, s, values) for i, s in enumerate(sigs)]
    fds = [R.definition(o, R.CLASSES6) for o in ovs]
    n = len(fds)
    perms = list(itertools.permutations(range(n)))
    out = {}
    if 'list' in drivers:
        ctx = CommandedContext(base())
        for fd in fds:
            ctx.register_function(fd)
        for p in perms:
            ctx.command = [fds[i] for i in p]
            out[('list', '', p)] = R.direct(ctx, call, R.VALUES6)
    if 'multi' in drivers:
        for split in itertools.product((0, 1), repeat=n):
            if len(set(split)) < 2:
                continue
            members = [contexts.Context(base()), contexts.Context(base())]
            for fd, m in zip(fds, split):
                members[m].register_function(fd)
            ctx = CommandedMulti(members)
            for p in perms:
                ctx.command = [fds[i] for i in p]
                out[('multi', ''.join(map(str, split)), p)] = R.direct(ctx, call, R.VALUES6)
    if 'set' in drivers:
        cfds = [const_hash(fd) for fd in fds]
        for p in perms:
            ctx = contexts.Context(base())
            for i in p:
                ctx.register_function(cfds[i])
            if list(ctx.get_functions('foo')[0]) != [cfds[i] for i in p]:
                raise AssertionError('harness: the set does not iterate in insertion order')
            out[('set', '', p)] = R.direct(ctx, call, R.VALUES6)
    return out, ((False, tuple(ovs)),), call


SINGLE_PASS_KEY = ('order-dependent winner: single left-to-right pass in choose_overload '
                   '(a match is compared only with the current winner; an incomparable or equal pair met first raises Ambiguous '
                   'although a later candidate specialises every other)')


def classes(observations):
    return ' / '.join(sorted(set(o[0][0] if o[0][0] == 'run' else o[0][1] for o in observations)))


def judge(res, sigs, values, method, drivers):
    res.case((sigs, values, method))
    obs, layers, call = outcomes(sigs, values, method, drivers)
    res.evaluations += len(obs)
    res.transitions += len(obs)
    res.nontrivial += 1
    distinct = sorted(set(obs.values()), key=repr)
    res.outcomes['n=%d %s' % (len(sigs), classes(distinct))] += 1
    if len(distinct) == 1:
        return
    ovs = layers[0][1]
    explained = all(
        o == _expected(((False, tuple(ovs[i] for i in p)),), call, (M.SINGLE_PASS,))
        for (driver, detail, p), o in obs.items())
    by = {}
    for (driver, detail, p), o in sorted(obs.items()):
        by.setdefault(repr(o[0]), []).append('%s%s:%s' % (driver, detail and '/' + detail, ''.join(map(str, p))))
    if explained:
        key = SINGLE_PASS_KEY
    else:
        varying = sorted(d for d in drivers if len(set(o for k, o in obs.items() if k[0] == d)) > 1)
        where = 'every driver' if varying == sorted(drivers) else '+'.join(varying) or 'no single driver (the drivers disagree with each other)'
        key = 'order-dependent outcome (not the single-pass pattern): %s; varies within %s' % (classes(distinct), where)
    size = (len(sigs), len(values), method, sum(ORDER.index(t) if t in ORDER else 9 for sg in sigs for t in sg), values)
    res.fail(key, {'signatures': sigs, 'values': values, 'method': method, 'drivers': sorted(drivers)},
             'outcomes by order: %s; model (most specific of all matches): %r'
             % ('; '.join('%s <- %s' % (k, ' '.join(v[:8]) + (' ...' if len(v) > 8 else '')) for k, v in sorted(by.items())),
                _expected(layers, call)[0]), size=size)


def _expected(layers, call, relaxed=()):
    outcome, evaluated, binding = M.resolve(LAT, layers, call, relaxed)
    return outcome, evaluated, None if binding is None else R.render(binding)


# ---------------------------------------------------------------------------
# enumeration
# ---------------------------------------------------------------------------
def families(tier):
    """(signatures, values, method, drivers), simplest first."""
    thorough = tier == 'thorough'
    every = ('list', 'multi', 'set')
    plain = ('list', 'set')
    out = []
    for v in VALUES:
        sigs = signatures((v,))
        for n in (2, 3, 4):
            for fam in itertools.combinations_with_replacement(sigs, n):
                for method in (False, True):
                    if not method or all(s[0] != 'Lazy' for s in fam):
                        out.append((fam, (v,), method, every if n <= 3 or thorough else plain))
    for vs in itertools.product(VALUES, repeat=2):
        sigs = signatures(vs)
        for n in (2, 3):
            for fam in itertools.combinations_with_replacement(sigs, n):
                out.append((fam, vs, False, every if n == 2 or thorough else plain))
                if (n == 2 or thorough) and all(s[0] != 'Lazy' for s in fam):
                    out.append((fam, vs, True, every if n == 2 else plain))
    if thorough:
        for vs in itertools.product('dn', repeat=2):
            eager = signatures(vs, lazy=False)
            if vs == ('d', 'd'):
                fams = itertools.combinations_with_replacement(eager, 4)
            else:
                fams = itertools.combinations(eager, 4)
            for fam in fams:
                out.append((fam, vs, False, plain))
    return out


def job(tier, k, of):
    res = Result()
    fams = families(tier)[k::of]
    for sigs, values, method, drivers in fams:
        judge(res, sigs, values, method, drivers)
    if fams:
        sigs, values, method, drivers = fams[len(fams) // 2]
        res.sample({'signatures': repr(sigs), 'values': values, 'method': method,
                    'orders': len(list(itertools.permutations(sigs)))})
    return res


def jobs(tier, seed):
    of = 32 if tier == 'quick' else 64
    return [('families-%02d' % k, 'job', (tier, k, of)) for k in range(of)]


def replay(case):
    sigs = tuple(tuple(s) for s in case['signatures'])
    values = tuple(case['values'])
    obs, layers, call = outcomes(sigs, values, case['method'], set(case['drivers']))
    table = {}
    for (driver, detail, p), o in sorted(obs.items()):
        table['%s%s:%s' % (driver, detail and '/' + detail, ''.join(map(str, p)))] = repr(o)
    return {'observed': table, 'expected': 'one outcome for all orders; model: %r' % (_expected(layers, call),),
            'ok': len(set(obs.values())) == 1}
