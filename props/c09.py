"""C09 - evaluation has no side effects on host data, context or statement.

E3: every registered definition x every collection-typed visible position is fed
a *mutable* host list / dict / set (nested one level) as `$`, with
yaql.convertInputData on and off, other arguments from the typed corpus.
Oracle: the host data is deeply unchanged; no mutable container of the result is
(by identity) a container of the host data; the context chain supplied by the
host has the same variables and functions as before except `$`; the statement
tree is unchanged; a second evaluation of the same statement with equal data
gives an equal result.
E2: explicit-state search over sequences of evaluations of a pool of statements
against one shared parent context and one *reused* child context: the state
(snapshot of the chain + statement trees) must stay the initial state up to `$`.
"""
import collections
import copy
import itertools

import vf.loader  # noqa: F401
from vf import canon, corpus, yq
from vf.core import Result, CURRENT_CASE, chunks

import yaql
from yaql.language import utils as yutils

ID = 'C09'
TITLE = 'no side effects on host data, context, statement'
RULE = ('E3: all (definition, collection-typed position, mutable host value, call form, conversion mode) with the remaining arguments from '
        'the typed corpus (base tuple + single deviations); a case is non-trivial when the call evaluated to a value (the function really '
        'received the host container); E2: BFS over sequences of (statement, document) evaluations on a shared parent and a reused child '
        'context, states = snapshot of context chain and statement trees')
ASSUMPTIONS = ['the mutable host value is bound as the data of evaluate() (`$`); other arguments are corpus values',
               'results are compared by repr for the repeat-evaluation check; environment functions (now, random, localtz) are excluded there']
BOUNDS = {'quick': 'all definitions, positions of kind iterable/sequence/iterator/mapping/set/any, 3 host shapes, 2 conversion modes, base corpus tuple; E2 pool of 12 statements x 3 documents to fixpoint',
          'thorough': 'same with per_param=2 star tuples (every single-parameter deviation) and all call forms; E2 pool x 3 documents, depth to fixpoint, both reused-child and fresh-child modes'}

ENV_FUNCS = ('now', 'random', 'localtz', 'utctz')


class Rows(list):
    """A host list subclass (hosts pass their own sequence types)."""


Record = collections.namedtuple('Record', 'name tags')


def host_values(kind):
    """Fresh mutable host values suitable for a parameter kind: [(label, maker)]."""
    lst = ('list', lambda: [3, 1, 2, [1, 2], {'k': [5]}])
    ilist = ('intlist', lambda: [3, 1, 2, 2])
    slist = ('strlist', lambda: ['b', 'a', 'c'])
    plist = ('pairlist', lambda: [['a', 1], ['b', 2]])
    dct = ('dict', lambda: {'a': 1, 'b': [1, 2], 'c': {'d': [7]}, 1: 'one', 2: [2], 3: 3})   # keys the corpus asks for: 'a', 1, 2, 3
    st = ('set', lambda: {1, 2, 3})
    llist = ('listlist', lambda: [[1, 2], [3], []])
    rows = ('rows-subclass', lambda: Rows([[1, 2], [3]]))
    rec = ('namedtuple', lambda: Record('a', ['x', 'y']))
    odd = ('oddkeys', lambda: {'1st': 'x', '__p': [1], 'a': 1})
    if kind in ('iterable', 'sequence', 'iterator', 'any'):
        out = [lst, ilist, slist, plist, llist, rows, rec]
        if kind in ('iterable', 'any'):
            out.append(st)
        if kind == 'any':
            out.append(dct)
        return out
    if kind == 'mapping':
        # mapping subclasses hosts really use: a lookup of a missing key INSERTS it into a defaultdict
        ddl = ('defaultdict-list', lambda: collections.defaultdict(list, {'b': [2], 'zz': [9]}))
        ddi = ('defaultdict-int', lambda: collections.defaultdict(int, {'b': 2, 'zz': 9}))
        odt = ('ordereddict', lambda: collections.OrderedDict([('b', 2), ('a', [1])]))
        return [dct, ('intdict', lambda: {'a': 1, 'b': 2}), odd, ddl, ddi, odt]
    if kind == 'set':
        return [st]
    return []


def containers(v, acc=None, depth=0):
    """ids of all mutable containers reachable in v."""
    acc = {} if acc is None else acc
    if depth > 8:
        return acc
    if isinstance(v, (list, dict, set)):
        acc[id(v)] = v
        for x in (v.values() if isinstance(v, dict) else v):
            containers(x, acc, depth + 1)
        if isinstance(v, dict):
            for k in v:
                containers(k, acc, depth + 1)
    elif isinstance(v, (tuple, frozenset)):
        for x in v:
            containers(x, acc, depth + 1)
    elif isinstance(v, yutils.FrozenDict):
        for k, x in v.items():
            containers(x, acc, depth + 1)
    return acc


def census(v):
    """Value including container types, to compare data before / after."""
    if isinstance(v, list):
        return ('list', tuple(census(x) for x in v))
    if isinstance(v, dict):
        return ('dict', tuple((census(k), census(x)) for k, x in v.items()))
    if isinstance(v, set):
        return ('set', tuple(sorted((census(x) for x in v), key=repr)))
    return (type(v).__name__, repr(v))


def chain_state(ctx, skip_dollar_in=None):
    """Variables and functions of every layer of a context chain (identity for functions and values
    that are not plain data, deep value for plain data)."""
    out = []
    c = ctx
    while c is not None:
        data = getattr(c, '_data', None)
        if data is not None:
            items = []
            for k, v in data.items():
                if c is skip_dollar_in and k == '$1':
                    continue
                items.append((k, census(v) if isinstance(v, (list, dict, set, int, str, float, bool, type(None), tuple)) else id(v)))
            out.append((tuple(items),
                        tuple((n, tuple(sorted(id(f) for f in s))) for n, s in c._functions.items()),
                        tuple(sorted(c._exclusive_funcs))))
        else:
            out.append(('opaque', type(c).__name__))
        c = c.parent
    return tuple(out)


_S = {}


def world():
    if not _S:
        _S['recs'] = corpus.definitions()
        _S['root'] = corpus.root()
    return _S


def engine_for(convert):
    """convert: True | False | 'raw-tuples' (input conversion off AND yaql.convertTuplesToLists off: sequences
    of the result keep their type, so nothing forces a copy on the way out)."""
    opts = dict(corpus.OPTIONS)
    opts['yaql.convertInputData'] = convert is True
    if convert == 'raw-tuples':
        opts['yaql.convertTuplesToLists'] = False
    return yq.engine(opts, allow_delegates=True)


def _variants(rec, texts, keep):
    """The full argument list and the list with every trailing defaulted parameter (not in `keep`) omitted."""
    out = [list(texts)]
    n = len(rec.params)
    k = n
    while k > 0 and rec.params[k - 1].has_default and (k - 1) not in keep:
        k -= 1
    if k < n and len(texts) == n:
        out.append(list(texts[:k]))
    return out


def scan_cases(rec, tier):
    """Yield (position index, form, text, variables-maker, host label, host maker)."""
    per = 1 if tier == 'quick' else 2
    tuples = corpus.argument_tuples(rec, per_param=per, mode='star')
    if not tuples:
        return
    if tier == 'quick':
        tuples = tuples[:1] + [t for t in tuples[1:] if t.var][:1]     # the base tuple and one with *args
    if rec.syntax != 'name':
        forms = ('op',)
    else:
        forms = {'method': ('method',), 'function': ('fn',), 'extension': ('method', 'fn')}[rec.kind]
    seen = set()
    for args in tuples:
        for pi, p in enumerate(rec.params):
            hv = host_values(p.kind)
            if not hv or p.is_lazy or p.is_constant:
                continue
            vals = list(args.pos)
            texts, _ = corpus.bind(vals + list(args.var))
            texts = list(texts)
            texts[pi] = '$'
            kw = []
            for form, vt in ((f, v) for f in forms for v in _variants(rec, texts, (pi,))):
                text = corpus.call_text(rec, form, vt, kw)
                if text is None:
                    continue
                for label, mk in hv:
                    key = (pi, form, text, label)
                    if key in seen:
                        continue
                    seen.add(key)

                    def variables(vals=vals, args=args):
                        return corpus.bind(vals + list(args.var))[1]
                    yield pi, form, text, variables, label, mk
        # two collection-typed positions fed from ONE host document {'a': X, 'b': Y}: X and Y have equal
        # content (colliding keys / elements), so a function that merges or combines them in place is observable
        for pi, pj in itertools.combinations(range(len(rec.params)), 2):
            p, q = rec.params[pi], rec.params[pj]
            if p.is_lazy or p.is_constant or q.is_lazy or q.is_constant:
                continue
            both = [lab for lab, _ in host_values(p.kind) if lab in dict(host_values(q.kind))]
            if not both:
                continue
            vals = list(args.pos)
            texts = list(corpus.bind(vals + list(args.var))[0])
            texts[pi] = '$.a'
            texts[pj] = '$.b'
            for form, vt in ((f, v) for f in forms for v in _variants(rec, texts, (pi, pj))):
                text = corpus.call_text(rec, form, vt, [])
                if text is None:
                    continue
                for label in both:
                    mk1 = dict(host_values(p.kind))[label]
                    key = (pi, pj, form, text, label)
                    if key in seen:
                        continue
                    seen.add(key)

                    def variables(vals=vals, args=args):
                        return corpus.bind(vals + list(args.var))[1]

                    def mk(mk1=mk1):
                        return {'a': mk1(), 'b': mk1()}
                    yield pi, form, text, variables, 'pair:' + label, mk


def judge_one(res, rec, pi, form, text, variables, label, mk, convert):
    ident = {'kind': 'scan', 'def': rec.ident, 'param': rec.params[pi].alias, 'form': form, 'text': text,
             'host': label, 'convert': convert}
    CURRENT_CASE[0] = ident
    res.case((rec.ident, pi, form, text, label, convert))
    w = world()
    host = mk()
    before = census(host)
    host_ids = containers(host)
    eng = engine_for(convert)
    try:
        st = eng(text)
    except Exception as e:
        res.outcomes['parse-error'] += 1
        res.notes.append('C09 could not parse %r: %s' % (text, e))
        return
    tree0 = canon.digest(canon.snapshot(st.expression))
    parent = w['root']
    ctx = parent.create_child_context()
    for k, v in variables().items():
        ctx[k] = v
    chain0 = chain_state(ctx, skip_dollar_in=ctx)
    try:
        out = ('v', st.evaluate(data=host, context=ctx))
    except Exception as e:
        out = ('e', type(e).__name__)
    res.evaluations += 1
    res.transitions += 1
    site = 'fn=%s param=%s' % (rec.name, rec.params[pi].alias)
    if census(host) != before:
        res.fail('host data mutated %s convert=%s' % (site, convert), ident,
                 'data before %r after %r' % (before, census(host)))
    if out[0] == 'v':
        res.nontrivial += 1
        shared = set(containers(out[1])) & set(host_ids)
        if shared:
            res.fail('result aliases mutable host data %s convert=%s' % (site, convert), ident,
                     'result %r shares %d mutable container(s) with the input data' % (out[1], len(shared)))
    if chain_state(ctx, skip_dollar_in=ctx) != chain0:
        res.fail('context chain changed %s' % site, ident, 'variables/functions of the supplied context chain differ after evaluation')
    if canon.digest(canon.snapshot(st.expression)) != tree0:
        res.fail('statement tree changed %s' % site, ident, 'snapshot of the parsed statement differs after evaluation')
    # reuse: same statement, equal data, fresh child -> equal result
    if out[0] == 'v' and rec.name not in ENV_FUNCS:
        ctx2 = parent.create_child_context()
        for k, v in variables().items():
            ctx2[k] = v
        try:
            out2 = ('v', st.evaluate(data=mk(), context=ctx2))
        except Exception as e:
            out2 = ('e', type(e).__name__)
        res.evaluations += 1
        if repr(yq.canon(out2[1]) if out2[0] == 'v' else out2) != repr(yq.canon(out[1])):
            res.fail('second evaluation differs %s' % site, ident, 'first %r second %r' % (out, out2))
    res.outcomes['%s convert=%s' % ('value' if out[0] == 'v' else out[1], convert)] += 1


def job_scan(tier, idents):
    res = Result()
    w = world()
    byid = {r.ident: r for r in w['recs']}
    for ident in idents:
        rec = byid[ident]
        n = 0
        for pi, form, text, variables, label, mk in scan_cases(rec, tier):
            for convert in (True, False, 'raw-tuples'):
                judge_one(res, rec, pi, form, text, variables, label, mk, convert)
                n += 1
        if n and len(res.samples) < 2:
            res.sample({'def': rec.ident, 'cases': n})
    return res


# ---------------------------------------------------------------------------
# E2: histories of evaluations against a shared parent and a reused child
# ---------------------------------------------------------------------------
POOL = [
    'let(x => $[0]) -> $x + 1',
    'def(f, $ * 2) -> f($[1])',
    '$.where($ > 1).select($ * 2).toList()',
    '$.orderBy($).thenByDescending($).toList()',
    "regex('(\\d)').replaceBy($.select(str($)).join(''), $.value + 'y')",
    '$.toList().insert(0, 9)',
    "dict(a => $[0]).set('b', 2).delete('a')",
    '$.toSet().union([9].toSet()).len()',
    '[$x, $y, $z]',
    '$.groupBy($ mod 2).toList()',
    'with($[0], $[1]) -> $1 + $2',
    '$.distinct().memorize().toList()',
]
DOCS = [[1, 2, 3], [3, 3, 1], [5, 4]]


def _stmt_state(st):
    """Everything a parsed statement carries except the engine reference."""
    return canon.digest(canon.snapshot({k: v for k, v in vars(st).items() if k != 'engine'}))


bare_context = yq.bare_context


CONTEXT_KINDS = ('std-fresh-child', 'std-reused-child', 'bare-fresh-child', 'bare-itself')


def job_histories(max_depth, stmts=None):
    """Explicit-state search.  State = (content variant of each persistent host document, which document the
    reused child's `$` holds) + everything that must NOT change (both context chains, statements).  Events:
    evaluate(statement i, document d, context kind) on the SAME statement and host document objects - in a fresh
    child of the prepared standard context, in one reused child of it, or in a fresh child of a hand-assembled
    context without finaliser - and mutate(d): the host changes document d in place between evaluations."""
    res = Result()
    eng = yq.fresh_engine()
    parent = yaql.create_context()
    parent['x'] = 10
    bare = bare_context()
    bare['x'] = 10
    bare['y'] = 20
    sts = [eng(t) for t in POOL]
    child = parent.create_child_context()
    child['y'] = 20
    docs = [copy.deepcopy(d) for d in DOCS]           # persistent, mutable, owned by the "host"
    variants = [[copy.deepcopy(d), copy.deepcopy(d) + [9]] for d in DOCS]

    def invariant():
        return (chain_state(child, skip_dollar_in=child), chain_state(bare, skip_dollar_in=bare),
                tuple(_stmt_state(s) for s in sts))
    init = invariant()
    reference = {}

    def context_for(kind, fresh_world=None):
        if kind == 'std-reused-child':
            return child if fresh_world is None else fresh_world[0].create_child_context()
        if kind == 'bare-itself':          # the host hands its own context to evaluate(): only `$` may change in it
            return bare if fresh_world is None else fresh_world[1]
        base = (parent if kind.startswith('std') else bare) if fresh_world is None else \
            (fresh_world[0] if kind.startswith('std') else fresh_world[1])
        c = base.create_child_context()
        return c

    def shown(v):
        return repr(yq.canon(v))

    def ref(si, content, kind):
        """What a freshly parsed statement on a fresh engine and freshly built contexts returns for an equal copy."""
        k = (si, repr(content), kind)
        if k not in reference:
            p2 = yaql.create_context()
            p2['x'] = 10
            b2 = bare_context()
            b2['x'] = 10
            b2['y'] = 20
            c2 = context_for(kind, (p2, b2))
            if kind != 'bare-itself':
                c2['y'] = 20
            try:
                reference[k] = ('v', shown(yq.fresh_engine()(POOL[si]).evaluate(data=copy.deepcopy(content), context=c2)))
            except Exception as e:
                reference[k] = ('e', type(e).__name__)
        return reference[k]

    def goto(state):
        vs, last = state
        for di, (d, v) in enumerate(zip(docs, vs)):
            d[:] = copy.deepcopy(variants[di][v])
        if last is not None:
            child['$'] = yutils.convert_input_data(docs[last])

    start = (tuple(0 for _ in docs), None)
    seen = {start: ()}
    frontier = [start]
    depth = 0
    transitions = 0
    while frontier and depth < max_depth:
        nxt = []
        for state in frontier:
            hist = seen[state]
            events = [('eval', si, di, ck) for si in (stmts if stmts is not None else range(len(POOL)))
                      for di in range(len(DOCS)) for ck in CONTEXT_KINDS] + \
                     [('mutate', di) for di in range(len(DOCS))]
            for ev in events:
                goto(state)
                case = {'kind': 'history', 'history': [list(h) for h in hist] + [list(ev)]}
                CURRENT_CASE[0] = case
                transitions += 1
                res.transitions += 1
                if ev[0] == 'mutate':
                    di = ev[1]
                    vs = list(state[0])
                    vs[di] ^= 1
                    docs[di][:] = copy.deepcopy(variants[di][vs[di]])
                    new = (tuple(vs), state[1])
                else:
                    _, si, di, ck = ev
                    before = repr(docs[di])
                    ctx = context_for(ck)
                    if ck not in ('std-reused-child', 'bare-itself'):
                        ctx['y'] = 20
                    try:
                        r = ('v', shown(sts[si].evaluate(data=docs[di], context=ctx)))
                    except Exception as e:
                        r = ('e', type(e).__name__)
                    res.evaluations += 1
                    if hist:
                        res.nontrivial += 1
                    case['texts'] = [POOL[si]]
                    exp = ref(si, variants[di][state[0][di]], ck)
                    if r != exp:
                        res.fail('result depends on evaluation history stmt=%d context=%s' % (si, ck.split('-')[0]), case,
                                 'now %r, a fresh statement on equal data in a fresh context gives %r' % (r, exp), size=len(hist))
                    if repr(docs[di]) != before:
                        res.fail('host document mutated by evaluation stmt=%d' % si, case,
                                 'before %s after %r' % (before, docs[di]), size=len(hist))
                    if invariant() != init:
                        res.fail('shared context or statement changed by evaluation stmt=%d context=%s' % (si, ck.split('-')[0]), case,
                                 'context chain / statement snapshot differs from the initial one (ignoring `$` of the evaluation context)',
                                 size=len(hist))
                        return _rebuild_and_stop(res, seen, transitions)
                    res.outcomes['hist %s %s' % (ck.split('-')[0], 'value' if r[0] == 'v' else r[1])] += 1
                    new = (state[0], di if ck == 'std-reused-child' else state[1])
                if new not in seen:
                    seen[new] = hist + (ev,)
                    res.case(('hist', new))
                    nxt.append(new)
        frontier = nxt
        depth += 1
    res.states += 1
    res.extra['e2_states'] = len(seen)
    res.extra['e2_transitions'] = transitions
    if frontier:
        res.caps.append('E2 depth cap %d with %d open states' % (max_depth, len(frontier)))
    res.sample({'pool': POOL[:3], 'docs': DOCS, 'context_kinds': list(CONTEXT_KINDS), 'states': len(seen),
                'longest_history': [list(e) for e in max(seen.values(), key=len)]})
    return res


def _rebuild_and_stop(res, seen, transitions):
    res.caps.append('E2 search stopped at the first state change (the invariant is broken; further states are meaningless)')
    res.states += 1
    res.extra['e2_states'] = len(seen)
    res.extra['e2_transitions'] = transitions
    return res


def jobs(tier, seed):
    w = world()
    idents = [r.ident for r in w['recs']]
    out = []
    for i, part in enumerate(chunks(idents, 40)):
        out.append(('scan-%02d' % i, 'job_scan', (tier, part)))
    for k in range(6):
        # every shard keeps the mutate events and two statements, so every shard reaches all 32 states
        out.append(('histories-%d' % k, 'job_histories', (12, list(range(len(POOL)))[k::6])))
    return out


def replay(case):
    if case['kind'] == 'scan':
        w = world()
        rec = {r.ident: r for r in w['recs']}[case['def']]
        res = Result()
        for pi, form, text, variables, label, mk in scan_cases(rec, 'thorough'):
            if text == case['text'] and label == case['host'] and form == case['form']:
                judge_one(res, rec, pi, form, text, variables, label, mk, case['convert'])
                break
        return {'observed': {k: f.detail for k, f in res.failures.items()}, 'expected': 'no side effect', 'ok': not res.failures}
    r = job_histories(len(case['history']))
    return {'observed': {k: f.detail for k, f in r.failures.items()}, 'expected': 'state constant', 'ok': not r.failures}
