"""Real-side harness shared by props/c05.py and props/c06.py: builds the
overloads, layers and calls that models/resolve.py describes as tuples, on the
real yaql objects, and observes which payload ran / which error was raised,
which arguments were evaluated, and what the payload received.
"""
import vf.loader  # noqa: F401
from vf import yq
from models import resolve as M

from yaql.language import contexts, conventions, exceptions, expressions, specs, utils, yaqltypes


class A(object):
    pass


class B(A):
    pass


class C(object):
    pass


class C2(A):        # the C of the C06 lattice: Any > A > {B, C2} > D
    pass


class D(B, C2):
    pass


class X(object):    # unrelated to everything below A
    pass


class DX(D, X):     # only a value class: an instance is in the chain D < B < A and in X
    pass


class Dflt(object):
    pass


# two lattices: C05 (C unrelated to A) and C06 (diamond below A)
CLASSES5 = {'Any': object, 'A': A, 'B': B, 'C': C, 'AC': (A, C)}      # AC: PythonType((A, C))
CLASSES6 = {'Any': object, 'A': A, 'B': B, 'C': C2, 'D': D, 'X': X}
LAT5 = M.Lattice({'A': (), 'B': ('A',), 'C': ()}, {'a': 'A', 'b': 'B', 'c': 'C', 'n': None}, {'AC': ('A', 'C')})
LAT6 = M.Lattice({'A': (), 'B': ('A',), 'C': ('A',), 'D': ('B', 'C'), 'X': (), 'DX': ('D', 'X')},
                 {'a': 'A', 'b': 'B', 'c': 'C', 'd': 'D', 'e': 'DX', 'n': None})
VALUES5 = {'a': A(), 'b': B(), 'c': C(), 'n': None}
VALUES6 = {'a': A(), 'b': B(), 'c': C2(), 'd': D(), 'e': DX(), 'n': None}

CONVENTION = conventions.CamelCaseConvention()
LOG = []            # keys of evaluated arguments, in order (cleared per observation)
_labels = {}


python_name = M.python_spelling


def _label(v):
    if v is None:
        return 'null'
    if id(v) in _labels:
        return _labels[id(v)]
    if isinstance(v, tuple):
        return tuple(_label(x) for x in v)
    if isinstance(v, dict):
        return tuple(sorted((k, _label(x)) for k, x in v.items()))
    if isinstance(v, contexts.ContextBase):
        return 'context'
    if v is yq.engine():
        return 'engine'
    if isinstance(v, utils.MappingRule):
        return 'rule'
    if callable(v):
        return 'lazy'
    return repr(v)


def render(binding):
    """((name, label), ...) as one string (cheap to finalise, easy to read)."""
    return ' '.join('%s=%s' % (n, v if isinstance(v, str) else '(%s)' % ','.join(
        x if isinstance(x, str) else '%s:%s' % x for x in v)) for n, v in binding)


def _report(tag, pairs):
    return tag + '|' + render(tuple((name, _label(v)) for name, v in pairs))


report = _report


def register_values(values):
    for k, v in values.items():
        if v is not None:
            _labels[id(v)] = k


_defaults = {}
_fds = {}


def _default_for(classes, typ):
    key = (id(classes), typ)
    if key not in _defaults:
        cls = classes[typ]
        d = Dflt() if typ == 'Any' else (cls[0] if isinstance(cls, tuple) else cls)()
        _labels[id(d)] = 'default'
        _defaults[key] = d
    return _defaults[key]


def definition(overload, classes):
    """The FunctionDefinition of an overload description (built once per process)."""
    key = (overload, id(classes))
    fd = _fds.get(key)
    if fd is not None:
        return fd
    tag, params, kind, no_kwargs = overload
    if any(p[1] == 'hidden' and p[2].startswith('Super/') for p in params):
        fd = _fds[key] = _override(overload, classes)
        return fd
    fd = specs.get_function_definition(python_function(overload, classes), name='foo', convention=CONVENTION)
    fd.meta['tag'] = tag
    _fds[key] = fd
    return fd


def python_function(overload, classes):
    """A fresh python function for an overload description, decorated the way a
    host declares it: @specs.parameter / @specs.inject per parameter, @specs.method
    / @specs.extension_method for the kind, @specs.no_kwargs."""
    tag, params, kind, no_kwargs = overload
    sig, ns, star, dflt = [], {'_report': _report}, False, False
    for (name, k, t, nullable, hasdef) in params:
        py = python_name(name)
        if k in ('pos', 'kwonly') and hasdef:
            ns['D_' + py] = None if t == 'Lazy' else _default_for(classes, t)
        if k == 'pos':
            sig.append(py + ('=D_' + py if hasdef else ''))
            dflt = dflt or hasdef
        elif k == 'hidden':
            sig.append(py + ('=None' if dflt and not star else ''))
        elif k == 'varargs':
            sig.append('*' + py)
            star = True
        elif k == 'kwonly':
            if not star:
                sig.append('*')
                star = True
            sig.append(py + ('=D_' + py if hasdef else ''))
        elif k == 'varkw':
            sig.append('**' + py)
    body = ', '.join('(%r, %s)' % (p[0], python_name(p[0])) for p in params)
    src = 'def foo(%s):\n    return _report(%r, (%s))\n' % (', '.join(sig), tag, body + (',' if params else ''))
    exec(src, ns)
    fn = ns['foo']
    for (name, k, t, nullable, hasdef) in params:
        py = python_name(name)
        if k == 'hidden':
            fn = specs.inject(py, yaqltypes.Engine() if t == 'Engine' else yaqltypes.Context())(fn)
        elif t == 'Lazy':
            fn = specs.parameter(py, yaqltypes.Lambda())(fn)
        elif t == 'Rule':
            fn = specs.parameter(py, yaqltypes.MappingRule())(fn)
        else:
            fn = specs.parameter(py, yaqltypes.PythonType(classes[t], nullable))(fn)
    if kind == 'method':
        fn = specs.method(fn)
    elif kind == 'ext':
        fn = specs.extension_method(fn)
    if no_kwargs:
        fn = specs.no_kwargs(fn)
    return fn


def _override(overload, classes):
    """foo(x, base: Super(method=...)): returns its tag + '>' + the result of its
    base implementation, called with x or without arguments."""
    tag, params, kind, no_kwargs = overload
    (xname, xkind, t, nullable, hasdef), (bname, bkind, st, _, _) = params
    assert (xname, xkind, bname, bkind, hasdef, no_kwargs) == ('x', 'pos', 'base', 'hidden', False, False), overload
    variant, mode = st.split('/')[1:]

    def foo(x, base):
        return tag + '>' + (base(x) if mode == 'arg' else base())
    fn = specs.parameter('x', yaqltypes.PythonType(classes[t], nullable))(foo)
    fn = specs.inject('base', yaqltypes.Super(method={'None': None, 'True': True, 'False': False}[variant]))(fn)
    if kind == 'method':
        fn = specs.method(fn)
    elif kind == 'ext':
        fn = specs.extension_method(fn)
    fd = specs.get_function_definition(fn, name='foo', convention=CONVENTION)
    fd.meta['tag'] = tag
    return fd


class OrderedContext(contexts.Context):
    """Enumerates the overloads of a name in registration order, so that C05
    never inherits the address order of the underlying set."""

    def __init__(self, parent_context=None, data=utils.NO_VALUE, convention=None):
        super(OrderedContext, self).__init__(parent_context, data, convention)
        self._order = []

    def register_function(self, spec, *args, **kwargs):
        if not isinstance(spec, specs.FunctionDefinition):
            # a python function: the library builds the definition; it is the one that was not there before
            before = set(fd for fds in self._functions.values() for fd in fds)
            super(OrderedContext, self).register_function(spec, *args, **kwargs)
            self._order += [fd for fds in self._functions.values() for fd in fds if fd not in before]
            return
        super(OrderedContext, self).register_function(spec, *args, **kwargs)
        if spec not in self._order:
            self._order.append(spec)

    def get_functions(self, name, predicate=None, use_convention=False):
        found, exclusive = super(OrderedContext, self).get_functions(name, predicate, use_convention)
        return [fd for fd in self._order if fd in found], exclusive


class Probe(expressions.Expression):
    """A non-constant argument expression that records its evaluation."""
    uses_receiver = False

    def __init__(self, key, value):
        self.key = key
        self.value = value

    def __call__(self, receiver, context, engine):
        LOG.append(self.key)
        return self.value


_base = {}


def _probe_function(value):
    def probe(key):
        LOG.append(key)
        return value
    return probe


def base_context(values_name, values, labels=True):
    """A child of the standard library holding the values ($a ...) and one tick
    probe per value (pa(key) logs key and returns $a); shared, never written to
    after construction.  labels=False: the values are not given names in what a
    payload reports (needed when they are interned python objects such as 1)."""
    ctx = _base.get(values_name)
    if ctx is None:
        ctx = OrderedContext(yq.root())

        for k, v in values.items():
            ctx[k] = v
            ctx.register_function(specs.get_function_definition(_probe_function(v), name='p' + k))
        if labels:
            register_values(values)
        _base[values_name] = ctx
    return ctx


def build_layers(layers, classes, base, context_class=OrderedContext):
    """Chain of contexts for `layers` (nearest first) below `base`; returns the
    calling context (a fresh child of the nearest layer)."""
    ctx = base
    for exclusive, overloads in reversed(layers):
        ctx = context_class(ctx)
        for o in overloads:
            ctx.register_function(definition(o, classes), exclusive=exclusive)
    return ctx.create_child_context()


def construct(ctx, overload, classes, via, exclusive=False):
    """Register an overload whose kind is reached by a construction path
    via = (how, decorated, function, method): the python function is declared
    with `decorated` (None | 'method' | 'ext'; overload[2] is the kind that
    results, models.resolve.kind_after) and the tri-state overrides are given to
    how = 'register': context.register_function(f, name=..., function=..., method=...)
    how = 'define':   specs.get_function_definition(f, name=..., function=..., method=...), registered as a definition."""
    how, decorated, function, method = via
    tag, params, kind, no_kwargs = overload
    fn = python_function((tag, params, {None: 'function'}.get(decorated, decorated), no_kwargs), classes)
    if how == 'register':
        ctx.register_function(fn, name='foo', function=function, method=method, exclusive=exclusive)
    else:
        ctx.register_function(specs.get_function_definition(fn, name='foo', function=function, method=method,
                                                            convention=CONVENTION), exclusive=exclusive)


def build_constructed(built, classes, base, context_class=OrderedContext):
    """build_layers for layers whose overloads carry their construction path:
    built = ((exclusive, ((overload, via), ...)), ...) nearest first."""
    ctx = base
    for exclusive, overloads in reversed(built):
        ctx = context_class(ctx)
        for o, via in overloads:
            construct(ctx, o, classes, via, exclusive)
    return ctx.create_child_context()


def build_history(history, classes, base, context_class=OrderedContext):
    """Chain of contexts for a history of registration attempts (models.resolve.registered:
    layers nearest first, each a sequence of (overload, exclusive) in the order
    made).  The host catches InvalidMethodException and carries on, as an
    application that offers several candidate functions to a context would.
    Returns (calling context, ((layer index, attempt index), ...) of the rejected attempts)."""
    ctx = base
    rejected = []
    for li in reversed(range(len(history))):
        ctx = context_class(ctx)
        for ai, (o, exclusive) in enumerate(history[li]):
            try:
                ctx.register_function(definition(o, classes), exclusive=exclusive)
            except exceptions.InvalidMethodException:
                rejected.append((li, ai))
    return ctx.create_child_context(), tuple(sorted(rejected))


# constant -> (spelling, expression object the parser builds for it)
CONSTANTS = {None: ('null', expressions.Constant(None)), 1: ('1', expressions.Constant(1)),
             'k': ("'k'", expressions.Constant('k')), 'kw': ('kw', expressions.KeywordConstant('kw'))}

ERRORS = {
    exceptions.NoFunctionRegisteredException: ('error', M.UNKNOWN, 'function'),
    exceptions.NoMethodRegisteredException: ('error', M.UNKNOWN, 'method'),
    exceptions.NoMatchingFunctionException: ('error', M.NOMATCH, 'function'),
    exceptions.NoMatchingMethodException: ('error', M.NOMATCH, 'method'),
    exceptions.AmbiguousFunctionException: ('error', M.AMBIGUOUS, 'function'),
    exceptions.AmbiguousMethodException: ('error', M.AMBIGUOUS, 'method'),
}


def _observe(thunk):
    del LOG[:]
    try:
        tag, received = thunk().split('|')
        out = (('run', tag), tuple(LOG), received)
    except Exception as e:
        out = (ERRORS.get(type(e), ('exception', type(e).__name__, str(e)[:120])), tuple(LOG), None)
    return out


def key_of(i, recv):
    return i + (0 if recv is None else 1)


def direct(ctx, call, values, rules=False):
    """context(name, engine, receiver)(*argument expressions, **keyword expressions);
    with rules=True the keyword arguments are handed over the way the parser
    does it, as positional `name => expr` mapping-rule expressions."""
    recv, args, kwargs = call

    def expr(key, item):
        if item == M.SKIP:
            return utils.NO_VALUE
        if item[0] == 'var':
            return Probe(key, values[item[1]])
        if item[0] == 'const':
            return CONSTANTS[item[1]][1]
        raise ValueError(item)
    pos = [expr(key_of(i, recv), a) for i, a in enumerate(args)]
    kw = dict((k, expr(k, a)) for k, a in kwargs)
    if rules:
        pos += [expressions.MappingRuleExpression(expressions.KeywordConstant(k), e) for k, e in kw.items()]
        kw = {}
    receiver = utils.NO_VALUE if recv is None else values[recv[1]]
    return _observe(lambda: ctx('foo', yq.engine(), receiver)(*pos, **kw))


def spellable(call):
    """The grammar has no trailing empty slot, except a single one between a
    value and the keyword arguments."""
    recv, args, kwargs = call
    if not args:
        return True
    if args[-1] != M.SKIP:
        return True
    return bool(kwargs) and len(args) >= 2 and args[-2] != M.SKIP


def text_of(call):
    recv, args, kwargs = call

    def spell(key, item):
        if item == M.SKIP:
            return ''
        if item[0] == 'var':
            return 'p%s(%s)' % (item[1], key if isinstance(key, int) else "'%s'" % key)
        return CONSTANTS[item[1]][0]
    parts = [spell(key_of(i, recv), a) for i, a in enumerate(args)]
    parts += ['%s => %s' % (k, spell(k, a)) for k, a in kwargs]
    text = 'foo(%s)' % ', '.join(parts)
    if recv is not None:
        text = ('$%s.' % recv[1]) + text
    return text


def textual(ctx, call):
    """The same call written as YAQL text and evaluated as a statement."""
    st = yq.parse(text_of(call))
    return _observe(lambda: st.evaluate(context=ctx))


# ---------------------------------------------------------------------------
# the smart-type alphabet (models.resolve.type_accepts / resolve_typed)
# ---------------------------------------------------------------------------
import datetime as _datetime       # noqa: E402

# value class of the model -> ($name / p<name>() probe, the value)
TYPE_VALUES = {'s': 'k', 'i': 1, 'f': 1.5, 't': True, 'n': None, 'l': (1, 2), 'd': utils.FrozenDict({'a': 'v'}),
               'g': iter(()), 'w': _datetime.datetime(2020, 1, 2), 'a': A()}
VALUE_CLASS = {'s': 'str', 'i': 'int', 'f': 'float', 't': 'bool', 'n': 'null', 'l': 'list', 'd': 'dict',
               'g': 'iterator', 'w': 'datetime', 'a': 'object'}
_PYTHON = {'object': object, 'str': str, 'A': A}


def value_class(v):
    """The model's value class of a python value (for the harness self-check)."""
    for cls, name in ((type(None), 'null'), (bool, 'bool'), (str, 'str'), (int, 'int'), (float, 'float'),
                      (_datetime.datetime, 'datetime'), (utils.MappingType, 'dict'), (utils.SequenceType, 'list'),
                      (utils.IteratorType, 'iterator')):
        if isinstance(v, cls):
            return name
    return 'object'


def smart_type(t):
    """The yaqltypes object of a type description of the model."""
    name = t[0]
    if name == 'Expression':
        classes = tuple(getattr(expressions, c) for c in t[1])
        return yaqltypes.YaqlExpression(classes[0] if len(classes) == 1 else classes or None)
    if name == 'Lambda':
        return yaqltypes.Lambda(method=t[1])
    if name == 'Keyword':
        return yaqltypes.Keyword()
    if name == 'Python':
        return yaqltypes.PythonType(_PYTHON[t[1]], t[2])
    if name in ('AnyOf', 'Chain'):
        return getattr(yaqltypes, name)(*[smart_type(x) for x in t[1]], nullable=t[2])
    if name == 'NotOfType':
        return yaqltypes.NotOfType(smart_type(t[1]), nullable=t[2])
    return getattr(yaqltypes, name)(nullable=t[1])


_typed = {}


def typed_definition(tag, types):
    """foo(x[, y]) with the parameters declared by @specs.parameter(name, smart type)."""
    key = (tag, types)
    if key not in _typed:
        names = ('x', 'y')[:len(types)]
        ns = {'_report': _report}
        exec('def foo(%s):\n    return _report(%r, (%s,))\n' % (
            ', '.join(names), tag, ', '.join('(%r, %s)' % (n, n) for n in names)), ns)
        fn = ns['foo']
        for n, t in zip(names, types):
            fn = specs.parameter(n, smart_type(t))(fn)
        _typed[key] = specs.get_function_definition(fn, name='foo', convention=CONVENTION)
    return _typed[key]


def build_typed(layers, base):
    """Chain of contexts for layers ((exclusive, ((tag, types), ...)), ...) nearest first."""
    ctx = base
    for exclusive, overloads in reversed(layers):
        ctx = OrderedContext(ctx)
        for tag, types in overloads:
            ctx.register_function(typed_definition(tag, types), exclusive=exclusive)
    return ctx.create_child_context()


def typed_call(ctx, texts):
    """foo(<argument texts>) evaluated as a statement -> (outcome, log of evaluated probes)."""
    st = yq.parse('foo(%s)' % ', '.join(texts))
    return _observe(lambda: st.evaluate(context=ctx))[:2]
