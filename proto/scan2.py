import warnings; warnings.filterwarnings('ignore')
import yaql, itertools
eng = yaql.YaqlFactory().create({'yaql.convertOutputData': False})
engF = yaql.YaqlFactory().create()
ROOT = yaql.create_context()
class Horizon(BaseException): pass
class Src:
    def __init__(self, h=300): self.n = 0; self.h = h
    def __iter__(self): return self
    def __next__(self):
        self.n += 1
        if self.n > self.h: raise Horizon()
        return self.n
ticks = []
def tick(i, v): ticks.append(i); return v
ROOT.register_function(tick)
print('=== C14: first k results of op over endless source: pulls and lambda ticks')
ops = ["select(tick(1, $ * 2))", "where(tick(1, $ mod 2 = 0))", "selectMany(tick(1, [$, $]))", "skip(2)", "take(5)", "takeWhile(tick(1, $ < 100))", "skipWhile(tick(1, $ < 3))",
       "append(0)", "concat([0])", "distinct()", "distinct(tick(1, $))", "enumerate()", "zip($t)", "accumulate(tick(1, $1 + $2))", "insert(1, 0)", "delete(1)", "replace(1, 0)", "slice(2)", "memorize()",
       "insertMany(1, [7,8])", "replaceMany(1, [7])", "zipLongest($t)", "cycle()", "defaultIfEmpty([0])", "join($t.take(2), tick(1, true), [$1, $2])", "flatten()", "limit(5)"]
for op in ops:
    for k in (0, 1, 3):
        s = Src(); t = Src(); del ticks[:]
        ctx = ROOT.create_child_context(); ctx['s'] = s; ctx['t'] = t
        try:
            it = iter(eng('$s.' + op).evaluate(context=ctx))
            got = list(itertools.islice(it, k)); r = 'ok'
        except Horizon: r = 'HORIZON'
        except Exception as e: r = 'EXC ' + type(e).__name__
        print('  %-45s k=%d pulls=%3d t=%3d ticks=%3d %s' % (op, k, s.n, t.n, len(ticks), r))
print('=== searches')
for e in ["$s.first()", "$s.any()", "$s.any(tick(1, $ > 2))", "$s.all(tick(1, $ < 3))", "$s.indexOf(3)", "$s.indexWhere(tick(1, $ = 3))", "$s.a", "$s.select({a => $}).a.take(2)", "$s.contains(3)", "3 in $s"]:
    s = Src(); del ticks[:]
    ctx = ROOT.create_child_context(); ctx['s'] = s
    try:
        v = eng(e).evaluate(context=ctx)
        if hasattr(v, '__next__') or hasattr(v, '__iter__') and not isinstance(v, (str, tuple, list, dict)): v = list(itertools.islice(iter(v), 2))
        r = repr(v)
    except Horizon: r = 'HORIZON'
    except Exception as ex: r = 'EXC ' + type(ex).__name__
    print('  %-45s pulls=%3d ticks=%3d %s' % (e, s.n, len(ticks), r[:50]))
print('=== C11: eager args once, lazy on demand')
for e in ["tick(1, 1) + tick(2, 2)", "tick(1, true) and tick(2, false) and tick(3, true)", "tick(1, false) and tick(2, true)", "tick(1, true) or tick(2, true)", "tick(1, null)?.foo(tick(2, 1))",
          "switch(tick(1, false) => tick(2, 1), tick(3, true) => tick(4, 2), tick(5, true) => tick(6, 3))", "coalesce(tick(1, null), tick(2, 5), tick(3, 6))", "tick(1, 1).switchCase(tick(2, a), tick(3, b), tick(4, c))",
          "selectCase(tick(1, false), tick(2, true), tick(3, true))", "[tick(1, 1), tick(2, 2)][tick(3, 0)]", "{tick(1, a) => tick(2, 1), tick(3, b) => tick(4, 2)}", "tick(1, [3,1,2]).orderBy(tick(2, $))",
          "tick(1, 'abc').substring(tick(2, 1), tick(3, 1))", "len(tick(1, 'abc'))", "tick(1, [1,2]).select(tick(2, $)).where(tick(3, true))", "max(tick(1, 1), tick(2, 2))", "tick(1, [1,2,3]).len()", "str(tick(1, 1))",
          "dict(tick(1, a) => tick(2, 1))", "tick(1, {a=>1}).set(tick(2, b), tick(3, 2))", "let(tick(1, 1), x => tick(2, 2)) -> tick(3, $x)", "tick(1, [1,2]).toDict(tick(2, $), tick(3, $))", "tick(1, [1, 2]).sum(tick(2, 0))",
          "tick(1, 5).assert(tick(2, true), tick(3, 'm'))", "tick(1, [1,2,2]).groupBy(tick(2, $), tick(3, $), tick(4, $.len()))"]:
    del ticks[:]
    try: r = repr(engF(e).evaluate(context=ROOT.create_child_context()))
    except Exception as ex: r = 'EXC ' + type(ex).__name__
    print('  %-100s %s -> %s' % (e, ticks, r[:40]))
