import warnings; warnings.filterwarnings('ignore')
import yaql, itertools, collections, math
eng = yaql.YaqlFactory().create(); ROOT = yaql.create_context()
vals = [None, True, False, 0, -0.0, 1, -1, 2, 7, -7, 2**63 - 1, 2**63 + 1, 10**40, -10**40, 0.5, -2.5, 5e-324, 1.7e308, 1e16, '', 'a', 'ab', 'b', 'é', 'A', '\U0001F600', '1']
def kind(v):
    if v is None: return 'null'
    if isinstance(v, bool): return 'bool'
    if isinstance(v, int): return 'int'
    if isinstance(v, float): return 'float'
    return 'str'
BIN = ['+', '-', '*', '/', 'mod', '<', '<=', '>', '>=', '=', '!=', 'and', 'or', 'in']
st = {op: eng('$a %s $b' % op) for op in BIN}
def ev(op, a, b):
    c = ROOT.create_child_context(); c['a'] = a; c['b'] = b
    try: return ('v', st[op].evaluate(context=c))
    except Exception as e: return ('e', type(e).__name__)
matrix = collections.defaultdict(collections.Counter)
res = {}
for a, b in itertools.product(vals, repeat=2):
    for op in BIN:
        r = ev(op, a, b); res[(op, repr(a), repr(b))] = r
        matrix[(op, kind(a), kind(b))][r[1] if r[0] == 'e' else 'value:' + kind(r[1])] += 1
print('=== outcome kinds by (op, kind, kind)')
for op in BIN:
    print(op)
    for ka in ['null', 'bool', 'int', 'float', 'str']:
        row = []
        for kb in ['null', 'bool', 'int', 'float', 'str']:
            row.append('%s/%s: %s' % (ka[:2], kb[:2], ','.join('%s' % k.replace('NoMatchingFunctionException', 'NOMATCH').replace('value:', '') for k in matrix[(op, ka, kb)])))
        print('    ' + ' | '.join(row))
print('=== laws')
bad = collections.Counter(); ex = {}
def note(k, *a):
    bad[k] += 1; ex.setdefault(k, a)
R = lambda op, a, b: res[(op, repr(a), repr(b))]
for a, b in itertools.product(vals, repeat=2):
    lt, gt, le, ge, eq = R('<', a, b), R('>', a, b), R('<=', a, b), R('>=', a, b), R('=', a, b)
    ks = {kind(a), kind(b)}
    orderable = (ks <= {'int', 'float', 'null'}) or (ks <= {'str', 'null'})
    if orderable:
        if any(x[0] == 'e' for x in (lt, gt, le, ge)): note('orderable-error', a, b, lt, gt, le, ge); continue
        if gt[1] != R('<', b, a)[1]: note('a>b != b<a', a, b)
        if le[1] != (lt[1] or eq[1]): note('<= law', a, b, le, lt, eq)
        if ge[1] != (gt[1] or eq[1]): note('>= law', a, b)
        if [lt[1], eq[1], gt[1]].count(True) != 1: note('trichotomy', a, b, lt, eq, gt)
    else:
        if 'bool' in ks or ks == {'int', 'str'} or ks == {'float', 'str'}:
            for op in ('<', '>', '<=', '>='):
                if R(op, a, b) != ('e', 'NoMatchingFunctionException'): note('unrelated-accepted ' + op, a, b, R(op, a, b))
    if 'bool' in ks:
        for op in ('+', '-', '*', '/', 'mod'):
            if R(op, a, b)[0] == 'v': note('bool-accepted ' + op, a, b, R(op, a, b))
    if kind(a) == 'int' and kind(b) == 'int' and b != 0:
        q, m = R('/', a, b), R('mod', a, b)
        if q[0] == 'v' and m[0] == 'v' and q[1] * b + m[1] != a: note('div-mod identity', a, b, q, m)
        if q[0] == 'v' and not isinstance(q[1], int): note('int/int not int', a, b, q)
print(dict(bad))
for k, v in ex.items(): print('  ', k, v)
print('=== unary')
for op in ('-', '+', 'not'):
    print(op, [(repr(v), (lambda r: r)(ev_u)) for v in []])
    s = eng('%s $a' % op); out = []
    for v in vals:
        c = ROOT.create_child_context(); c['a'] = v
        try: out.append((repr(v)[:8], repr(s.evaluate(context=c))[:10]))
        except Exception as e: out.append((repr(v)[:8], type(e).__name__[:10]))
    print('  ', out)
