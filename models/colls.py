"""Reference model of yaql's collection and query functions (property C13).

Written from the docstrings of yaql/standard_library/{queries,collections,
system}.py and from the statement of C13; imports nothing from yaql.  One
boring definition per function.

Values: sequence / iterator -> list, set -> frozenset, dictionary -> dict,
scalars null/bool/int/str as Python values.  Lambdas are Python callables.

A definition either returns the documented value, raises Err(cls) for a
*documented* error (StopIteration of first/last/single, ValueError of unpack,
'nomatch' when an operator inside a lambda has no overload for its operands -
the C15 model decides that), or raises OutOfDomain when the docstring does not
say what happens (negative positions, empty input without a seed, mixed
int/str orderings, ...): such cases are enumerated and counted, never judged.
"""
from models import scalar as S


class OutOfDomain(Exception):
    pass


class Err(Exception):
    def __init__(self, cls):
        Exception.__init__(self, cls)
        self.cls = cls


NOVALUE = object()        # "argument not supplied"


def ood(why):
    raise OutOfDomain(why)


# ---------------------------------------------------------------------------
# values, equality, truth, scalar operators (C15 model)
# ---------------------------------------------------------------------------
def is_scalar(v):
    return v is None or isinstance(v, (bool, int, str))


def is_iterable(v):
    # isIterable docstring: lists and sets are, strings and dictionaries are not
    return isinstance(v, (list, frozenset))


def truth(v):
    if isinstance(v, (list, frozenset, dict)):
        return len(v) > 0
    return S.truth(v)


def eq(a, b):
    """Structural equality.  bool = number is not defined by the language
    statement (C15), so a comparison that would have to decide it is out of
    domain."""
    ba, bb = isinstance(a, bool), isinstance(b, bool)
    if ba != bb and isinstance(a, int) and isinstance(b, int):
        ood('bool compared with number')
    if isinstance(a, list) and isinstance(b, list):
        return len(a) == len(b) and all(eq(x, y) for x, y in zip(a, b))
    if isinstance(a, dict) and isinstance(b, dict):
        return len(a) == len(b) and all(has_key(b, k) and eq(v, b[k]) for k, v in a.items())
    if isinstance(a, frozenset) and isinstance(b, frozenset):
        return len(a) == len(b) and all(member(x, b) for x in a)
    if type(a) is not type(b):
        return False
    return a == b


def member(v, c):
    """v in c, deciding with eq, left to right, stopping at the first hit."""
    for x in c:
        if eq(x, v):
            return True
    return False


def has_key(d, k):
    return member(k, list(d.keys()))


def binary(op, a, b):
    """A scalar operator applied inside a lambda, decided by the C15 model."""
    if op in ('=', '!='):
        r = eq(a, b)
        return r if op == '=' else not r
    for v in (a, b):
        if isinstance(v, (dict, frozenset)):
            ood('operator on a dict/set operand')
    r = S.binary(op, a, b)
    if r is None:
        ood('operator outside the C15 domain')
    if r[0] == 'e':
        raise Err(r[1])
    return r[1]


def compare(a, b):
    """-1 / 0 / 1 by the '<' and '>' operators (numbers with numbers, strings
    with strings, null lowest)."""
    if binary('<', a, b):
        return -1
    if binary('>', a, b):
        return 1
    return 0


def hashable_elements(c, what):
    """Elements of a set / keys of a dict must be scalars here: composite
    elements are the subject of C10 (finalisation), and 1/true collide."""
    c = list(c)
    if not all(is_scalar(x) for x in c):
        ood('composite %s (finalisation of it is property C10)' % what)
    if any(isinstance(x, bool) for x in c) and any(isinstance(x, int) and not isinstance(x, bool) for x in c):
        ood('bool and number in one %s' % what)
    return c


# ---------------------------------------------------------------------------
# the lambda family of the property (text -> callable) and argument values
# ---------------------------------------------------------------------------
def _index(x, i):
    if not isinstance(x, list) or not 0 <= i < len(x):
        ood('index into a non-list or past its end')
    return x[i]


def _len(x):
    if isinstance(x, (list, frozenset, dict)):
        return len(x)
    if isinstance(x, str):
        return len(x)
    raise Err('nomatch')


UNARY = {
    '$': lambda x: x,
    '$ > 1': lambda x: binary('>', x, 1),
    '$ mod 2': lambda x: binary('mod', x, 2),
    '$ = null': lambda x: eq(x, None),
    '[$, $]': lambda x: [x, x],
    # helpers for keyed functions on lists of pairs and for aggregators
    '$[0]': lambda x: _index(x, 0),
    '$[1]': lambda x: _index(x, 1),
    '$.len()': _len,
    '$.sum()': lambda x: sum_(x) if isinstance(x, list) else ood('sum of a non-list'),
    '$ != null': lambda x: not eq(x, None),
    '$ < 3': lambda x: binary('<', x, 3),
    '$ + 1': lambda x: binary('+', x, 1),
    '($ + 1) mod 3': lambda x: binary('mod', binary('+', x, 1), 3),
    '$ * 10': lambda x: binary('*', x, 10),
    'true': lambda x: True,
    'false': lambda x: False,
}
BINARY = {
    '$1 + $2': lambda a, b: binary('+', a, b),
    '$1 = $2': lambda a, b: eq(a, b),
    '$1 > $2': lambda a, b: binary('>', a, b),
    '[$1, $2]': lambda a, b: [a, b],
    '$1': lambda a, b: a,
    '$2': lambda a, b: b,
    'true': lambda a, b: True,
}
VALUES = {'1': 1, '2': 2, '3': 3, 'null': None, "'a'": 'a', "'b'": 'b', '7': 7, '9': 9, '0': 0}
OTHERS = {
    '[]': [], '[7]': [7], '[7, null]': [7, None], '[2, 1, 2]': [2, 1, 2],
    "['a', 3].select($)": ['a', 3],          # a one-shot iterator as the other collection
}
TREES = {       # producers of generateMany: child tables
    '{1 => [2, 3], 2 => [4], 3 => [5]}.get($, [])': {1: [2, 3], 2: [4], 3: [5]},
    '{1 => [2, 3], 2 => [1], 3 => [2, 4]}.get($, [])': {1: [2, 3], 2: [1], 3: [2, 4]},
    '{1 => [1]}.get($, [])': {1: [1]},
    '{}.get($, [])': {},
}


# ---------------------------------------------------------------------------
# queries.py
# ---------------------------------------------------------------------------
def where(c, predicate):
    # "Returns only those collection elements, for which the filtering query (predicate) is true."
    return [x for x in c if truth(predicate(x))]


def select(c, selector):
    # "Applies the selector to every item of the collection and returns a list of results."
    return [selector(x) for x in c]


def attribution(c, key):
    # operator '.' on a collection: "Retrieves the value of an attribute for each element"
    out = []
    for x in c:
        if not isinstance(x, dict) or not has_key(x, key):
            ood('attribute of a non-dict element / missing key')
        out.append(x[key])
    return out


def skip(c, count):
    # "Returns a collection without first count elements. If count is greater or equal to collection size, return value is empty list"
    if count < 0:
        ood('negative count')
    return list(c[count:])


def take(c, count):
    # limit/take: "Returns the first count elements ... If count is greater or equal to collection size, return value is input collection"
    if count < 0:
        ood('negative count')
    return list(c[:count])


def append(c, *args):
    # "Returns a collection with appended args."
    return list(c) + list(args)


def distinct(c, key_selector=None):
    # "Returns only unique members of the collection. If keySelector is specified, it is used to determine uniqueness."
    # (first occurrence is kept: docstring example distinct($[1]))
    seen, out = [], []
    for x in c:
        k = x if key_selector is None else key_selector(x)
        if not member(k, seen):
            seen.append(k)
            out.append(x)
    return out


def enumerate_(c, start=0):
    # "Returns an iterator over pairs (index, value)"; start: integer
    return [[start + i, x] for i, x in enumerate(c)]


def any_(c, predicate=None):
    # "Returns true if a collection is not empty. If a predicate is specified, determines whether any element ... satisfies the predicate."
    for x in c:                       # short-circuit search (C14 statement)
        if predicate is None or truth(predicate(x)):
            return True
    return False


def all_(c, predicate=None):
    # "Returns true if all the elements of a collection evaluate to true. If a predicate is specified, ... true for all elements"
    for x in c:
        if not truth(x if predicate is None else predicate(x)):
            return False
    return True


def concat(c, *others):
    # "consequently iterates over elements of the first collection, then proceeds to the next collection and so on"
    out = list(c)
    for o in others:
        out += list(o)
    return out


def count(c):
    # len / count: "Returns the size of the collection."
    return len(c)


def memorize(c):
    # "Returns an iterator over collection and memorizes already iterated values ... can be used for iterating over collection several times"
    return list(c)


def _fold(c, f, seed):
    c = list(c)
    if seed is NOVALUE:
        if not c:
            ood('empty collection without an initial value')
        seed, c = c[0], c[1:]
    for x in c:
        seed = f(seed, x)
    return seed


def _kinds(c):
    return set('null' if x is None else type(x).__name__ for x in c)


def sum_(c, initial=NOVALUE):
    # "Returns the sum of values in a collection starting from initial if specified." (['a','b'].sum('c') = "cab")
    return _fold(c, lambda a, b: binary('+', a, b), initial)


def _extreme(c, initial, op):
    allv = list(c) + ([] if initial is NOVALUE else [initial])
    if not all(is_scalar(x) for x in allv):
        ood('max/min of composite values')
    if {'int', 'str'} <= _kinds(allv) or 'bool' in _kinds(allv):
        ood('max/min over values that are not mutually ordered: the result depends on the folding order')
    return _fold(c, lambda a, b: a if binary(op, a, b) else b, initial)


def max_(c, initial=NOVALUE):
    # "Returns max value in collection. Considers initial if specified."
    return _extreme(c, initial, '>')


def min_(c, initial=NOVALUE):
    # "Returns min value in collection. Considers initial if specified."
    return _extreme(c, initial, '<')


def first(c, default=NOVALUE):
    # "Returns the first element of the collection. If the collection is empty, returns the default value or raises StopIteration"
    if c:
        return c[0]
    if default is NOVALUE:
        raise Err('StopIteration')
    return default


def last(c, default=NOVALUE):
    # "Returns the last element of the collection. If the collection is empty, returns the default value or raises StopIteration"
    if c:
        return c[-1]
    if default is NOVALUE:
        raise Err('StopIteration')
    return default


def single(c):
    # "Checks that collection has only one element and returns it. If the collection is empty or has more than one element, raises StopIteration."
    if len(c) != 1:
        raise Err('StopIteration')
    return c[0]


def select_many(c, selector):
    # "If the selector returns an iterable object, iterates over its elements instead of itself."
    out = []
    for x in c:
        r = selector(x)
        if isinstance(r, frozenset):
            ood('order of a set produced inside selectMany')
        if is_iterable(r):
            out += list(r)
        else:
            out.append(r)
    return out


def range_(start, stop=NOVALUE, step=1):
    # range(stop): [0, stop); range(start, stop, step => 1): [start, stop) with step
    if stop is NOVALUE:
        start, stop = 0, start
    if step == 0:
        ood('zero step')
    return list(range(start, stop, step))


def sequence(n, start=0, step=1):
    # "Returns an iterator to the sequence beginning from start with step." (first n elements of it)
    return [start + i * step for i in range(n)]


def order_by(c, fields):
    """orderBy / orderByDescending followed by thenBy / thenByDescending:
    fields = [(selector, ascending), ...].  C13: "ordering is a stable sort
    that is a permutation of its input"."""
    c = list(c)
    if len(c) < 2:
        return c                       # nothing to compare, no key is needed
    try:
        keys = [[f(x) for f, _ in fields] for x in c]
    except Err:
        if len(fields) > 1:
            ood('failing key selector with thenBy: whether a secondary key is needed is unspecified')
        raise

    def cmp(ka, kb):
        for (a, b), (_, asc) in zip(zip(ka, kb), fields):
            r = compare(a, b)
            if r:
                return r if asc else -r
        return 0
    # every pair must be comparable, else the outcome depends on which pairs the algorithm compares
    failed = 0
    for i in range(len(c)):
        for j in range(i + 1, len(c)):
            try:
                cmp(keys[i], keys[j])
            except Err:
                failed += 1
    npairs = len(c) * (len(c) - 1) // 2
    if failed == npairs and len(fields) == 1:
        raise Err('nomatch')
    if failed:
        ood('keys that are not mutually ordered')
    out = []                           # stable insertion sort
    for k, x in zip(keys, c):
        pos = len(out)
        while pos > 0 and cmp(out[pos - 1][0], k) > 0:
            pos -= 1
        out.insert(pos, (k, x))
    return [x for _, x in out]


def group_by(c, key_selector, value_selector=None, aggregator=None):
    # "Returns a list of pairs where the first value is a result value of keySelector and the second is a list of values
    # which have common keySelector return value"; aggregator: "function to aggregate value within each group".
    # C13: "grouping partitions its input preserving encounter order".
    keys, groups = [], []
    for x in c:
        v = x if value_selector is None else value_selector(x)
        k = key_selector(x)
        for i, k2 in enumerate(keys):
            if eq(k, k2):
                groups[i].append(v)
                break
        else:
            keys.append(k)
            groups.append([v])
    if aggregator is None:
        return [[k, g] for k, g in zip(keys, groups)]
    out = []
    for k, g in zip(keys, groups):
        try:
            out.append([k, aggregator(g)])
        except Err:
            ood('failing aggregator (legacy pre-1.1.1 fallback is not documented)')
    return out


def zip_(c, *others):
    # "Stops iterating as soon as any of the collections is exhausted."
    return [list(t) for t in zip(c, *others)]


def zip_longest(c, *others, **kw):
    # "Iterates until all the collections are not exhausted and fills lacking values with default value, which is null by default."
    default = kw.get('default', None)
    cols = [list(c)] + [list(o) for o in others]
    n = max(len(x) for x in cols)
    return [[x[i] if i < len(x) else default for x in cols] for i in range(n)]


def join(c1, c2, predicate, selector):
    # "selector applied to those combinations of collection1 and collection2 elements, for which predicate is true"
    # (collection1 is the outer, streamed side: C14)
    c2 = list(c2)
    return [selector(a, b) for a in c1 for b in c2 if truth(predicate(a, b))]


def repeat(value, times):
    # "times: how many times repeat value. -1 by default, which means ... endless"
    if times < 0:
        ood('negative times other than the default')
    return [value] * times


def cycle(c, n):
    # "Makes an iterator returning elements from the collection as if it cycled." (first n elements of it)
    if not c:
        ood('cycle of an empty collection')
    if n < 0:
        ood('negative count')
    return [c[i % len(c)] for i in range(n)]


def take_while(c, predicate):
    # "Returns elements from the collection as long as the predicate is true."
    out = []
    for x in c:
        if not truth(predicate(x)):
            break
        out.append(x)
    return out


def skip_while(c, predicate):
    # "Skips elements from the collection as long as the predicate is true. Then returns ... remaining elements"
    c = list(c)
    for i, x in enumerate(c):
        if not truth(predicate(x)):
            return c[i:]
    return []


def index_of(c, item):
    # "index in the collection of the first item which value is item. -1 ... if there is no such item"
    for i, x in enumerate(c):
        if eq(x, item):
            return i
    return -1


def last_index_of(c, item):
    r = -1
    for i, x in enumerate(c):
        if eq(x, item):
            r = i
    return r


def index_where(c, predicate):
    for i, x in enumerate(c):
        if truth(predicate(x)):
            return i
    return -1


def last_index_where(c, predicate):
    r = -1
    for i, x in enumerate(c):
        if truth(predicate(x)):
            r = i
    return r


def slice_(c, length):
    # "collection divided into list of collections with max size of new parts equal to length"
    if length < 1:
        ood('non-positive length')
    return [list(c[i:i + length]) for i in range(0, len(c), length)]


def split_where(c, predicate):
    # "divided into list of collections where delimiters are values for which predicate returns true. Delimiters are deleted from result."
    # Docstring is silent about a group after a trailing delimiter (Appendix C): such inputs are out of domain.
    flags = [truth(predicate(x)) for x in c]
    if flags and flags[-1]:
        ood('trailing delimiter')
    if not c:
        ood('empty input')
    out, cur = [], []
    for x, f in zip(c, flags):
        if f:
            out.append(cur)
            cur = []
        else:
            cur.append(x)
    out.append(cur)
    return out


def slice_where(c, predicate):
    # "Within every list predicate evaluated on its items returns the same value while predicate evaluated on the items of
    # the adjacent lists returns different values."
    out, prev = [], None
    for i, x in enumerate(c):
        p = predicate(x)
        if i and eq(p, prev):
            out[-1].append(x)
        else:
            out.append([x])
        prev = p
    return out


def split_at(c, index):
    # "Splits collection into two lists by index."
    if not 0 <= index <= len(c):
        ood('index outside [0, size]')
    return [list(c[:index]), list(c[index:])]


def aggregate(c, selector, seed=NOVALUE):
    # aggregate / reduce: "Applies selector of two arguments cumulatively ... seed ... becomes a default when the collection is empty"
    return _fold(c, selector, seed)


def accumulate(c, selector, seed=NOVALUE):
    # "accumulate the collection to a list of intermediate values"; [].accumulate($1+$2, 1) = [1]
    c = list(c)
    if seed is NOVALUE:
        if not c:
            ood('empty collection without a seed')
        seed, c = c[0], c[1:]
    out = [seed]
    for x in c:
        out.append(selector(out[-1], x))
    return out


def reverse(c):
    return list(c)[::-1]


def merge_with(d1, d2, list_merger=None, item_merger=None, max_levels=0):
    # "Performs a deep merge of two dictionaries." listMerger default: distinct(lst1 + lst2); itemMerger default: the second
    # item; maxLevels: "how deeply merge dicts. 0 by default, which means going throughout them"
    if max_levels < 0:
        ood('negative maxLevels')
    lm = list_merger or (lambda a, b: distinct(a + b))
    im = item_merger or (lambda a, b: b)
    out = dict(d1)
    for k, v2 in d2.items():
        if not has_key(d1, k):
            out[k] = v2
            continue
        v1 = d1[k]
        kinds = ['dict' if isinstance(v, dict) else 'list' if isinstance(v, list) else 'item' for v in (v1, v2)]
        if max_levels == 1 or kinds == ['item', 'item']:
            out[k] = im(v1, v2)
        elif kinds[0] != kinds[1]:
            ood('merging values of different shapes')
        elif kinds[0] == 'dict':
            out[k] = merge_with(v1, v2, list_merger, item_merger, 0 if max_levels == 0 else max_levels - 1)
        else:
            out[k] = lm(v1, v2)
    return out


def generate(initial, predicate, producer, selector=None, decycle=False, cap=50):
    # "values beginning from initial value with every next value produced with producer applied to every previous value,
    # while predicate is true"; decycle: "return only distinct values if true"
    out, past, x = [], [], initial
    while truth(predicate(x)):
        if decycle:
            if member(x, past):
                break                  # a deterministic producer can only repeat from here on
            past.append(x)
        out.append(x if selector is None else selector(x))
        x = producer(x)
        if len(out) > cap:
            ood('endless generation')
    return out


def generate_many(initial, producer, selector=None, decycle=False, depth_first=False, cap=50):
    # "tree traversal, where producer is used to get child nodes"; depthFirst: "puts produced elements to the start of queue"
    out, past, queue = [], [], [initial]
    while queue:
        x = queue.pop(0)
        if decycle:
            if member(x, past):
                continue
            past.append(x)
        out.append(x if selector is None else selector(x))
        kids = list(producer(x))
        queue = kids + queue if depth_first else queue + kids
        if len(out) > cap:
            ood('endless generation')
    return out


def default_if_empty(c, default):
    # "Returns default value if collection is empty."
    return list(c) if c else list(default)


# ---------------------------------------------------------------------------
# collections.py
# ---------------------------------------------------------------------------
def list_(*args):
    """list([args]): args are given as ('it', [...]) for a one-shot iterator
    argument and ('v', value) otherwise.  "unpacks arg element if it's
    iterable" - the example unpacks an iterator; whether a list argument is
    unpacked contradicts the examples of set(), so that is out of domain."""
    out = []
    for tag, v in args:
        if tag == 'it':
            out += list(v)
        elif isinstance(v, (list, frozenset)):
            ood('list/set argument of list()/set()')
        else:
            out.append(v)
    return out


def to_list(c):
    return list(c)


def flatten(c):
    # "recursive traversal of collection": ["a", ["b", [2,3]]] -> ["a", "b", 2, 3]
    out = []
    for x in c:
        if isinstance(x, frozenset):
            ood('order of a nested set')
        if isinstance(x, list):
            out += flatten(x)
        else:
            out.append(x)
    return out


def build_list(*args):
    # the list literal
    return list(args)


def dict_(*pairs):
    # dict(a => 1, b => 2) and the dict literal; a repeated key is not documented
    hashable_elements([k for k, _ in pairs], 'dict key')
    out = {}
    for k, v in pairs:
        if has_key(out, k):
            ood('repeated key')
        out[k] = v
    return out


def dict_from_items(items):
    # dict(items): "list of pairs [key, value]"
    pairs = []
    for t in items:
        if not isinstance(t, list) or len(t) != 2:
            ood('item that is not a pair')
        pairs.append(t)
    return dict_(*pairs)


def to_dict(c, key_selector, value_selector=None):
    # "keys are keySelector applied to collection elements and values are valueSelector applied to collection elements"
    return dict_(*[(key_selector(x), x if value_selector is None else value_selector(x)) for x in c])


def dict_key(d, key):
    # d.key and d[key]: "Returns value of a dictionary by given key."  A missing key is not documented.
    if not has_key(d, key):
        ood('missing key')
    return d[key]


def dict_get(d, key, default=None):
    # d[key, default], d.get(key, default => null): "or default if there is no such key"
    return d[key] if has_key(d, key) else default


def dict_set(d, *pairs):
    # set(key, value) / set(replacements) / set(k => v, ...): later value wins (docstring examples)
    hashable_elements(list(d.keys()) + [k for k, _ in pairs], 'dict key')
    out = dict(d)
    for k, v in pairs:
        out[k] = v
    return out


def dict_keys(d):
    return frozenset(d.keys())          # a key view is a set (DESIGN section 3)


def dict_values(d):
    return list(d.values())             # order of a dictionary is not documented: compared as a multiset


def dict_items(d):
    return [[k, v] for k, v in d.items()]


def in_(value, c):
    # in / contains: "true if there is at least one occurrence of value in collection"
    return member(value, c)


def contains_key(d, key):
    return has_key(d, key)


def contains_value(d, value):
    return member(value, list(d.values()))


def plus(left, right):
    # '+': two lists -> concatenated list, two sets -> union, two dicts -> right wins
    if isinstance(left, dict) and isinstance(right, dict):
        return dict_set(left, *right.items())
    if isinstance(left, frozenset) and isinstance(right, frozenset):
        return union(left, right)
    if isinstance(left, frozenset) or isinstance(right, frozenset):
        ood('set + list')
    return list(left) + list(right)


def times(seq, n):
    # "Returns sequence repeated count times."
    if n < 0:
        ood('negative count')
    return list(seq) * n


def is_list(kind):
    # isList / isDict / isSet / isIterable look at what kind of value the argument is:
    # 'list' | 'iterator' | 'set' | 'dict' | 'scalar' (an iterator is iterable but is not a list)
    return kind == 'list'


def is_dict(kind):
    return kind == 'dict'


def is_set(kind):
    return kind == 'set'


def is_iterable_kind(kind):
    # isIterable docstring: true for [] and set(1,2), false for "foo" and {"a" => 1}
    return kind in ('list', 'iterator', 'set')


def delete(c, position, count=1):
    # "Returns collection with removed [position, position+count) elements."
    if position < 0 or count < 0:
        ood('negative position or count')
    return [x for i, x in enumerate(c) if not position <= i < position + count]


def replace(c, position, value, count=1):
    # "[position, position+count) elements are replaced with value" (one value for the whole range: docstring example)
    return replace_many(c, position, [value], count)


def replace_many(c, position, values, count=1):
    # "[position, position+count) elements are replaced with values items"
    if position < 0 or count < 0:
        ood('negative position or count')
    c = list(c)
    if count == 0 or position >= len(c):
        return c                        # no element is in the range: nothing is replaced
    return c[:position] + list(values) + c[position + count:]


def delete_keys(d, keys):
    # delete([keys]) / deleteAll(keys): "Returns dict with keys removed."
    return dict((k, v) for k, v in d.items() if not member(k, keys))


def insert(c, position, value):
    # "value is inserted in the end if position greater than collection size"
    return insert_many(c, position, [value])


def insert_many(c, position, values):
    if position < 0:
        ood('negative position (tuple and iterator overloads differ, undocumented)')
    c = list(c)
    position = min(position, len(c))
    return c[:position] + list(values) + c[position:]


def set_(*args):
    return to_set(list_(*args))


def to_set(c):
    return frozenset(hashable_elements(c, 'set element'))


def union(a, b):
    return to_set(list(a) + list(b))


def intersect(a, b):
    hashable_elements(list(a) + list(b), 'set element')
    return frozenset(x for x in a if x in b)


def difference(a, b):
    hashable_elements(list(a) + list(b), 'set element')
    return frozenset(x for x in a if x not in b)


def symmetric_difference(a, b):
    return union(difference(a, b), difference(b, a))


# Sets whose elements are composite (dictionaries): modelled as lists without
# duplicates, decided with eq only - two dictionaries with the same key/value
# pairs are one element whatever the order their keys were inserted in.
def uniq(c):
    return distinct(c)


def uniq_union(a, b):
    return distinct(list(a) + list(b))


def uniq_intersect(a, b):
    return [x for x in distinct(a) if member(x, b)]


def uniq_difference(a, b):
    return [x for x in distinct(a) if not member(x, b)]


def uniq_symmetric_difference(a, b):
    return uniq_difference(a, b) + uniq_difference(b, a)


def uniq_subset(a, b):
    return all(member(x, b) for x in a)


def uniq_equal(a, b):
    return uniq_subset(a, b) and uniq_subset(b, a)


def set_le(a, b):
    # '<=': "true if left set is subset of right set"
    return len(difference(a, b)) == 0


def set_lt(a, b):
    # '<': "subset ... and left size is strictly less than right size"
    return set_le(a, b) and len(a) < len(b)


def set_add(s, *values):
    return union(s, values)


def set_remove(s, *values):
    return difference(s, to_set(values))


# ---------------------------------------------------------------------------
# system.py: unpack / with
# ---------------------------------------------------------------------------
def unpack(c, names, nvars=4):
    """[$name...] after sequence.unpack(names): "If args size is equal to
    sequence size then args get appropriate sequence values. If args size is 0
    then args are 1-based indexes. Otherwise ValueError is raised."  Returns
    the values of $1..$nvars (no names) or of the names."""
    c = list(c)
    if not names:
        return [c[i] if i < len(c) else None for i in range(nvars)]
    if len(names) != len(c):
        raise Err('ValueError')
    return c


def with_(args, nvars=4):
    # "Returns new context object where args are stored with 1-based indexes."
    return [args[i] if i < len(args) else None for i in range(nvars)]


# ---------------------------------------------------------------------------
# comparison of an observed (plain) result with a model value
# ---------------------------------------------------------------------------
def same(a, b):
    """Exact equality that keeps bool and int, list / set / dict apart."""
    if isinstance(a, bool) or isinstance(b, bool):
        return isinstance(a, bool) and isinstance(b, bool) and a == b
    if isinstance(a, list):
        return isinstance(b, list) and len(a) == len(b) and all(same(x, y) for x, y in zip(a, b))
    if isinstance(a, frozenset):
        return isinstance(b, frozenset) and sorted(map(_tag, a)) == sorted(map(_tag, b))
    if isinstance(a, dict):
        if not isinstance(b, dict) or sorted(map(_tag, a)) != sorted(map(_tag, b)):
            return False
        return all(same(v, b[k]) for k, v in a.items())
    return type(a) is type(b) and a == b


def same_multiset(a, b):
    """Two lists equal up to order (values of a dictionary)."""
    if not isinstance(a, list) or not isinstance(b, list) or len(a) != len(b):
        return False
    rest = list(b)
    for x in a:
        for i, y in enumerate(rest):
            if same(x, y):
                del rest[i]
                break
        else:
            return False
    return True


def _tag(v):
    return (type(v).__name__, repr(v))
