"""Reference interpreter for the core evaluation fragment of YAQL (property C04).

Environment passing over the checker's own AST; imports nothing from yaql and
never parses.  Written from doc/source/language_reference.rst ("Variable
access", "Function calls", "List/Map/Index expressions", "Delegate
expressions") and the docstrings of the standard library functions it names
(let, with, unpack, def, lambda, `->`, `.`, select, where, len, toList,
first, last, single, sum, dict(items), `+ * = > in`).

AST (tuples or lists - a replayed case arrives as JSON):
  ('lit', v)                      v: None | bool | int | str
  ('var', name)                   '$' + name; name '' is '$'
  ('list', [e, ...])              [e, ...]
  ('map', [[k, v], ...])          {k => v, ...}
  ('index', e, i)                 e[i]
  ('attr', e, name)               e.name
  ('bin', op, a, b)               a op b          op in + * = > in
  ('call', name, [args], [[kw, e], ...])          name(args, kw => e)
  ('meth', recv, name, [args], [[kw, e], ...])    recv.name(args, kw => e)   (keyword part optional)
  ('arrow', c, e)                 c -> e
  ('dcall', f, [args], [[kw, e], ...])            (f)(args, kw => e)         delegate call (keyword part optional)
Binding constructs are ordinary calls: let / with / def / lambda by 'call',
unpack / select / where / toDict / distinct / len / toList by 'meth'.  A library
function that documents its parameter names (collection.toDict(keySelector,
valueSelector => null), ...) accepts its arguments by keyword as well; a
keyword-passed lambda is as lazy as a positional one.

Values: None, bool, int, str, list, dict (insertion ordered), Lazy (the
one-shot iterable returned by select / where / collection attribution /
concatenation), Frame (a context object), Closure (a delegate).

Outcome of run(): ('v', plain value) | ('e',) | None (with classes=True an
error is ('e', name of the documented exception class or None)).  None means the case
leaves the documented domain (counted, never judged): a one-shot iterable
consumed twice, equality / ordering / truth of values for which the
documentation defines none (bool against number, iterables, contexts), a
context or delegate inside the final result.
"""


import re


class Err(Exception):
    """The model predicts that evaluation fails.  Errors are compared coarsely unless the documentation
    names the exception: then `cls` is its class name (first / last / single: "raises StopIteration")."""

    def __init__(self, message='', cls=None):
        Exception.__init__(self, message)
        self.cls = cls


class OutOfDomain(Exception):
    """The documentation does not define the result."""


class Frame(object):
    """One context layer: variables and functions; lookups walk the parents
    ("Variable access": a missing variable is null; '$' is an alias of '$1')."""

    def __init__(self, parent=None):
        self.parent = parent
        self.vars = {}
        self.funcs = {}

    def get(self, name):
        name = '1' if name == '' else name
        f = self
        while f is not None:
            if name in f.vars:
                return f.vars[name]
            f = f.parent
        return None

    def func(self, name):
        f = self
        while f is not None:
            if name in f.funcs:
                return f.funcs[name]
            f = f.parent
        return None


class Closure(object):
    """An unevaluated argument of a lazy (lambda) parameter: "the function
    implementation receives a passed value as a callable".  It keeps the frame
    it was created in; every invocation binds $1..$n / $name in a fresh child."""

    def __init__(self, body, frame):
        self.body = body
        self.frame = frame

    def __call__(self, /, *args, **kwargs):     # any keyword is a legal variable name, `self` included
        f = Frame(self.frame)
        for i, a in enumerate(args, 1):
            f.vars[str(i)] = a
        for k, a in kwargs.items():
            f.vars[k] = a
        return ev(self.body, f)


NOTES = set()      # input classes met by the last run() (used by the driver to name a failing class)


class Lazy(object):
    """One-shot iterable.  Elements are computed when pulled, so an error in a
    per-element lambda appears only if (and when) the element is consumed."""

    def __init__(self, gen):
        self.gen = gen
        self.used = False

    def __iter__(self):
        if self.used:
            raise OutOfDomain('one-shot iterable consumed twice')
        self.used = True
        return self.gen


def is_coll(v):
    return isinstance(v, (list, Lazy))


def kind(v):
    if v is None:
        return 'null'
    if isinstance(v, bool):
        return 'bool'
    if isinstance(v, int):
        return 'int'
    if isinstance(v, str):
        return 'str'
    if isinstance(v, list):
        return 'list'
    if isinstance(v, dict):
        return 'dict'
    return 'opaque'       # Lazy, Frame, Closure


def equal(a, b):
    """Deep equality of plain data; bool against number and opaque values are
    outside the documented domain (C15 owns the scalar corner cases)."""
    ka, kb = kind(a), kind(b)
    if (ka == 'null') != (kb == 'null'):
        return False                    # null equals only null
    if 'opaque' in (ka, kb) or {ka, kb} == {'bool', 'int'}:
        raise OutOfDomain('equality of %s and %s' % (ka, kb))
    if ka != kb:
        # a difference in kind decides, but only if no undefined comparison hides below
        return False
    if ka == 'list':
        return len(a) == len(b) and all([equal(x, y) for x, y in zip(a, b)])
    if ka == 'dict':
        if len(a) != len(b):
            return False
        for k, x in a.items():
            hit = [y for kk, y in b.items() if kind(kk) == kind(k) and kk == k]
            if not hit or not equal(x, hit[0]):
                return False
        return True
    return a == b


def truth(v):
    """`where` keeps the elements "for which the predicate is true"."""
    if kind(v) == 'opaque':
        raise OutOfDomain('truth value of an iterable / context / delegate')
    return bool(v)


def key_ok(k):
    """Dictionary keys of the fragment are scalars; a composite key is C10's subject."""
    if kind(k) in ('list', 'dict', 'opaque'):
        raise OutOfDomain('composite dictionary key')
    return k


def put(d, k, v):
    """Insert with "last mapping wins"; True/1 would collide in a Python dict."""
    for kk in d:
        if kk == k and kind(kk) != kind(k):
            raise OutOfDomain('bool and number as keys of one dictionary')
    d[k] = v


def lookup(d, k):
    if kind(k) in ('list', 'dict', 'opaque'):
        raise OutOfDomain('composite dictionary key')
    for kk, v in d.items():
        if kk == k:
            if kind(kk) != kind(k):
                raise OutOfDomain('bool against number key')
            return v
    raise Err('missing key %r' % (k,))


# --- operators ---------------------------------------------------------------
def op_add(a, b):
    ka, kb = kind(a), kind(b)
    if ka == 'int' and kb == 'int':
        return a + b
    if ka == 'str' and kb == 'str':
        return a + b
    if ka == 'list' and kb == 'list':
        return a + b
    if is_coll(a) and is_coll(b):       # "Returns two iterables concatenated"
        def gen():
            for x in a:
                yield x
            for x in b:
                yield x
        return Lazy(gen())
    if ka == 'dict' and kb == 'dict':   # "Returns combined left and right dictionaries"
        out = dict(a)
        for k, v in b.items():
            put(out, k, v)
        return out
    raise Err('+ on %s, %s' % (ka, kb))


def op_mul(a, b):
    ka, kb = kind(a), kind(b)
    if 'bool' in (ka, kb) and (kb if ka == 'bool' else ka) in ('str', 'list'):
        raise OutOfDomain('repetition by a boolean (C15)')
    if ka == 'int' and kb == 'int':
        return a * b
    if ka in ('str', 'list') and kb == 'int':
        return a * b
    if ka == 'int' and kb in ('str', 'list'):
        return b * a
    raise Err('* on %s, %s' % (ka, kb))


def op_gt(a, b):
    ka, kb = kind(a), kind(b)
    if ka == 'null' or kb == 'null':    # common.py: anything that is not null is greater than null
        return kb == 'null' and ka != 'null'
    if 'bool' in (ka, kb) or 'opaque' in (ka, kb):
        raise OutOfDomain('> on %s, %s' % (ka, kb))
    if ka == kb and ka in ('int', 'str'):
        return a > b
    raise Err('> on %s, %s' % (ka, kb))


def op_in(a, b):
    if isinstance(b, str):
        if isinstance(a, str):
            return a in b
        raise Err('in on %s, str' % kind(a))
    if is_coll(b):
        for x in b:                     # stops at the first hit
            if equal(a, x):
                return True
        return False
    raise Err('in on a non-collection')


OPS = {'+': op_add, '*': op_mul, '>': op_gt, 'in': op_in,
       '=': lambda a, b: equal(a, b)}


# --- library functions of the fragment ------------------------------------------
# name -> (form, lazy argument positions, implementation(call_frame, args, kwargs))
# form: 'f' function, 'm' method (receiver is args[0]), 'fm' both (extension method)
def _let(frame, args, kwargs):
    for i, a in enumerate(args, 1):
        frame.vars[str(i)] = a
    for k, a in kwargs.items():
        frame.vars[k] = a
    return frame


def _with(frame, args, kwargs):
    if kwargs:
        raise Err('with() takes no keyword arguments')
    return _let(frame, args, {})


def _unpack(frame, args, kwargs):
    seq, names = args[0], args[1:]
    if not is_coll(seq) or kwargs or any(not isinstance(n, str) for n in names):
        raise Err('unpack')
    if names:
        # "If args size is equal to sequence size then args get appropriate sequence values"
        items = []
        for x in seq:
            items.append(x)
            if len(items) > len(names):
                break
        if len(items) != len(names):
            raise Err('cannot unpack')
        for n, x in zip(names, items):
            frame.vars[n] = x
    else:
        # "If args size is 0 then args are 1-based indexes"
        NOTES.add('unpack()/' + ('iterator' if isinstance(seq, Lazy) else 'list'))
        for i, x in enumerate(seq, 1):
            frame.vars[str(i)] = x
    return frame


def _def(frame, args, kwargs):
    if len(args) != 2 or kwargs or not isinstance(args[0], str):
        raise Err('def')
    frame.funcs[args[0]] = args[1]
    return frame


def _lambda(frame, args, kwargs):
    if len(args) != 1 or kwargs:
        raise Err('lambda')
    return args[0]


def _select(frame, args, kwargs):
    if len(args) != 2 or kwargs or not is_coll(args[0]):
        raise Err('select')
    coll, fn = args
    return Lazy(fn(x) for x in coll)


def _where(frame, args, kwargs):
    if len(args) != 2 or kwargs or not is_coll(args[0]):
        raise Err('where')
    coll, fn = args
    return Lazy(x for x in coll if truth(fn(x)))


def _to_dict(frame, args, kwargs):
    # "keys are keySelector applied to collection elements and values are valueSelector applied to
    # collection elements ... null by default, which means values to be collection items"
    coll, kf, vf = args
    if not is_coll(coll):
        raise Err('toDict')
    out = {}
    for x in coll:
        k = key_ok(kf(x))
        put(out, k, x if vf is None else vf(x))
    return out


def _distinct(frame, args, kwargs):
    # "Returns only unique members of the collection. If keySelector is specified, it is used to determine uniqueness."
    coll, kf = args
    if not is_coll(coll):
        raise Err('distinct')

    def gen():
        seen = []
        for x in coll:
            k = x if kf is None else kf(x)
            NOTES.add('distinct-key/' + kind(k))
            if not any([equal(k, s) for s in seen]):
                seen.append(k)
                yield x
    return Lazy(gen())


def _len(frame, args, kwargs):
    if len(args) != 1 or kwargs:
        raise Err('len')
    v = args[0]
    if isinstance(v, (str, list, dict)):
        return len(v)
    if isinstance(v, Lazy):
        return len(list(v))
    raise Err('len of %s' % kind(v))


def _to_list(frame, args, kwargs):
    if len(args) != 1 or kwargs or not is_coll(args[0]):
        raise Err('toList')
    return list(args[0])


def _first(frame, args, kwargs):
    # "Returns the first element of the collection. If the collection is empty, returns the default value
    # or raises StopIteration if default is not specified."  Nothing beyond the first element is asked for.
    if not 1 <= len(args) <= 2 or kwargs or not is_coll(args[0]):
        raise Err('first')
    for x in args[0]:
        return x
    if len(args) == 2:
        return args[1]
    raise Err('first() of an empty collection', 'StopIteration')


def _last(frame, args, kwargs):
    # "Returns the last element of the collection. If the collection is empty, returns the default value
    # or raises StopIteration if default is not specified."
    if not 1 <= len(args) <= 2 or kwargs or not is_coll(args[0]):
        raise Err('last')
    items = list(args[0])
    if items:
        return items[-1]
    if len(args) == 2:
        return args[1]
    raise Err('last() of an empty collection', 'StopIteration')


def _single(frame, args, kwargs):
    # "Checks that collection has only one element and returns it. If the collection is empty or has more
    # than one element, raises StopIteration."
    if len(args) != 1 or kwargs or not is_coll(args[0]):
        raise Err('single')
    items = []
    for x in args[0]:
        items.append(x)
        if len(items) > 1:
            break
    if len(items) != 1:
        raise Err('single() of a collection of another size', 'StopIteration')
    return items[0]


def _sum(frame, args, kwargs):
    # "Returns the sum of values in a collection starting from initial if specified."
    if not 1 <= len(args) <= 2 or kwargs or not is_coll(args[0]):
        raise Err('sum')
    it = iter(args[0])
    if len(args) == 2:
        acc = args[1]
    else:
        for acc in it:
            break
        else:
            raise Err('sum of an empty collection without initial value')
    for x in it:
        acc = op_add(acc, x)
    return acc


def _dict(frame, args, kwargs):
    # dict(items): "Returns dictionary with keys and values built on items pairs."
    if len(args) != 1 or kwargs:
        raise OutOfDomain('dict(key => value, ...) is not part of the fragment')
    if not is_coll(args[0]):
        raise Err('dict')
    out = {}
    for item in args[0]:
        if not is_coll(item):
            raise Err('dict: item is not a pair')
        pair = list(item)
        if len(pair) > 2:
            raise OutOfDomain('dict: item longer than a pair')
        if len(pair) < 2:
            raise Err('dict: item shorter than a pair')
        put(out, key_ok(pair[0]), pair[1])
    return out


# name -> (form, lazy positions, implementation[, (documented parameter names, number of required ones)])
# With parameter names the arguments may be passed by keyword and arrive positionally (missing optional
# ones as null); without, keyword arguments are handed to the implementation (let) .
LIB = {
    'let': ('f', (), _let),
    'with': ('f', (), _with),
    'unpack': ('m', (), _unpack),
    'def': ('f', (1,), _def),
    'lambda': ('f', (0,), _lambda),
    'select': ('m', (1,), _select, (('collection', 'selector'), 2)),
    'where': ('m', (1,), _where, (('collection', 'predicate'), 2)),
    'toDict': ('m', (1, 2), _to_dict, (('collection', 'keySelector', 'valueSelector'), 2)),
    'distinct': ('fm', (1,), _distinct, (('collection', 'keySelector'), 1)),     # an extension method
    'len': ('fm', (), _len),
    'toList': ('m', (), _to_list),
    'first': ('m', (), _first),
    'last': ('m', (), _last),
    'single': ('m', (), _single),
    'sum': ('m', (), _sum),
    'dict': ('f', (), _dict),
}


# further node kinds added by a model that builds on this one (models/evalorder.py):
# kind -> evaluate(e, env) and kind -> text(e)
EXT = {}
TEXT_EXT = {}


def attribute(v, name):
    """`.name`: the value under a dictionary key (a missing key is an error);
    on a collection "retrieves the value of an attribute for each element"
    (each element goes through `.` again, hence recursively)."""
    if isinstance(v, dict):
        return lookup(v, name)
    if is_coll(v):
        return Lazy(attribute(x, name) for x in v)
    raise Err('no attribute on %s' % kind(v))


def ev(e, env):
    k = e[0]
    if k == 'lit':
        return e[1]
    if k == 'var':
        return env.get(e[1])
    if k == 'list':
        return [ev(x, env) for x in e[1]]
    if k == 'map':
        out = {}
        for kx, vx in e[1]:             # a mapping evaluates its key, then its value
            kv = key_ok(ev(kx, env))
            put(out, kv, ev(vx, env))
        return out
    if k == 'index':
        v = ev(e[1], env)
        i = ev(e[2], env)
        if isinstance(v, dict):
            return lookup(v, i)
        if isinstance(v, list):
            if isinstance(i, bool):
                raise OutOfDomain('boolean list index')
            if not isinstance(i, int):
                raise Err('index is not an integer')
            if not -len(v) <= i < len(v):
                raise Err('index out of range')
            return v[i]
        raise Err('indexer on %s' % kind(v))      # strings, iterators, scalars: no #indexer
    if k == 'attr':
        return attribute(ev(e[1], env), e[2])
    if k == 'bin':
        a = ev(e[2], env)
        b = ev(e[3], env)
        return OPS[e[1]](a, b)
    if k == 'arrow':
        c = ev(e[1], env)
        if not isinstance(c, Frame):
            raise Err('left side of -> is not a context')
        return ev(e[2], c)              # evaluated in that very frame, not in a child
    if k == 'dcall':
        f = ev(e[1], env)
        args = [ev(x, env) for x in e[2]]
        kwargs = dict((n, ev(x, env)) for n, x in (e[3] if len(e) > 3 else []))
        if not isinstance(f, Closure):
            raise Err('not callable')
        return f(*args, **kwargs)
    if k == 'call':
        name, argx, kwx = e[1], e[2], (e[3] if len(e) > 3 else [])
        user = env.func(name)
        if user is not None:            # def(): "new context object with function name defined"
            args = [ev(x, env) for x in argx]
            kwargs = dict((n, ev(x, env)) for n, x in kwx)
            return user(*args, **kwargs)
        if name not in LIB or 'f' not in LIB[name][0]:
            raise Err('unknown function ' + name)
        return _invoke(name, None, argx, kwx, env, 0)
    if k == 'meth':
        recv = ev(e[1], env)
        name = e[2]
        if name not in LIB or 'm' not in LIB[name][0]:
            raise Err('unknown method ' + name)
        return _invoke(name, recv, e[3], e[4] if len(e) > 4 else [], env, 1)
    if k in EXT:
        return EXT[k](e, env)
    raise AssertionError(k)


def _invoke(name, recv, argx, kwx, env, shift):
    """A call evaluates its eager arguments in the caller's frame, left to
    right, and runs in a child frame; a lazy argument becomes a closure over
    that child frame."""
    spec = LIB[name]
    lazy, impl = spec[1], spec[2]
    frame = Frame(env)

    def value(i, x):
        return Closure(x, frame) if (lazy == '*' or i in lazy) else ev(x, env)
    args = [recv] if shift else []
    for i, x in enumerate(argx):
        args.append(value(i + shift, x))
    if len(spec) < 4:
        return impl(frame, args, dict((n, ev(x, env)) for n, x in kwx))
    names, required = spec[3]
    if len(args) > len(names):
        raise Err('too many arguments')
    slots = args + [MISSING] * (len(names) - len(args))
    for n, x in kwx:                    # positional arguments first, then keywords as written
        if n not in names or slots[names.index(n)] is not MISSING:
            raise Err('no parameter %s to pass by keyword' % n)
        slots[names.index(n)] = value(names.index(n), x)
    if MISSING in slots[:required]:
        raise Err('required argument missing')
    return impl(frame, [None if a is MISSING else a for a in slots], {})


MISSING = object()


def finalize(v):
    """The result handed to the host is plain data: every iterable becomes a list."""
    if isinstance(v, (Frame, Closure)):
        raise OutOfDomain('context / delegate in the result')
    if is_coll(v):
        return [finalize(x) for x in v]
    if isinstance(v, dict):
        return dict((k, finalize(x)) for k, x in v.items())
    return v


def run(ast, data=None, bind_data=True, external=None, classes=False):
    """Evaluate ast with `$` bound to the document `data`.  `external`: variables a host supplies for
    names bound in no scope (language reference, "Variable access": the host may override
    #get_context_data and "look up the value in an external data source").  `classes`: a predicted
    error is reported as ('e', documented exception class name or None) instead of ('e',)."""
    NOTES.clear()
    top = Frame()
    if external:
        top.parent = Frame()
        top.parent.vars.update(external)
    if bind_data:
        top.vars['1'] = data
    try:
        return ('v', finalize(ev(ast, top)))
    except OutOfDomain:
        return None
    except Err as e:
        return ('e', e.cls) if classes else ('e',)


def same(x, y):
    """Exact comparison of an observed (finalised) value with the expected one."""
    if kind(x) != kind(y):
        return False
    if isinstance(x, list):
        return len(x) == len(y) and all(same(p, q) for p, q in zip(x, y))
    if isinstance(x, dict):
        if len(x) != len(y):
            return False
        for k, p in x.items():
            hit = [q for kk, q in y.items() if kind(kk) == kind(k) and kk == k]
            if not hit or not same(p, hit[0]):
                return False
        return True
    return x == y


# --- printer -------------------------------------------------------------------------
ATOMS = ('lit', 'var', 'list', 'map', 'call')
POSTFIX = ('index', 'attr', 'meth')


def lit_text(v):
    if v is None:
        return 'null'
    if v is True:
        return 'true'
    if v is False:
        return 'false'
    if isinstance(v, int):
        if v < 0:
            raise ValueError('negative literals are spelled with the unary operator')
        return str(v)
    if isinstance(v, str):
        if not all(32 <= ord(c) < 127 and c not in "'\\" for c in v):
            raise ValueError('string outside the printable alphabet')
        return "'" + v + "'"
    raise ValueError(v)


def text(e):
    """AST -> YAQL text.  Everything that is not an atom is parenthesised; a
    delegate call is parenthesised as a whole and so is its callee, because the
    call suffix applies to the whole expression to its left."""
    k = e[0]
    if k == 'lit':
        return lit_text(e[1])
    if k == 'var':
        return '$' + e[1]
    if k == 'list':
        return '[' + ', '.join(text(x) for x in e[1]) + ']'
    if k == 'map':
        return '{' + ', '.join('%s => %s' % (_key(kx), text(vx)) for kx, vx in e[1]) + '}'
    if k == 'index':
        return '%s[%s]' % (_recv(e[1]), text(e[2]))
    if k == 'attr':
        return '%s.%s' % (_recv(e[1]), e[2])
    if k == 'bin':
        return '(%s %s %s)' % (text(e[2]), e[1], text(e[3]))
    if k == 'arrow':
        return '(%s -> %s)' % (text(e[1]), text(e[2]))
    if k == 'dcall':
        return '((%s)(%s))' % (text(e[1]), ', '.join([text(x) for x in e[2]] + _kwargs(e[3] if len(e) > 3 else [])))
    if k == 'call':
        return '%s(%s)' % (e[1], ', '.join(_args(e[1], e[2], 0) + _kwargs(e[3] if len(e) > 3 else [])))
    if k == 'meth':
        return '%s.%s(%s)' % (_recv(e[1]), e[2], ', '.join(_args(e[2], e[3], 1) + _kwargs(e[4] if len(e) > 4 else [])))
    if k in TEXT_EXT:
        return TEXT_EXT[k](e)
    raise AssertionError(k)


RESERVED = ('true', 'false', 'null', 'and', 'or', 'not', 'in', 'mod')


def is_keyword(s):
    """language reference, "Keywords": alphanumeric characters and underscore, not starting with a digit or
    two underscores; the predefined keywords and keyword operators mean something else."""
    return bool(re.match(r'^(?!__)[^\W\d]\w*$', s)) and s not in RESERVED


def _kwargs(kw):
    for n, _ in kw:
        if not is_keyword(n):
            raise ValueError('not a keyword: %r' % (n,))
    return ['%s => %s' % (n, text(x)) for n, x in kw]


def _key(kx):
    # {a => 1}: a keyword is the string of its spelling
    if kx[0] == 'lit' and isinstance(kx[1], str) and kx[1].isascii() and is_keyword(kx[1]):
        return kx[1]
    return text(kx)


def _recv(e):
    t = text(e)
    if e[0] in ATOMS or e[0] in POSTFIX:
        return t
    return t if t.startswith('(') and e[0] in ('bin', 'arrow', 'dcall') else '(' + t + ')'


def _args(name, argx, shift):
    out = []
    for i, x in enumerate(argx):
        # names given to unpack / def are keywords (strings spelled bare)
        if x[0] == 'lit' and isinstance(x[1], str) and is_keyword(x[1]) and \
                ((name == 'unpack') or (name == 'def' and i == 0)):
            out.append(x[1])
        else:
            out.append(text(x))
    return out
