SOURCE_COMMITS = []
NOTES = ('All checks execute the implementation in /repo directly (no separate model to keep in sync); reference models under '
         'models/ are oracles. Deciding step everywhere: exhaustive enumeration of a bounded space (stated in each evidence file). '
         'VERIF_SEED only rotates exploration order and samples. known_findings.json lists repaired (fixed) and open findings.')
ENGINES = [
    {'name': 'E1-sched', 'path': 'vf/sched.py', 'serves_properties': ['C01', 'C18'],
     'kind_free_text': 'stateless schedule explorer: real threads under a baton scheduler, preemption-bounded DFS with prefix replay and divergence check'},
    {'name': 'E2-bfs', 'path': 'vf/bfs.py', 'serves_properties': ['C01', 'C09', 'C17'],
     'kind_free_text': 'explicit-state breadth-first search over operation histories on the real objects, full-snapshot canonical states'},
    {'name': 'E3-smallscope', 'path': 'vf/core.py', 'serves_properties': ['C02', 'C03', 'C04', 'C05', 'C06', 'C07', 'C08', 'C10', 'C11', 'C12', 'C13', 'C14', 'C15', 'C16', 'C19', 'C20'],
     'kind_free_text': 'bounded-exhaustive enumeration of programs/inputs/configurations, sharded over 16 forked workers, each case executed on the implementation and judged by a reference model or a differential invariant'},
]
NOT_APPLICABLE = {}
CHECKS = {
 'C15': dict(engine='E3-smallscope', design_ref='DESIGN.md section 4 C15',
   technique='bounded-exhaustive enumeration (all pairs/triples of a scalar corpus x all operators) against a reference model + algebraic laws on the observed table',
   text='Every (operator, a, b) over a boundary-rich scalar corpus (48 values quick, ~110 thorough), operands bound as variables and as literals, is executed on the real engine and compared with an independent model; trichotomy, antisymmetry, <= law, floor-division identity on all pairs and transitivity on all triples are evaluated on the observed results. Complete within the corpus; says nothing about values outside it.',
   note='Trusted: CPython arithmetic as the meaning of exact integer / IEEE float results; models/scalar.py; corpus excludes NaN/inf.'),
 'C01': dict(engine='E1-sched', design_ref='DESIGN.md section 4 C01',
   technique='stateless schedule exploration of real threads under a baton scheduler (all interleavings / preemption-bounded DFS with prefix replay) + explicit-state BFS over parse histories with full engine snapshots',
   text='Histories: BFS over all sequences of parses (valid, lexically invalid, grammatically invalid texts) on one engine to the fixpoint of the complete lexer+parser snapshot, for the default, delegate and legacy engines; every transition must equal the fresh-engine outcome of its text. Schedules: 2-3 real threads parsing on one engine with scheduling points before every Lexer.input/token/clone: all interleavings for short texts, all schedules within a stated preemption bound otherwise, plus every line-granularity single-preemption schedule for selected pairs and the yaql.eval module path. Exhaustive within those bounds.',
   note='Trusted: the baton scheduler serialises threads (switches inside one source line / C-level races are not modelled); hooks only yield; violations are replayed twice on a fresh engine before being reported.'),
 'C17': dict(engine='E2-bfs', design_ref='DESIGN.md section 4 C17',
   technique='explicit-state breadth-first search over operation histories on real context objects (histories replayed from scratch, states deduplicated by complete snapshots), every transition judged against a flattened-layers reference model',
   text='All histories of {new root, child, MultiContext, LinkedContext, set, delete, register (+-exclusive), delete_function} within three node/operation/depth profiles are executed on fresh real contexts; after every transition every observable (read of 4 spellings of names, membership, keys, get_functions, collect_functions) of every context in the forest is compared with models/layers.py. Complete below the stated bounds (<=5 contexts, depth 6 quick / 7 thorough).',
   note='Trusted: models/layers.py (written from the docs; delete_function clearing exclusivity is taken from the code, DESIGN A.4); snapshots cover every attribute of the real objects.'),
}
