#!/bin/bash
# Offline setup: nothing to fetch or build; byte-compile the framework and run its selftests.
set -e
cd "$(dirname "${BASH_SOURCE[0]}")"
export PYTHONDONTWRITEBYTECODE=1 PYTHONHASHSEED=0
/venv/bin/python -c "import sys; sys.path.insert(0,'.'); import vf.loader, vf.core; print('yaql from', vf.loader.REPO)"
if [ -f selftest/run.py ]; then /venv/bin/python selftest/run.py; fi
echo setup ok
