"""C13 - collection and query functions agree with their reference model.

E3 small-scope enumeration.  Every call form of every function of
queries.py / collections.py (+ unpack / with of system.py) is executed on every
sequence over {1, 2, 3, null, 'a'} (quick: without 3) up to the bound, presented
as tuple, one-shot iterator and set (dict / pair / nested families where the function is typed
so), with every lambda of the generated family and every integer argument in
[-2, len + 2]; the finalised result is compared with models/colls.py.  Then
pipelines: all pairs of operator instances over a reduced argument alphabet,
and all chains of 3 (thorough: 4) instances of the streaming core, each on a
tuple and on a one-shot iterator.  Algebraic laws are evaluated on the observed
results (take+skip, reverse.reverse, distinct idempotent, stable sorted
permutation, order-preserving partition, set algebra, dict merge).
"""
import itertools
import re

import vf.loader  # noqa: F401
from vf import yq
from vf.core import Result
from models import colls as M

from yaql.language import utils as yutils

ID = 'C13'
TITLE = 'collection and query functions vs reference model'
RULE = ('all (call form, argument texts, presentation, input collection) within the bound; a case is distinct by '
        '(expression text, presentation, input) and non-trivial when the model defines a value or a documented error '
        'for it (inside the documented domain); pipelines are all ordered tuples of operator instances; laws are '
        'evaluated on observed results for every input')
ASSUMPTIONS = [
    'the C15 scalar model (models/scalar.py) decides operators applied inside lambdas',
    'an error raised inside a lazily evaluated, non-final pipeline stage is out of domain (when it surfaces is unspecified)',
    'a set receiver is modelled on the iteration order of that very frozenset object; dictionary order is not compared',
    'composite set elements / dict keys are left to C10 (finalisation), bool-vs-number equality to C15',
    'a collection-valued result (a lazily produced one after toList) is an immutable yaql value: hashable, and equal to an '
    'equally built literal; the wrapper forms read only numbers / booleans, so C10 finalisation is not involved',
]
BOUNDS = {
    'quick': 'single operators: sequences over {1,2,null,a} of length <= 3 (85; call forms with > 8 argument combinations: length <= 2) '
             'x {tuple, iterator, set}, ints [-2, len+2], the 5 unary lambdas, pair family length <= 3, nested family <= 2, dicts <= 2 keys, '
             'set pairs <= 3 elements; 2-pipelines: every ordered pair of call forms (one instance each) on sequences over '
             '{1,2,null} of length <= 2 x {tuple, iterator}; 3-chains over a 12-instance streaming core (+5 terminal searches) on '
             'sequences over {2,null} of length <= 2; dictionaries as elements of hash-based functions (equal values, different '
             'key order; data and literals) length <= 2; nested use of every collection-valued result (element of distinct, two '
             'results in one set, dict key, = / indexOf / set with the equal literal): inputs of length <= 2, 3 argument '
             'combinations per call form',
    'thorough': 'single operators: sequences over {1,2,3,null,a} of length <= 4 (781; forms with > 24 argument combinations: <= 3), '
                'pair family length <= 4, nested family <= 3, dicts <= 3 keys, set pairs <= 5 elements; 2-pipelines: every ordered pair of '
                'instances over the reduced argument alphabet on sequences over {1,2,null,a} of length <= 2, and one instance per '
                'form on length 3; 3-chains over the 16-instance core on {1,2,null} length <= 3; 4-chains over the 12-instance core '
                'on {1,null} length <= 2; dictionaries as elements of hash-based functions length <= 3; nested use of every '
                'collection-valued result (element, set element, dict key, = literal): inputs of length <= 3, all arguments',
}
JOB_LIMIT = {'quick': 900, 'thorough': 5400}

TIER = {
    'quick': {'alphabet': [1, 2, None, 'a'], 'maxlen': 3, 'heavy': 8, 'family_len': 2, 'dict_keys': 2, 'set_size': 3},
    'thorough': {'alphabet': [1, 2, 3, None, 'a'], 'maxlen': 4, 'heavy': 24, 'family_len': 3, 'dict_keys': 3, 'set_size': 5},
}
SET_ALPHABET = [1, 2, 3, None, 'a']
PAIR_ALPHABET = [[1, 1], [1, 2], [2, 1], [None, 2], ['a', 1]]
NESTED_ALPHABET = [1, [2, [3, None]], [], 'ab', [[1]]]
DICT_KEYS = ['a', 'b', 1, None]
DICT_VALUES = [1, None, 'a']
# dictionaries as ELEMENTS of hash-based functions: D1 = D2 and N1 = N2 as values, built in a different key order
D1, D2, D3 = {'a': 1, 'b': 2}, {'b': 2, 'a': 1}, {'a': 1, 'b': 3}
N1, N2 = {'k': {'x': 1, 'y': 2}, 'n': None}, {'n': None, 'k': {'y': 2, 'x': 1}}
DICT_ELEMENTS = [D1, D2, D3, N1, N2, 1]
DICT_EXPRS = {      # the same values spelled as literals / persistent updates / merges
    '{a => 1, b => 2}': D1, '{b => 2, a => 1}': D2, '{a => 1}.set(b, 2)': D1, '{b => 2}.set(a, 1)': D2,
    '({b => 2} + {a => 1})': D2, '{a => 1, b => 3}': D3, '{k => {x => 1, y => 2}, n => null}': N1,
    '{n => null, k => {y => 2, x => 1}}': N2,
}
MERGE_VALUES = [1, [1, 2], [2, 3], {'x': 1}, {'y': 2}, {'x': [1]}, {'x': {'z': 1}}]


# ---------------------------------------------------------------------------
# call forms
# ---------------------------------------------------------------------------
class Form(object):
    def __init__(self, name, tmpl, model, recv, out, fn, unordered, pres_arg, pipe, params):
        self.name, self.tmpl, self.model, self.recv, self.out = name, tmpl, model, recv, out
        self.fn, self.unordered, self.pres_arg, self.pipe, self.params = fn or name, unordered, pres_arg, pipe, params

    def text(self, args, c='$c'):
        table = dict(args, c=c, d='$d')
        return re.sub(r'\{(\w+)\}', lambda m: table[m.group(1)], self.tmpl)

    def expected(self, c, args, pres, d=None):
        """('v', value) | ('e', class) | None = out of domain (+ reason)."""
        if self.recv == 'sequence' and pres != 'tuple':
            return ('e', 'nomatch'), ''       # '*' and '[i]' are sequence-only (Appendix C)
        if self.recv == 'noset' and pres == 'set':
            return None, 'set receiver'
        vals = [resolve(kind, args[p]) for p, kind in self.params]
        kw = {'pres': pres} if self.pres_arg else {}
        recv = [] if self.recv == 'none' else [c] if d is None else [c, d]
        try:
            return ('v', self.model(*(recv + vals), **kw)), ''
        except M.Err as e:
            return ('e', e.cls), ''
        except M.OutOfDomain as e:
            return None, str(e)


FORMS = []
BY_NAME = {}
KIND = {'tuple': 'list', 'iter': 'iterator', 'set': 'set', 'dict': 'dict'}     # presentation -> kind of value


def F(name, tmpl, model, recv='iterable', out=None, fn=None, unordered=False, pres_arg=False, pipe=True, **params):
    f = Form(name, tmpl, model, recv, out, fn, unordered, pres_arg, pipe and recv in ('iterable', 'noset'),
             list(params.items()))
    assert name not in BY_NAME, name
    FORMS.append(f)
    BY_NAME[name] = f


KIND_TABLE = {'lam': M.UNARY, 'pred': M.UNARY, 'key': M.UNARY, 'agg': M.UNARY, 'gp': M.UNARY, 'gf': M.UNARY, 'gs': M.UNARY,
              'lam2': M.BINARY, 'pred2': M.BINARY, 'sel2': M.BINARY,
              'dx': DICT_EXPRS, 'val': M.VALUES, 'val2': M.VALUES, 'kv': M.VALUES, 'oth': M.OTHERS, 'tree': M.TREES}


def resolve(kind, text):
    if kind in ('int', 'cnt', 'lvl'):
        return int(text)
    if kind == 'tree':
        table = M.TREES[text]
        return lambda x: table.get(x, [])
    return KIND_TABLE[kind][text]


FULL = {
    'lam': ['$', '$ > 1', '$ mod 2', '$ = null', '[$, $]'],
    'pred': ['$', '$ > 1', '$ mod 2', '$ = null', '[$, $]'],
    'key': ['$[0]', '$[1]'],
    'agg': ['$.len()', '$.sum()'],
    'lam2': ['$1 + $2'],
    'pred2': ['$1 = $2', '$1 > $2', 'true'],
    'sel2': ['[$1, $2]', '$1 + $2'],
    'val': ['1', '2', '3', 'null', "'a'"],
    'val2': ['null', '1'],
    'kv': ["'a'", "'b'", '1', 'null'],
    'oth': ['[]', '[7]', '[7, null]', '[2, 1, 2]', "['a', 3].select($)"],
    'cnt': ['0', '1', '3'],
    'lvl': ['0', '1', '2'],
    'gp': ['$ < 3', 'false'],
    'gf': ['$ + 1', '($ + 1) mod 3'],
    'gs': ['[$, $]', '$ * 10'],
    'tree': sorted(M.TREES),
    'dx': list(DICT_EXPRS),
}
REDUCED = {       # pipelines; the quick tier uses the first entry only (one instance per call form)
    'int': ['1', '0', '2'], 'lam': ['[$, $]', '$ = null', '$ > 1'], 'pred': ['$ > 1', '$ = null'], 'lam2': ['$1 + $2'],
    'val': ['null', '2'],
    'val2': ['null'], 'oth': ['[7, null]', "['a', 3].select($)"], 'cnt': ['3'],
    'pred2': ['$1 = $2'], 'sel2': ['[$1, $2]'], 'agg': ['$.len()'], 'key': ['$[1]'],
}


def domain(kind, n, reduced=False):
    if reduced:
        return REDUCED[kind]
    if kind == 'int':
        return [str(i) for i in range(-2, n + 3)]
    return FULL[kind]


# -- queries.py ---------------------------------------------------------------
F('where', '{c}.where({p})', M.where, out='seq', p='pred')
F('filter', '{c}.filter({p})', M.where, out='seq', fn='where', pipe=False, p='pred')
F('select', '{c}.select({p})', M.select, out='seq', p='lam')
F('map', '{c}.map({p})', M.select, out='seq', fn='select', pipe=False, p='lam')
F('attribution', '{c}.select(dict(a => $, b => 1)).a', lambda c: M.attribution([{'a': x, 'b': 1} for x in c], 'a'), out='seq',
  fn='collection_attribution')
F('skip', '{c}.skip({i})', M.skip, out='seq', i='int')
F('take', '{c}.take({i})', M.take, out='seq', fn='limit', i='int')
F('limit', '{c}.limit({i})', M.take, out='seq', pipe=False, i='int')
F('append', '{c}.append({v}, {w})', M.append, out='seq', v='val', w='val2')
F('append0', '{c}.append()', M.append, out='seq', fn='append', pipe=False)
F('distinct', '{c}.distinct()', M.distinct, out='seq')
F('distinct-key', '{c}.distinct({p})', M.distinct, out='seq', fn='distinct', p='lam')
F('enumerate', '{c}.enumerate()', M.enumerate_, out='seq', fn='enumerate_')
F('enumerate-start', '{c}.enumerate({i})', M.enumerate_, out='seq', fn='enumerate_', i='int')
F('any', '{c}.any()', M.any_, fn='any_')
F('any-p', '{c}.any({p})', M.any_, fn='any_', p='pred')
F('all', '{c}.all()', M.all_, fn='all_')
F('all-p', '{c}.all({p})', M.all_, fn='all_', p='pred')
F('concat', '{c}.concat({o})', M.concat, out='seq', o='oth')
F('concat2', '{c}.concat({o}, [9])', lambda c, o: M.concat(c, o, [9]), out='seq', fn='concat', pipe=False, o='oth')
F('concat0', '{c}.concat()', M.concat, out='seq', fn='concat', pipe=False)
F('len', '{c}.len()', M.count, fn='len')
F('count', '{c}.count()', M.count)
F('memorize', '{c}.memorize()', lambda c, pres: frozenset(c) if pres == 'set' else M.memorize(c), out='seq', pres_arg=True)
F('memorize-twice', 'let({c}.memorize()) -> [$.toList(), $.toList()]', lambda c: [list(c), list(c)], fn='memorize', pipe=False)
# two cursors over one memorized iterator alive at the same time, the later one overtaking the earlier one
F('memorize-zip-skip', 'let({c}.memorize()) -> $.zip($.skip(1)).toList()',
  lambda c: M.zip_(list(c), M.skip(list(c), 1)), fn='memorize', pipe=False, recv='noset')
F('memorize-join-self', 'let({c}.memorize()) -> $.join($, true, [$1, $2]).toList()',
  lambda c: [[x, y] for x in list(c) for y in list(c)], fn='memorize', pipe=False, recv='noset')
F('memorize-len-then-list', 'let({c}.memorize()) -> [$.len(), $.toList(), $.len()]',
  lambda c: [len(list(c)), list(c), len(list(c))], fn='memorize', pipe=False, recv='noset')
F('sum', '{c}.sum()', M.sum_, fn='sum_')
F('sum-initial', '{c}.sum({v})', M.sum_, fn='sum_', v='val')
F('min', '{c}.min()', M.min_, fn='min_')
F('min-initial', '{c}.min({v})', M.min_, fn='min_', v='val')
F('max', '{c}.max()', M.max_, fn='max_')
F('max-initial', '{c}.max({v})', M.max_, fn='max_', v='val')
F('first', '{c}.first()', M.first)
F('first-default', '{c}.first({v})', M.first, fn='first', v='val')
F('single', '{c}.single()', M.single)
F('last', '{c}.last()', M.last)
F('last-default', '{c}.last({v})', M.last, fn='last', v='val')
F('selectMany', '{c}.selectMany({p})', M.select_many, out='seq', fn='select_many', p='lam')
F('range1', 'range({i})', M.range_, recv='none', fn='range_', i='int')
F('range2', 'range({i}, {j})', M.range_, recv='none', fn='range__', i='int', j='int')
F('range3', 'range({i}, {j}, {k})', M.range_, recv='none', fn='range__', i='int', j='int', k='int')
F('sequence', 'sequence({i}, {j}).take({n})', lambda i, j, n: M.sequence(n, i, j), recv='none', i='int', j='int', n='cnt')
F('sequence0', 'sequence().take({n})', lambda n: M.sequence(n), recv='none', fn='sequence', n='cnt')
F('orderBy', '{c}.orderBy({p})', lambda c, p: M.order_by(c, [(p, True)]), out='seq', fn='order_by', p='lam')
F('orderByDescending', '{c}.orderByDescending({p})', lambda c, p: M.order_by(c, [(p, False)]), out='seq',
  fn='order_by_descending', p='lam')
for _n, _a1, _a2 in (('thenBy', True, True), ('thenByDescending', True, False),
                     ('desc-thenBy', False, True), ('desc-thenByDescending', False, False)):
    _t = '{c}.%s({p}).%s({p2})' % ('orderBy' if _a1 else 'orderByDescending', 'thenBy' if _a2 else 'thenByDescending')
    _m = (lambda a1, a2: lambda c, p, p2: M.order_by(c, [(p, a1), (p2, a2)]))(_a1, _a2)
    F(_n, _t, _m, fn='then_by' if _a2 else 'then_by_descending', pipe=False, p='lam', p2='lam')
    F(_n + '-pairs', _t, _m, recv='pairs', fn='then_by' if _a2 else 'then_by_descending', p='key', p2='key')
F('orderBy-pairs', '{c}.orderBy({p})', lambda c, p: M.order_by(c, [(p, True)]), recv='pairs', fn='order_by', p='key')
F('orderByDescending-pairs', '{c}.orderByDescending({p})', lambda c, p: M.order_by(c, [(p, False)]), recv='pairs',
  fn='order_by_descending', p='key')
F('groupBy', '{c}.groupBy({p})', M.group_by, out='seq', fn='group_by', p='lam')
F('groupBy-value', '{c}.groupBy({p}, {p2})', M.group_by, fn='group_by', pipe=False, p='lam', p2='lam')
F('groupBy-agg', '{c}.groupBy({p}, $, {a})', lambda c, p, a: M.group_by(c, p, None, a), fn='group_by', pipe=False,
  p='lam', a='agg')
F('groupBy-pairs', '{c}.groupBy({p}, {p2})', M.group_by, recv='pairs', fn='group_by', p='key', p2='key')
F('groupBy-agg-pairs', '{c}.groupBy({p}, {p2}, {a})', M.group_by, recv='pairs', fn='group_by', p='key', p2='key', a='agg')
F('join', '{c}.join({o}, {pr}, {se})', M.join, out='seq', o='oth', pr='pred2', se='sel2')
F('zip', '{c}.zip({o})', M.zip_, out='seq', fn='zip_', o='oth')
F('zip2', '{c}.zip({o}, [9, 9])', lambda c, o: M.zip_(c, o, [9, 9]), fn='zip_', pipe=False, o='oth')
F('zip0', '{c}.zip()', M.zip_, fn='zip_', pipe=False)
F('zipLongest', '{c}.zipLongest({o})', M.zip_longest, out='seq', fn='zip_longest', o='oth')
F('zipLongest-default', '{c}.zipLongest({o}, default => {v})', lambda c, o, v: M.zip_longest(c, o, default=v),
  fn='zip_longest', pipe=False, o='oth', v='val')
F('repeat', '{v}.repeat({i})', M.repeat, recv='none', v='val', i='int')
F('repeat-endless', '{v}.repeat().take({n})', lambda v, n: M.repeat(v, n), recv='none', fn='repeat', v='val', n='cnt')
F('cycle', '{c}.cycle().take({i})', M.cycle, i='int')
F('takeWhile', '{c}.takeWhile({p})', M.take_while, out='seq', fn='take_while', p='pred')
F('skipWhile', '{c}.skipWhile({p})', M.skip_while, out='seq', fn='skip_while', p='pred')
F('indexOf', '{c}.indexOf({v})', M.index_of, fn='index_of', v='val')
F('indexOf-pair', '{c}.indexOf([0, {v}])', lambda c, v: M.index_of(c, [0, v]), fn='index_of', v='val')
F('lastIndexOf', '{c}.lastIndexOf({v})', M.last_index_of, fn='last_index_of', v='val')
F('indexWhere', '{c}.indexWhere({p})', M.index_where, fn='index_where', p='pred')
F('lastIndexWhere', '{c}.lastIndexWhere({p})', M.last_index_where, fn='last_index_where', p='pred')
F('slice', '{c}.slice({i})', M.slice_, out='seq', fn='slice_', i='int')
F('splitWhere', '{c}.splitWhere({p})', M.split_where, out='seq', fn='split_where', p='pred')
F('sliceWhere', '{c}.sliceWhere({p})', M.slice_where, out='seq', fn='slice_where', p='pred')
F('splitAt', '{c}.splitAt({i})', M.split_at, out='seq', fn='split_at', i='int')
F('aggregate', '{c}.aggregate({q})', M.aggregate, q='lam2')
F('aggregate-seed', '{c}.aggregate({q}, {v})', M.aggregate, fn='aggregate', q='lam2', v='val')
F('reduce', '{c}.reduce({q}, {v})', M.aggregate, fn='aggregate', pipe=False, q='lam2', v='val')
F('accumulate', '{c}.accumulate({q})', M.accumulate, out='seq', q='lam2')
F('accumulate-seed', '{c}.accumulate({q}, {v})', M.accumulate, out='seq', fn='accumulate', q='lam2', v='val')
F('reverse', '{c}.reverse()', M.reverse, out='seq')
F('isIterable', 'isIterable({c})', lambda c, pres: M.is_iterable_kind(KIND[pres]), fn='is_iterable', pres_arg=True, pipe=False)
F('isIterable-scalar', 'isIterable({v})', lambda v: M.is_iterable_kind('scalar'), recv='none', fn='is_iterable', v='val')
F('isIterable-dict', 'isIterable({c})', lambda d: M.is_iterable_kind('dict'), recv='dict', fn='is_iterable')
F('generate', 'generate({i}, {p}, {f})', M.generate, recv='none', i='int', p='gp', f='gf')
F('generate-selector', 'generate({i}, {p}, {f}, {s})', M.generate, recv='none', fn='generate', i='int', p='gp', f='gf', s='gs')
F('generate-decycle', 'generate({i}, {p}, {f}, decycle => true)', lambda i, p, f: M.generate(i, p, f, None, True),
  recv='none', fn='generate', i='int', p='gp', f='gf')
F('generateMany', 'generateMany({i}, {t})', M.generate_many, recv='none', fn='generate_many', i='int', t='tree')
F('generateMany-selector', 'generateMany({i}, {t}, {s}, false, true)',
  lambda i, t, s: M.generate_many(i, t, s, False, True), recv='none', fn='generate_many', i='int', t='tree', s='gs')
F('generateMany-decycle', 'generateMany({i}, {t}, decycle => true)',
  lambda i, t: M.generate_many(i, t, None, True), recv='none', fn='generate_many', i='int', t='tree')
F('generateMany-decycle-depthFirst', 'generateMany({i}, {t}, decycle => true, depthFirst => true)',
  lambda i, t: M.generate_many(i, t, None, True, True), recv='none', fn='generate_many', i='int', t='tree')
F('defaultIfEmpty', '{c}.defaultIfEmpty({o})',
  lambda c, o, pres: frozenset(c) if pres == 'set' and c else M.default_if_empty(c, o), out='seq', fn='default_if_empty',
  pres_arg=True, o='oth')
F('mergeWith', '{c}.mergeWith({d}, maxLevels => {lv})', lambda a, b, lv: M.merge_with(a, b, None, None, lv), recv='merge2',
  fn='merge_with', lv='lvl')
F('mergeWith-lm', '{c}.mergeWith({d}, $1 + $2, maxLevels => {lv})',
  lambda a, b, lv: M.merge_with(a, b, M.BINARY['$1 + $2'], None, lv), recv='merge2', fn='merge_with', lv='lvl')
F('mergeWith-im', '{c}.mergeWith({d}, itemMerger => $1, maxLevels => {lv})',
  lambda a, b, lv: M.merge_with(a, b, None, M.BINARY['$1'], lv), recv='merge2', fn='merge_with', lv='lvl')
F('mergeWith-lm-im', '{c}.mergeWith({d}, $1 + $2, $1, {lv})',
  lambda a, b, lv: M.merge_with(a, b, M.BINARY['$1 + $2'], M.BINARY['$1'], lv), recv='merge2', fn='merge_with', lv='lvl')
F('mergeWith-default', '{c}.mergeWith({d})', M.merge_with, recv='merge2', fn='merge_with')

# -- collections.py -----------------------------------------------------------


def _list_with_collection(c, v, w, pres):
    return M.list_(('v', v), ('it', c) if pres == 'iter' else ('v', c if pres == 'tuple' else frozenset(c)), ('v', w))


F('list', 'list({v}, {c}, {w})', _list_with_collection, fn='list_', pres_arg=True, pipe=False, v='val', w='val2')
F('list-scalars', 'list({v}, {w})', lambda v, w: M.list_(('v', v), ('v', w)), recv='none', fn='list_', v='val', w='val')
F('list-literal', '[{v}, {w}]', M.build_list, recv='none', fn='build_list', v='val', w='val')
F('list-literal0', '[]', M.build_list, recv='none', fn='build_list')
F('toList', '{c}.toList()', M.to_list, out='seq', fn='to_list')
F('flatten', '{c}.flatten()', M.flatten, recv='nested')
F('indexer', '{c}[{i}]', lambda c, i: c[i] if 0 <= i < len(c) else M.ood('index outside [0, size)'), recv='sequence',
  fn='list_indexer', i='int')
F('dict', 'dict(a => {v}, b => {w})', lambda v, w: M.dict_(('a', v), ('b', w)), recv='none', fn='dict_', v='val', w='val')
F('dict-literal', '{a => {v}, 1 => {w}, null => 3}', lambda v, w: M.dict_(('a', v), (1, w), (None, 3)), recv='none',
  fn='dict_ (#map)', v='val', w='val')
F('dict-literal0', '{}', lambda: M.dict_(), recv='none', fn='dict_ (#map)')
F('dict-items', 'dict({c})', M.dict_from_items, recv='pairs', fn='dict__')
F('toDict', '{c}.toDict({p})', M.to_dict, fn='to_dict', p='lam')
F('toDict-value', '{c}.toDict({p}, {p2})', M.to_dict, fn='to_dict', pipe=False, p='lam', p2='lam')
F('dict-dot', '{c}.a', lambda d: M.dict_key(d, 'a'), recv='dict', fn='dict_keyword_access')
F('dict-index', '{c}[{k}]', M.dict_key, recv='dict', fn='dict_indexer', k='kv')
F('dict-index-default', '{c}[{k}, {v}]', M.dict_get, recv='dict', fn='dict_indexer_with_default', k='kv', v='val')
F('get', '{c}.get({k})', M.dict_get, recv='dict', fn='dict_get', k='kv')
F('get-default', '{c}.get({k}, {v})', M.dict_get, recv='dict', fn='dict_get', k='kv', v='val')
F('set', '{c}.set({k}, {v})', lambda d, k, v: M.dict_set(d, (k, v)), recv='dict', fn='dict_set', k='kv', v='val')
F('set-dict', '{c}.set({d})', lambda a, b: M.dict_set(a, *b.items()), recv='dict2', fn='dict_set_many')
F('set-inline', '{c}.set(a => {v}, b => {w})', lambda d, v, w: M.dict_set(d, ('a', v), ('b', w)), recv='dict',
  fn='dict_set_many_inline', v='val', w='val2')
F('keys', '{c}.keys()', M.dict_keys, recv='dict', fn='dict_keys')
F('values', '{c}.values()', M.dict_values, recv='dict', fn='dict_values', unordered=True)
F('values-len', '{c}.values().len()', lambda d: len(d), recv='dict', fn='dict_values|len')
F('items', '{c}.items().toList()', M.dict_items, recv='dict', fn='dict_items', unordered=True)
F('in', '{v} in {c}', lambda c, v: M.in_(v, c), fn='in_', v='val')
F('contains', '{c}.contains({v})', lambda c, v: M.in_(v, c), v='val')
F('containsKey', '{c}.containsKey({k})', M.contains_key, recv='dict', fn='contains_key', k='kv')
F('containsValue', '{c}.containsValue({v})', M.contains_value, recv='dict', fn='contains_value', v='val')
F('plus', '{c} + {o}', lambda c, o, pres: M.plus(frozenset(c) if pres == 'set' else c, o), out='seq', fn='combine_lists',
  pres_arg=True, pipe=False, o='oth')
F('plus-left', '{o} + {c}', lambda c, o, pres: M.plus(o, frozenset(c) if pres == 'set' else c), fn='combine_lists',
  pres_arg=True, pipe=False, o='oth')
F('times', '{c} * {i}', M.times, recv='sequence', fn='list_by_int', i='int')
F('times-left', '{i} * {c}', M.times, recv='sequence', fn='int_by_list', i='int')
F('plus-dict', '{c} + {d}', M.plus, recv='dict2', fn='combine_dicts')
F('isList', 'isList({c})', lambda c, pres: M.is_list(KIND[pres]), fn='is_list', pres_arg=True, pipe=False)
F('isDict', 'isDict({c})', lambda c, pres: M.is_dict(KIND[pres]), fn='is_dict', pres_arg=True, pipe=False)
F('isSet', 'isSet({c})', lambda c, pres: M.is_set(KIND[pres]), fn='is_set', pres_arg=True, pipe=False)
F('isDict-dict', 'isDict({c})', lambda d: M.is_dict('dict'), recv='dict', fn='is_dict')
F('isList-dict', '[isList({c}), isSet({c})]', lambda d: [M.is_list('dict'), M.is_set('dict')], recv='dict', fn='is_list')
F('len-dict', '{c}.len()', lambda d: len(d), recv='dict', fn='dict_len')
F('delete', '{c}.delete({i}, {j})', M.delete, out='seq', i='int', j='int')
F('delete1', '{c}.delete({i})', M.delete, out='seq', fn='delete', pipe=False, i='int')
F('replace', '{c}.replace({i}, {v}, {j})', M.replace, out='seq', i='int', v='val2', j='int')
F('replace1', '{c}.replace({i}, {v})', M.replace, out='seq', fn='replace', pipe=False, i='int', v='val')
F('replaceMany', '{c}.replaceMany({i}, {o}, {j})', M.replace_many, out='seq', fn='replace_many', i='int', o='oth', j='int')
F('delete-keys', '{c}.delete({k}, {k2})', lambda d, k, k2: M.delete_keys(d, [k, k2]), recv='dict', fn='delete_keys',
  k='kv', k2='kv')
F('deleteAll', '{c}.deleteAll([{k}, {k2}].select($))', lambda d, k, k2: M.delete_keys(d, [k, k2]), recv='dict',
  fn='delete_keys_seq', k='kv', k2='kv')
F('insert', '{c}.insert({i}, {v})', M.insert, recv='noset', out='seq', fn='insert', i='int', v='val2')
F('insertMany', '{c}.insertMany({i}, {o})', M.insert_many, out='seq', fn='insert_many', i='int', o='oth')


def _set_with_collection(c, v, w, pres):
    return M.set_(('v', v), ('it', c) if pres == 'iter' else ('v', c if pres == 'tuple' else frozenset(c)), ('v', w))


F('set-ctor', 'set({v}, {c}, {w})', _set_with_collection, fn='set_', pres_arg=True, pipe=False, v='val', w='val2')
F('set-scalars', 'set({v}, {w}, {v})', lambda v, w: M.set_(('v', v), ('v', w), ('v', v)), recv='none', fn='set_',
  v='val', w='val')
F('toSet', '{c}.toSet()', M.to_set, fn='to_set')
F('union', '{c}.union({d})', M.union, recv='set2')
F('intersect', '{c}.intersect({d})', M.intersect, recv='set2')
F('difference', '{c}.difference({d})', M.difference, recv='set2')
F('minus-set', '{c} - {d}', M.difference, recv='set2', fn='difference (#operator_-)')
F('plus-set', '{c} + {d}', M.plus, recv='set2', fn='combine_lists')
F('symmetricDifference', '{c}.symmetricDifference({d})', M.symmetric_difference, recv='set2', fn='symmetric_difference')
F('set-lt', '{c} < {d}', M.set_lt, recv='set2', fn='set_lt')
F('set-le', '{c} <= {d}', M.set_le, recv='set2', fn='set_lte')
F('set-gt', '{c} > {d}', lambda a, b: M.set_lt(b, a), recv='set2', fn='set_gt')
F('set-ge', '{c} >= {d}', lambda a, b: M.set_le(b, a), recv='set2', fn='set_gte')
F('add', '{c}.add({v}, {w})', M.set_add, recv='set', fn='set_add', v='val', w='val')
F('remove', '{c}.remove({v}, {w})', M.set_remove, recv='set', fn='set_remove', v='val', w='val')
F('isSet-set', '[isSet({c}), isList({c}), isDict({c})]', lambda s: [M.is_set('set'), M.is_list('set'), M.is_dict('set')], recv='set',
  fn='is_set')

# -- dictionaries as elements of the hash-based functions (equal values, different key insertion order) ----------
for _recv, _c in (('dictseq', '{c}'), ('none', '[{x}, {y}]')):
    _p = {} if _recv == 'dictseq' else {'x': 'dx', 'y': 'dx'}
    _w = (lambda f: f) if _recv == 'dictseq' else (lambda f: lambda x, y: f([x, y]))
    _s = '' if _recv == 'dictseq' else '-literal'
    F('distinct-dicts' + _s, _c + '.distinct()', _w(M.distinct), recv=_recv, fn='distinct', **_p)
    F('groupBy-dicts' + _s, _c + '.groupBy($)', _w(lambda c: M.group_by(c, M.UNARY['$'])), recv=_recv, fn='group_by', **_p)
    F('toSet-dicts' + _s, _c + '.toSet().len()', _w(lambda c: len(M.uniq(c))), recv=_recv, fn='to_set', **_p)
    F('toDict-dicts' + _s, _c + '.toDict($, 1).len()', _w(lambda c: len(M.uniq(c))), recv=_recv, fn='to_dict', **_p)
    F('indexOf-dicts' + _s, _c + '.indexOf({a => 1, b => 2})', _w(lambda c: M.index_of(c, D1)), recv=_recv, fn='index_of', **_p)
F('set-contains-dicts', '{c}.toSet().contains({x})', lambda c, x: M.member(x, c), recv='dictseq', fn='contains', x='dx')
F('in-set-dicts', '{x} in {c}.toSet()', lambda c, x: M.member(x, c), recv='dictseq', fn='in_', x='dx')
F('set-ctor-dicts', 'set({x}, {y}).len()', lambda x, y: len(M.uniq([x, y])), recv='none', fn='set_', x='dx', y='dx')
F('set-equal-dicts', '[set({x}) = set({y}), {x} = {y}]', lambda x, y: [M.uniq_equal([x], [y]), M.eq(x, y)], recv='none',
  fn='to_set', x='dx', y='dx')
F('dict-items-dicts', 'dict([[{x}, 1], [{y}, 2]]).len()', lambda x, y: len(M.uniq([x, y])), recv='none', fn='dict__',
  x='dx', y='dx')
for _n, _m in (('union', M.uniq_union), ('intersect', M.uniq_intersect), ('difference', M.uniq_difference),
               ('symmetricDifference', M.uniq_symmetric_difference)):
    F(_n + '-dicts', '{c}.toSet().%s({d}.toSet()).len()' % _n, (lambda m: lambda a, b: len(m(a, b)))(_m), recv='dictseq2',
      fn='symmetric_difference' if _n == 'symmetricDifference' else _n)
F('set-compare-dicts', '[{c}.toSet() = {d}.toSet(), {c}.toSet() <= {d}.toSet(), {c}.toSet() + {d}.toSet() = {d}.toSet()]',
  lambda a, b: [M.uniq_equal(a, b), M.uniq_subset(a, b), M.uniq_subset(a, b)], recv='dictseq2', fn='set_lte')

# -- system.py ----------------------------------------------------------------
F('unpack', '{c}.unpack() -> [$1, $2, $3, $4, $5]', lambda c: M.unpack(c, [], 5), pipe=False)
F('unpack-1', '{c}.unpack(a) -> [$a]', lambda c: M.unpack(c, ['a']), fn='unpack', pipe=False)
F('unpack-2', '{c}.unpack(a, b) -> [$a, $b]', lambda c: M.unpack(c, ['a', 'b']), fn='unpack', pipe=False)
F('unpack-3', '{c}.unpack(a, b, c) -> [$a, $b, $c]', lambda c: M.unpack(c, ['a', 'b', 'c']), fn='unpack', pipe=False)
F('with', 'with({v}, {w}) -> [$1, $2, $3]', lambda v, w: M.with_([v, w], 3), recv='none', fn='with_', v='val', w='val')

# the streaming core for chains of 3 and 4 operators: (form, argument texts)
CORE = [('where', {'p': '$ > 1'}), ('where', {'p': '$ = null'}), ('select', {'p': '[$, $]'}), ('skip', {'i': '1'}),
        ('take', {'i': '2'}), ('takeWhile', {'p': '$ > 1'}), ('skipWhile', {'p': '$ = null'}), ('distinct', {}),
        ('enumerate', {}), ('append', {'v': 'null', 'w': 'null'}), ('selectMany', {'p': '$'}), ('reverse', {}),
        ('memorize', {}), ('zip', {'o': '[7, null]'}), ('insert', {'i': '1', 'v': 'null'}), ('delete', {'i': '1', 'j': '1'})]
CORES = {16: CORE, 12: [op for op in CORE if op[0] not in ('append', 'zip', 'insert', 'delete')]}
CORE_LAST = [('first', {}), ('last', {}), ('count', {}), ('indexOf', {'v': 'null'}), ('any-p', {'p': '$ = null'})]


# ---------------------------------------------------------------------------
# inputs
# ---------------------------------------------------------------------------
def seqs_over(alphabet, maxlen):
    for n in range(maxlen + 1):
        for s in itertools.product(alphabet, repeat=n):
            yield list(s)


def subsets(alphabet, maxlen):
    for n in range(maxlen + 1):
        for s in itertools.combinations(alphabet, n):
            yield list(s)


def dicts(maxlen, keys=DICT_KEYS, values=DICT_VALUES):
    """Dictionaries as pair lists, keys distinct, every order of keys."""
    for n in range(maxlen + 1):
        for ks in itertools.permutations(keys, n):
            for vs in itertools.product(values, repeat=n):
                yield [[k, v] for k, v in zip(ks, vs)]


def units(form, tier):
    """The receivers of a form: list of (presentation, encoded input[, second input])."""
    r, T = form.recv, TIER[tier]
    if r == 'none':
        return [('none', None)]
    if r in ('iterable', 'noset', 'sequence'):
        out = []
        heavy = len(list(arg_combos(form, 3))) > T['heavy']    # many argument combinations: one size smaller
        for s in seqs_over(T['alphabet'], T['maxlen'] - heavy):
            out.append(('tuple', s))
            out.append(('iter', s))
            if len(set(map(repr, s))) == len(s):
                out.append(('set', s))
        return out
    if r == 'pairs':
        return [(p, s) for s in seqs_over(PAIR_ALPHABET, T['family_len'] + 1) for p in ('tuple', 'iter')]
    if r == 'nested':
        return [(p, s) for s in seqs_over(NESTED_ALPHABET, T['family_len']) for p in ('tuple', 'iter')]
    if r == 'dictseq':
        return [(p, s) for s in seqs_over(DICT_ELEMENTS, T['family_len']) for p in ('tuple', 'iter')]
    if r == 'dictseq2':
        return [('tuple', a, b) for a in seqs_over(DICT_ELEMENTS, T['family_len']) for b in seqs_over(DICT_ELEMENTS, 1)]
    if r == 'set':
        return [('set', s) for s in subsets(SET_ALPHABET, 5)]
    if r == 'set2':
        return [('set', a, b) for a in subsets(SET_ALPHABET, T['set_size']) for b in subsets(SET_ALPHABET, T['set_size'])]
    if r == 'dict':
        return [('dict', d) for d in dicts(T['dict_keys'])]
    if r == 'dict2':
        return [('dict', a, b) for a in dicts(T['dict_keys']) for b in dicts(T['dict_keys'] - 1)]
    if r == 'merge2':
        ds = [[['k', v]] for v in MERGE_VALUES] + [[]] + [[['k', v], ['m', 1]] for v in MERGE_VALUES[:3]]
        if tier == 'thorough':
            ds += [[['k', {'x': v}]] for v in MERGE_VALUES[1:]] + [[['m', [1]], ['k', v]] for v in MERGE_VALUES[3:]]
        return [('dict', a, b) for a in ds for b in ds]
    raise AssertionError(r)


def build(pres, enc):
    """The yaql-side value of an encoded input, converted the way yaql converts input data."""
    if pres == 'dict':
        return yutils.convert_input_data(_dict(enc))
    v = yutils.convert_input_data(enc)
    if pres == 'iter':
        return iter(v)
    if pres == 'set':
        return frozenset(v)
    return v


def _dict(pairs):
    return dict((k, _dict_value(v)) for k, v in pairs)


def _dict_value(v):
    if isinstance(v, dict):
        return dict((k, _dict_value(x)) for k, x in v.items())
    return v


def model_input(pres, enc, value):
    """The model-side value of the same input.  A set is modelled as the list of
    its elements in the order in which that frozenset object iterates."""
    if pres == 'dict':
        return _dict(enc)
    if pres == 'set':
        return list(value)
    return [list(x) if isinstance(x, list) else x for x in enc] if enc is not None else None


# ---------------------------------------------------------------------------
# observation and judgement
# ---------------------------------------------------------------------------
NOMATCH = ('NoMatchingFunctionException', 'NoMatchingMethodException')


# a backstop, never reached by an in-domain case: an out-of-domain endless result (3.repeat(-2)) must fail, not hang
OPTIONS = {'yaql.limitIterators': 500}


def observe(text, **variables):
    o = yq.outcome(text, variables=variables, options=OPTIONS)
    if o[0] == 'v':
        return ('v', yq.plain(o[1]))
    return ('e', 'nomatch' if o[1] in NOMATCH else o[1])


def agree(obs, exp, unordered=False):
    if obs[0] != exp[0]:
        return False
    if obs[0] == 'e':
        return obs[1] == exp[1]
    if unordered:
        return M.same_multiset(obs[1], exp[1])
    return M.same(obs[1], exp[1])


def label(obs):
    if obs[0] == 'e':
        return 'error:' + obs[1]
    v = obs[1]
    return 'value:' + ('list' if isinstance(v, list) else 'set' if isinstance(v, frozenset) else
                       'dict' if isinstance(v, dict) else 'scalar')


def inputs(form, unit):
    """(yaql variables, model receiver, second model receiver) of a unit."""
    pres = unit[0]
    variables, c, d = {}, None, None
    if pres != 'none':
        variables['c'] = build(pres, unit[1])
        c = model_input(pres, unit[1], variables['c'])
        if form.recv in ('set', 'set2'):
            c = frozenset(c)
    if len(unit) == 3:
        variables['d'] = build(pres, unit[2])
        d = model_input(pres, unit[2], variables['d'])
        if pres == 'set':
            d = frozenset(d)
    return variables, c, d


HASH_KEY = 'equal dictionaries hash differently (key insertion order): hash-based functions disagree with ='


def hash_depends_on_key_order():
    """Diagnosis only: one root cause behind every hash-based function failing on equal dictionaries."""
    a, b = yutils.convert_input_data(N1), yutils.convert_input_data(N2)
    return a == b and hash(a) != hash(b)


def run_case(res, form, args, unit):
    """Execute and judge one single-operator case."""
    text = form.text(args)
    res.case(('single', text, unit))
    variables, c, d = inputs(form, unit)
    exp, why = form.expected(c, args, unit[0], d)
    if exp is None and why.startswith('endless'):
        res.out_of_domain += 1
        res.outcomes['ood (not executed: endless)'] += 1
        return
    obs = observe(text, **variables)
    res.evaluations += 1
    res.transitions += 1
    if exp is None:
        res.out_of_domain += 1
        res.outcomes['ood'] += 1
        return
    res.nontrivial += 1
    res.outcomes[label(obs)] += 1
    if not agree(obs, exp, form.unordered):
        res.fail(HASH_KEY if '-dicts' in form.name and hash_depends_on_key_order() else
                 'model-mismatch fn=%s recv=%s' % (form.fn, unit[0]),
                 {'kind': 'single', 'form': form.name, 'args': args, 'unit': list(unit)},
                 '%s: observed %r expected %r' % (text, obs, exp))


def arg_combos(form, n, reduced=False):
    names = [p for p, _ in form.params]
    doms = [domain(kind, n, reduced) for _, kind in form.params]
    for combo in itertools.product(*doms):
        yield dict(zip(names, combo))


def job_single(tier, k, njobs):
    res = Result()
    per_form = {}
    for form in FORMS:
        us = units(form, tier)[k::njobs] if form.recv != 'none' else (units(form, tier) if k == 0 else [])
        before = res.nontrivial
        for unit in us:
            n = len(unit[1]) if unit[1] is not None else 2
            for args in arg_combos(form, n):
                run_case(res, form, args, unit)
        per_form[form.name] = res.nontrivial - before
        if us and k == 0 and form.name in ('skip', 'orderBy', 'groupBy', 'union'):
            u, a = us[min(len(us) - 1, 7)], next(arg_combos(form, 2))
            res.sample({'text': form.text(a), 'input': repr(u), 'observed': repr(observe(form.text(a), **inputs(form, u)[0]))})
    res.extra['judged_per_form'] = per_form
    return res


# ---------------------------------------------------------------------------
# pipelines
# ---------------------------------------------------------------------------
def instances(first, mode):
    """Operator instances over the reduced argument alphabet: [(form, args)];
    mode 'one': one instance per call form, 'all': every reduced combination."""
    out = []
    for form in FORMS:
        if not form.pipe or (first and form.out != 'seq'):
            continue
        combos = list(arg_combos(form, 2, reduced=True))
        for args in combos[:1] if mode == 'one' else combos:
            out.append((form.name, args))
    return out


def pipe_text(ops, c='$c'):
    for name, args in ops:
        c = BY_NAME[name].text(args, c)
    return c


def pipe_expected(ops, seq, pres):
    """Model of a chain.  An error (or an undefined result) of a non-final stage
    makes the case out of domain: when a lazy stage is evaluated is unspecified."""
    v = [list(x) if isinstance(x, list) else x for x in seq]
    exp = None
    for i, (name, args) in enumerate(ops):
        if not isinstance(v, list):
            return None
        exp, _ = BY_NAME[name].expected(v, args, pres if i == 0 else 'iter')
        if exp is None or (i < len(ops) - 1 and exp[0] != 'v'):
            return None
        v = exp[1]
    return exp


RAW = {'yaql.convertOutputData': False, 'yaql.limitIterators': 500}


def yields_python_lists(op, value):
    """Diagnosis only: does the operator hand out mutable Python lists as (parts
    of) its elements?  Those are unhashable and unequal to yaql's own lists."""
    try:
        raw = list(yq.evaluate(pipe_text([op]), variables={'c': build('tuple', value)}, options=RAW))
    except Exception:
        return False
    return any(isinstance(e, list) or (isinstance(e, tuple) and any(isinstance(x, list) for x in e)) for e in raw)


def blame(ops, seq, pres):
    """The key of a failing chain: the operator whose single application
    disagrees with the model on the value the model says reaches it; else the
    smallest failing contiguous sub-chain."""
    inputs = [[list(x) if isinstance(x, list) else x for x in seq]]
    for name, args in ops[:-1]:
        exp, _ = BY_NAME[name].expected(inputs[-1], args, 'tuple')
        if exp is None or exp[0] != 'v' or not isinstance(exp[1], list):
            break
        inputs.append(exp[1])
    for length in range(1, len(ops) + 1):
        for a in range(0, min(len(inputs), len(ops) - length + 1)):
            sub = ops[a:a + length]
            for p in ('tuple', 'iter'):
                exp = pipe_expected(sub, inputs[a], p)
                if exp is None or agree(observe(pipe_text(sub), c=build(p, inputs[a])), exp, BY_NAME[sub[-1][0]].unordered):
                    continue
                if length == 1:
                    return 'model-mismatch fn=%s recv=%s' % (BY_NAME[sub[0][0]].fn, p)
                if yields_python_lists(sub[0], inputs[a]):
                    return 'python-list-elements producer=%s' % BY_NAME[sub[0][0]].fn
                return 'pipeline-mismatch ops=%s' % '|'.join(BY_NAME[n].fn for n, _ in sub)
    return 'pipeline-mismatch ops=%s' % '|'.join(BY_NAME[n].fn for n, _ in ops)


def run_pipe(res, ops, seq, pres):
    text = pipe_text(ops)
    res.case(('pipe', text, pres, seq))
    exp = pipe_expected(ops, seq, pres)
    obs = observe(text, c=build(pres, seq))
    res.evaluations += 1
    res.transitions += len(ops)
    if exp is None:
        res.out_of_domain += 1
        res.outcomes['ood'] += 1
        return
    res.nontrivial += 1
    res.outcomes[label(obs)] += 1
    if not agree(obs, exp, BY_NAME[ops[-1][0]].unordered):
        res.fail(blame(ops, seq, pres), {'kind': 'pipe', 'ops': [[n, a] for n, a in ops], 'pres': pres, 'seq': seq},
                 '%s on %s %r: observed %r expected %r' % (text, pres, seq, obs, exp))


def job_pipe2(tier, mode, alphabet, lens, k, njobs):
    """All ordered pairs of operator instances (mode 'one': one instance per call
    form, 'all': every reduced argument combination) on all sequences over
    alphabet with a length in lens."""
    res = Result()
    firsts, seconds = instances(True, mode), instances(False, mode)
    pairs = [(a, b) for a in firsts for b in seconds][k::njobs]
    seqs = [s for s in seqs_over(alphabet, max(lens)) if len(s) in lens]
    for a, b in pairs:
        for s in seqs:
            for pres in ('tuple', 'iter'):
                run_pipe(res, [a, b], s, pres)
    if k == 0:
        res.extra['pipe2_instances_%s' % mode] = [len(firsts), len(seconds)]
        res.sample({'text': pipe_text(pairs[0]), 'input': 'iter [2, None, 1]',
                    'observed': repr(observe(pipe_text(pairs[0]), c=iter((2, None, 1))))})
    return res


def chains(core, length):
    for body in itertools.product(core, repeat=length - 1):
        for last in core + CORE_LAST:
            yield list(body) + [last]


def job_chain(core, alphabet, length, maxlen, k, njobs):
    res = Result()
    seqs = list(seqs_over(alphabet, maxlen))
    for ops in itertools.islice(chains(CORES[core], length), k, None, njobs):
        for s in seqs:
            for pres in ('tuple', 'iter'):
                run_pipe(res, ops, s, pres)
    return res


# ---------------------------------------------------------------------------
# a collection-valued result is an immutable value: hashable and equal to an equally built one
# ---------------------------------------------------------------------------
PLAIN_COLLECTIONS = (tuple, list, set, frozenset, dict, yutils.FrozenDict)
MUTABLE = (list, dict, set, bytearray)


def literal(v):
    """The yaql spelling of a model value (None when it has none)."""
    if v is None:
        return 'null'
    if isinstance(v, bool):
        return 'true' if v else 'false'
    if isinstance(v, int):
        return str(v) if v >= 0 else '(%d)' % v
    if isinstance(v, str):
        return "'%s'" % v if "'" not in v and '\\' not in v else None
    if isinstance(v, list):
        parts = [literal(x) for x in v]
        return None if None in parts else '[%s]' % ', '.join(parts)
    if isinstance(v, frozenset):
        parts = [literal(x) for x in v]
        return None if None in parts else 'set(%s)' % ', '.join(parts)
    if isinstance(v, dict):
        parts = [(literal(k), literal(x)) for k, x in v.items()]
        return None if any(a is None or b is None for a, b in parts) else '{%s}' % ', '.join('%s => %s' % t for t in parts)
    return None


def has_mutable(raw, depth=0):
    """Diagnosis: a mutable Python container anywhere in an unfinalised result."""
    if isinstance(raw, MUTABLE):
        return True
    if depth > 6 or isinstance(raw, str):
        return False
    if isinstance(raw, (tuple, frozenset)):
        return any(has_mutable(x, depth + 1) for x in raw)
    if isinstance(raw, yutils.FrozenDict):
        return any(has_mutable(k, depth + 1) or has_mutable(x, depth + 1) for k, x in raw.items())
    return False


def producer(form, pres):
    if form.fn == 'insert':
        return 'list_insert' if pres == 'tuple' else 'iter_insert'
    return form.fn


def nested_text(form_text, lazy, lit, one_shot):
    """One expression using the result G of a call form as an element, a set
    element, a dict key and an operand of = / indexOf; every part is a number
    or a boolean, so finalisation (C10) is not involved.  A one-shot receiver
    is evaluated once (let), any other twice (two separately built results)."""
    g = '(%s)%s' % (form_text, '.toList()' if lazy else '')
    a, b = ('$', '$') if one_shot else (g, g)
    parts = [('as element of distinct', '[%s].distinct().len()' % a, 1),
             ('two results in one set', '[%s, %s].toSet().len()' % (a, b), 1),
             ('as dict key', '{%s => 1}.len()' % a, 1)]
    if lit is not None:
        parts += [('in one set with the equal literal', '[%s, %s].toSet().len()' % (a, lit), 1),
                  ('indexOf the equal literal', '[%s].indexOf(%s)' % (a, lit), 0),
                  ('= the equal literal', '%s = %s' % (a, lit), True)]
    body = '[%s]' % ', '.join(t for _, t, _ in parts)
    return ('let(%s) -> %s' % (g, body) if one_shot else body), [n for n, _, _ in parts], [e for _, _, e in parts]


def run_nested(res, form, args, unit):
    """The derived wrapper forms of one call-form case whose model result is a collection."""
    variables, c, d = inputs(form, unit)
    exp, _ = form.expected(c, args, unit[0], d)
    if exp is None or exp[0] != 'v' or not isinstance(exp[1], (list, dict, frozenset)):
        return
    text = form.text(args)
    try:                                  # what kind of object is handed out: a plain collection or a lazy one
        raw = yq.evaluate(text, variables=variables, options=RAW)
        lazy = not isinstance(raw, PLAIN_COLLECTIONS)
        mutable = has_mutable(tuple(raw) if lazy else raw)
    except Exception:
        return                            # the single-operator check judges this case
    res.evaluations += 1
    # a lazy result is compared as the list it unfolds to; the order of a lazy set / dict view is not documented
    lit = None if form.unordered or (lazy and not isinstance(exp[1], list)) else literal(exp[1])
    wtext, names, expected = nested_text(text, lazy, lit, unit[0] == 'iter')
    res.case(('nested', wtext, unit))
    obs = observe(wtext, **inputs(form, unit)[0])
    res.evaluations += 1
    res.transitions += len(names)
    res.nontrivial += 1
    res.outcomes['nested use: ' + ('agrees' if obs == ('v', expected) else label(obs))] += 1
    if obs != ('v', expected) or not all(M.same(x, y) for x, y in zip(obs[1], expected)):
        bad = ([n for n, x, y in zip(names, obs[1], expected) if not M.same(x, y)]
               if obs[0] == 'v' and isinstance(obs[1], list) and len(obs[1]) == len(expected) else [obs[1]])
        key = ('python-mutable-result producer=%s' % producer(form, unit[0]) if mutable else
               'nested-use-mismatch fn=%s recv=%s' % (form.fn, unit[0]))
        res.fail(key, {'kind': 'nested', 'form': form.name, 'args': args, 'unit': list(unit)},
                 '%s: observed %r expected %r; failing: %s; handed out: %s' % (wtext, obs, expected, bad, type(raw).__name__))


def job_nested(tier, k, njobs):
    res = Result()
    for form in FORMS:
        # quick: inputs of length <= 2, three argument combinations per form; thorough: length <= 3, every combination
        # (dictionaries: <= 2 keys in both tiers)
        n = 2 if tier == 'quick' or form.recv in ('dict', 'dict2') else 3
        us = [u for u in units(form, tier) if u[1] is None or (len(u[1]) <= n and (len(u) < 3 or len(u[2]) < n))]
        us = us[k::njobs] if form.recv != 'none' else (us if k == 0 else [])
        for unit in us:
            combos = list(arg_combos(form, len(unit[1]) if unit[1] is not None else 2))
            if tier == 'quick':
                combos = [combos[i] for i in sorted(set((0, len(combos) // 2, len(combos) - 1)))]
            for args in combos:
                run_nested(res, form, args, unit)
    return res


# ---------------------------------------------------------------------------
# laws on observed results
# ---------------------------------------------------------------------------
def _val(obs):
    return obs[1] if obs[0] == 'v' else None


def law_sequence(res, seq, pres):
    """take+skip, reverse.reverse, distinct idempotent, stable sorted permutation, order-preserving partition."""
    def ob(text):
        res.evaluations += 1
        return observe(text, c=build(pres, seq))

    def check(name, ok, detail):
        res.transitions += 1
        res.outcomes['law ' + ('held' if ok else 'broken')] += 1
        if not ok:
            res.fail('law: ' + name, {'kind': 'law', 'law': 'sequence', 'seq': seq, 'pres': pres}, detail)
    res.case(('law', pres, seq))
    res.nontrivial += 1
    for n in range(len(seq) + 3):
        a, b = ob('$c.take(%d)' % n), ob('$c.skip(%d)' % n)
        check('take(n) followed by skip(n) is the input', a[0] == b[0] == 'v' and M.same(a[1] + b[1], seq), repr((n, a, b)))
    r = ob('$c.reverse().reverse()')
    check('reverse of reverse is the input', r[0] == 'v' and M.same(r[1], seq), repr(r))
    d1, d2 = ob('$c.distinct()'), ob('$c.distinct().distinct()')
    check('distinct is idempotent', d1[0] == 'v' and d1 == d2, repr((d1, d2)))
    indexed = [[i, x] for i, x in enumerate(seq)]
    for text, asc in (('$c.enumerate().orderBy($[1])', True), ('$c.enumerate().orderByDescending($[1])', False)):
        r = ob(text)
        if r[0] != 'v':
            continue                     # keys not mutually ordered: the model check decides whether that is right
        perm = M.same_multiset(r[1], indexed)
        try:
            signs = [M.compare(a[1], b[1]) * (1 if asc else -1) for a, b in zip(r[1], r[1][1:])]
            order = all(s <= 0 for s in signs)
            stable = all(a[0] < b[0] for (a, b), s in zip(zip(r[1], r[1][1:]), signs) if s == 0)
        except (M.Err, M.OutOfDomain):
            continue
        check('orderBy returns a stable sorted permutation', perm and order and stable, repr((text, r)))
    r = ob('$c.enumerate().groupBy($[1])')
    if r[0] == 'v':
        try:
            groups = r[1]
            flat = [m for g in groups for m in g[1]]
            ok = (M.same_multiset(flat, indexed) and
                  all(M.eq(m[1], g[0]) for g in groups for m in g[1]) and
                  all(not M.eq(g[0], h[0]) for g, h in itertools.combinations(groups, 2)) and
                  all(a[0] < b[0] for g in groups for a, b in zip(g[1], g[1][1:])) and
                  all(g[1][0][0] < h[1][0][0] for g, h in zip(groups, groups[1:])))
        except M.OutOfDomain:
            ok = True
        check('groupBy partitions the input preserving encounter order', ok, repr(r))


def law_sets(res, a, b):
    def ob(text):
        res.evaluations += 1
        return _val(observe(text, c=frozenset(yutils.convert_input_data(a)), d=frozenset(yutils.convert_input_data(b))))

    def check(name, ok, detail):
        res.transitions += 1
        res.outcomes['law ' + ('held' if ok else 'broken')] += 1
        if not ok:
            res.fail('law: ' + name, {'kind': 'law', 'law': 'sets', 'a': a, 'b': b}, detail)
    res.case(('law-sets', a, b))
    res.nontrivial += 1
    u, i, dab, dba, sd = (ob('$c.union($d)'), ob('$c.intersect($d)'), ob('$c.difference($d)'), ob('$d.difference($c)'),
                          ob('$c.symmetricDifference($d)'))
    A, B = frozenset(a), frozenset(b)
    sets = all(isinstance(x, frozenset) for x in (u, i, dab, dba, sd))
    check('set operations return sets', sets, repr((u, i, dab, dba, sd)))
    if not sets:
        return
    check('union and intersect are commutative', u == ob('$d.union($c)') and i == ob('$d.intersect($c)'), repr((u, i)))
    check('(A - B) + (A & B) = A, disjoint', dab | i == A and not (dab & i) and not (dab & B), repr((dab, i)))
    check('symmetricDifference = (A + B) - (A & B)', sd == u - i and sd == dab | dba, repr((sd, u, i)))
    check("'+' is union and '-' is difference", ob('$c + $d') == u and ob('$c - $d') == dab, repr((u, dab)))
    le, lt, ge, gt = ob('$c <= $d'), ob('$c < $d'), ob('$c >= $d'), ob('$c > $d')
    check('A <= B iff A + B = B; < is <= and not equal; >, >= are the converses',
          le is (u == B) and lt is (le and A != B) and ge is ob('$d <= $c') and gt is ob('$d < $c'), repr((le, lt, ge, gt)))


def law_dicts(res, d1, d2, d3):
    def ob(text):
        res.evaluations += 1
        return _val(observe(text, a=build('dict', d1), b=build('dict', d2), c=build('dict', d3)))

    def check(name, ok, detail):
        res.transitions += 1
        res.outcomes['law ' + ('held' if ok else 'broken')] += 1
        if not ok:
            res.fail('law: ' + name, {'kind': 'law', 'law': 'dicts', 'a': d1, 'b': d2, 'c': d3}, detail)
    res.case(('law-dicts', d1, d2, d3))
    res.nontrivial += 1
    ab = ob('$a + $b')
    check("dict '+' is associative", M.same(ob('($a + $b) + $c'), ob('$a + ($b + $c)')), repr((d1, d2, d3)))
    check("dict '+', set(dict) and mergeWith agree on flat dicts",
          isinstance(ab, dict) and M.same(ab, ob('$a.set($b)')) and M.same(ab, ob('$a.mergeWith($b)')), repr(ab))
    if not set(repr(k) for k, _ in d1) & set(repr(k) for k, _ in d2):
        check("dict '+' is commutative on disjoint keys", M.same(ab, ob('$b + $a')), repr(ab))
        check('merge of disjoint dicts has all keys', isinstance(ab, dict) and len(ab) == len(d1) + len(d2), repr(ab))


LAW_DICTS = [[], [['a', 1]], [['a', None]], [['b', 1]], [[1, 'a']], [[None, 1]], [['a', 'a'], ['b', 1]]]


def job_laws(tier, k, njobs):
    res = Result()
    T = TIER[tier]
    for s in list(seqs_over(T['alphabet'], T['maxlen']))[k::njobs]:
        for pres in ('tuple', 'iter'):
            law_sequence(res, s, pres)
    subs = list(subsets(SET_ALPHABET, T['set_size']))
    for a, b in [(a, b) for a in subs for b in subs][k::njobs]:
        law_sets(res, a, b)
    ds = LAW_DICTS if tier == 'quick' else list(dicts(1)) + LAW_DICTS[-1:]
    for t in list(itertools.product(ds, repeat=3))[k::njobs]:
        law_dicts(res, *t)
    return res


# ---------------------------------------------------------------------------
def jobs(tier, seed):
    out = []
    quick = tier == 'quick'
    ns = 16 if quick else 32
    for k in range(ns):
        out.append(('single-%02d' % k, 'job_single', (tier, k, ns)))
    if quick:
        plan2 = [('one', [1, 2, None], (0, 1, 2), 16)]
        plan3 = [(12, [2, None], 3, 2, 16)]
    else:
        plan2 = [('all', [1, 2, None, 'a'], (0, 1, 2), 48), ('one', [1, 2, None, 'a'], (3,), 16)]
        plan3 = [(16, [1, 2, None], 3, 3, 32), (12, [1, None], 4, 2, 32)]
    for mode, alphabet, lens, n in plan2:
        for k in range(n):
            out.append(('pipe2-%s-%02d' % (mode, k), 'job_pipe2', (tier, mode, alphabet, lens, k, n)))
    for core, alphabet, length, maxlen, n in plan3:
        for k in range(n):
            out.append(('chain%d-%02d' % (length, k), 'job_chain', (core, alphabet, length, maxlen, k, n)))
    nn = 8 if quick else 32
    for k in range(nn):
        out.append(('nested-%02d' % k, 'job_nested', (tier, k, nn)))
    for k in range(4):
        out.append(('laws-%d' % k, 'job_laws', (tier, k, 4)))
    return out


def finish(total, tier):
    judged = total.extra.get('judged_per_form', {})
    total.extra['forms'] = len(FORMS)
    total.extra['functions_covered'] = sorted(set(f.fn for f in FORMS))
    total.extra['forms_never_judged'] = sorted(n for n, v in judged.items() if not v)


def replay(case):
    k = case['kind']
    if k == 'single':
        form, unit = BY_NAME[case['form']], tuple(case['unit'])
        variables, c, d = inputs(form, unit)
        exp, why = form.expected(c, case['args'], unit[0], d)
        obs = observe(form.text(case['args']), **variables)
        return {'text': form.text(case['args']), 'input': list(unit), 'observed': repr(obs),
                'expected': repr(exp) if exp else 'out of domain: ' + why, 'ok': exp is None or agree(obs, exp, form.unordered)}
    if k == 'pipe':
        ops = [(n, a) for n, a in case['ops']]
        exp = pipe_expected(ops, case['seq'], case['pres'])
        obs = observe(pipe_text(ops), c=build(case['pres'], case['seq']))
        return {'text': pipe_text(ops), 'input': [case['pres'], case['seq']], 'observed': repr(obs), 'expected': repr(exp),
                'ok': exp is None or agree(obs, exp, BY_NAME[ops[-1][0]].unordered)}
    if k == 'nested':
        form, unit = BY_NAME[case['form']], tuple(case['unit'])
        res = Result()
        run_nested(res, form, case['args'], unit)
        f = list(res.failures.values())
        return {'text': form.text(case['args']), 'input': list(unit), 'observed': f[0].detail if f else 'agrees',
                'expected': 'the result used as element / set element / dict key / operand of = behaves as an immutable value',
                'ok': not f}
    if k == 'law':
        res = Result()
        if case['law'] == 'sequence':
            law_sequence(res, case['seq'], case['pres'])
        elif case['law'] == 'sets':
            law_sets(res, case['a'], case['b'])
        else:
            law_dicts(res, case['a'], case['b'], case['c'])
        return {'observed': dict((key, f.detail) for key, f in res.failures.items()), 'expected': 'all laws hold',
                'ok': not res.failures}
    return {'ok': False, 'observed': 'unknown case kind'}
