import warnings; warnings.filterwarnings('ignore')
import copy, collections, itertools, re, datetime
import yaql
from yaql.language import yaqltypes, utils, contexts
from yaql.standard_library import queries
engRaw = yaql.YaqlFactory(allow_delegates=True).create({'yaql.limitIterators': 50, 'yaql.convertInputData': False})
eng = yaql.YaqlFactory(allow_delegates=True).create({'yaql.limitIterators': 50})
ROOT = yaql.create_context(delegates=True)
fds = []
c = ROOT
while c is not None:
    for name, s in c._functions.items():
        for fd in s: fds.append(fd)
    c = c.parent
def slot_kind(p):
    t = p.value_type; n = type(t).__name__
    if isinstance(t, yaqltypes.HiddenParameterType): return 'hidden'
    if n in ('Iterable', 'Sequence'): return 'seq'
    if n == 'Iterator': return 'iter'
    if n == 'PythonType':
        pt = t.python_type
        if pt is utils.MappingType: return 'map'
        if pt is utils.SetType: return 'set'
        if pt is object: return 'any'
        if pt is int: return 'int'
        if pt is bool: return 'bool'
        if pt is datetime.timedelta: return 'ts'
        if pt is datetime.datetime: return 'dt'
        if pt is type(None): return 'none'
        if pt is type(re.compile('.')): return 'rx'
        if pt is utils.IteratorType: return 'iter'
        return 'other:' + getattr(pt, '__name__', str(pt))
    return n
FILL = {'String': "'ab'", 'Integer': '1', 'Number': '1', 'DateTime': 'datetime(2015,1,2)', 'seq': '[1, 2]', 'iter': '[1, 2].select($)',
        'Lambda': '$', 'Keyword': 'foo', 'map': '{a => 1}', 'set': 'set(1, 2)', 'any': '1', 'int': '1', 'bool': 'true', 'ts': 'timespan(hours=>1)',
        'dt': 'datetime(2015,1,2)', 'none': 'null', 'rx': "regex('a')", 'StringConstant': "'s'", 'MappingRule': 'a => 1', 'other:MappingRule': 'a => 1'}
def visible(fd):
    return sorted([p for k, p in fd.parameters.items() if p.position is not None and k != '*' and not isinstance(p.value_type, yaqltypes.HiddenParameterType)], key=lambda p: p.position)
def call_text(fd, vals):
    name = fd.name
    if name.startswith('#operator_') and len(vals) == 2:
        op = name[len('#operator_'):]
        if op == '.': return None
        return '(%s) %s (%s)' % (vals[0], op, vals[1])
    if name.startswith('#unary_operator_') and len(vals) == 1: return '%s (%s)' % (name[len('#unary_operator_'):], vals[0])
    if name == '*equal': return '(%s) = (%s)' % tuple(vals)
    if name == '*not_equal': return '(%s) != (%s)' % tuple(vals)
    if name == '#indexer': return '(%s)[%s]' % (vals[0], ', '.join(vals[1:]))
    if name.startswith('#') or name.startswith('*'): return None
    if fd.is_function: return '%s(%s)' % (name, ', '.join(vals))
    return '(%s).%s(%s)' % (vals[0], name, ', '.join(vals[1:]))

# ---------- C09 scan: mutable raw host data in every seq/map/set/any slot
print('=== C09 scan')
hits = collections.OrderedDict(); n = 0
for fd in sorted(fds, key=lambda f: (f.name, f.payload.__name__)):
    ps = visible(fd)
    for i, p in enumerate(ps):
        k = slot_kind(p)
        if k not in ('seq', 'map', 'set', 'any', 'iter'): continue
        for label, mk in (('list', lambda: [3, 1, [2, 0], {'k': [1]}]), ('dict', lambda: {'a': [1, 2], 'b': {'c': 1}}), ('set', lambda: {1, 2, 3})):
            if k == 'map' and label != 'dict': continue
            if k == 'set' and label != 'set': continue
            if k in ('seq', 'iter') and label == 'dict': continue
            vals = []
            ok = True
            for j, q in enumerate(ps):
                if j == i: vals.append('$d'); continue
                f = FILL.get(slot_kind(q))
                if f is None: ok = False; break
                vals.append(f)
            if not ok: continue
            txt = call_text(fd, vals)
            if txt is None: continue
            data = mk(); snap = copy.deepcopy(data)
            ctx = ROOT.create_child_context(); ctx['d'] = data
            try:
                res = engRaw(txt).evaluate(context=ctx)
                out = 'ok'
            except Exception as e:
                res = None; out = type(e).__name__
            n += 1
            if data != snap:
                hits.setdefault((fd.name, fd.payload.__name__, 'MUTATED'), (txt, snap, data))
            elif res is not None:
                # aliasing: mutate result deeply
                def mut(x):
                    if isinstance(x, list):
                        for y in x: mut(y)
                        x.append('ZZ')
                    elif isinstance(x, dict):
                        for y in list(x.values()): mut(y)
                        x['ZZ'] = 1
                    elif isinstance(x, set): x.add('ZZ')
                try: mut(res)
                except Exception: pass
                if data != snap: hits.setdefault((fd.name, fd.payload.__name__, 'ALIASED'), (txt, snap, data))
print('calls', n, 'hits', len(hits))
for k, v in hits.items(): print('  ', k, v)

# ---------- C07 scan: canary in every slot
print('=== C07 scan')
SECRET = 'S3CR3T-MARKER'
log = []
PROTO = {'__class__', '__yaqlization__', '__hash__', '__eq__', '__ne__', '__str__', '__repr__', '__len__', '__iter__', '__bool__', '__dict__', '__getitem__', '__contains__', '__format__', '__lt__', '__gt__', '__le__', '__ge__', '__index__', '__int__', '__float__', '__add__', '__radd__', '__mul__', '__rmul__', '__sub__', '__rsub__', '__neg__', '__pos__', '__mod__', '__rmod__', '__truediv__', '__floordiv__', '__rtruediv__', '__rfloordiv__', '__next__', '__call__', '__reduce_ex__', '__deepcopy__', '__copy__', '__unwrapped__', '__and__', '__rand__', '__or__', '__ror__', '__xor__', '__rxor__', '__invert__', '__lshift__', '__rlshift__', '__rshift__', '__rrshift__', '__abs__', '__round__', '__pow__', '__rpow__', '__trunc__', '__floor__', '__ceil__'}
class Canary:
    def __init__(self):
        object.__setattr__(self, 'secret', SECRET); object.__setattr__(self, '_private', SECRET)
    def leak(self): return SECRET
    def __getattribute__(self, name):
        log.append(name)
        return object.__getattribute__(self, name)
hits = collections.OrderedDict(); n = 0; names_seen = collections.Counter()
for fd in sorted(fds, key=lambda f: (f.name, f.payload.__name__)):
    ps = visible(fd)
    for i, p in enumerate(ps):
        for attack in (None, "'{0.secret}'", "'secret'", "'%(secret)s'"):
            vals = []; ok = True
            for j, q in enumerate(ps):
                if j == i: vals.append('$c'); continue
                k = slot_kind(q)
                if attack and k == 'String': vals.append(attack); continue
                f = FILL.get(k)
                if f is None: ok = False; break
                vals.append(f)
            if not ok: continue
            if attack and attack not in vals: continue
            txt = call_text(fd, vals)
            if txt is None: continue
            ctx = ROOT.create_child_context(); can = Canary(); ctx['c'] = can
            del log[:]
            try: res = repr(eng(txt).evaluate(context=ctx))
            except Exception as e: res = 'EXC ' + type(e).__name__ + ' ' + str(e)
            n += 1
            bad = [x for x in log if x not in PROTO]
            for x in log: names_seen[x] += 1
            if bad or SECRET in res:
                hits.setdefault((fd.name, fd.payload.__name__), (txt, bad[:5], res[:80]))
for extra in ["$c.secret", "$c.secret()", "$c.leak()", "$c?.secret", "$c[secret]", "$c['secret']", "[$c].secret", "{k=>$c}.k.secret", "call(secret, [$c], {})", "call(leak, [], {}, $c)", "$c._private", "str($c)", "'{0.secret}'.format($c)", "format('{0.secret}', $c)"]:
    ctx = ROOT.create_child_context(); can = Canary(); ctx['c'] = can; del log[:]
    try: res = repr(eng(extra).evaluate(context=ctx))
    except Exception as e: res = 'EXC ' + type(e).__name__ + ' ' + str(e)[:60]
    bad = [x for x in log if x not in PROTO]
    print('   %-32s bad=%s -> %s' % (extra, bad, res[:90]))
print('calls', n, 'hits', len(hits)); print('names seen', dict(names_seen))
for k, v in hits.items(): print('  ', k, v)
