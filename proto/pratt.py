import warnings; warnings.filterwarnings('ignore')
import itertools, sys, collections
import yaql
from yaql.language import factory as F, expressions as X, exceptions

def table_from(ops):
    """ops: factory.operators list -> dict sym -> dict(prefix=(lvl), binary=(lvl,assoc), suffix=lvl)"""
    lvl = 1; t = collections.defaultdict(dict)
    for rec in ops:
        if not rec: lvl += 1; continue
        sym, typ = rec[0], rec[1]
        if typ == 'NAME_VALUE_PAIR': continue
        if typ == 'PREFIX_UNARY': t[sym]['prefix'] = lvl
        elif typ == 'SUFFIX_UNARY': t[sym]['suffix'] = lvl
        elif typ == 'BINARY_LEFT_ASSOCIATIVE': t[sym]['binary'] = (lvl, 'l')
        else: t[sym]['binary'] = (lvl, 'r')
    return t

class P:
    # tokens: list of ('opd', name) | ('op', sym) | ('(',) | (')',) | ('[',) (']',)
    def __init__(self, toks, table): self.t = toks; self.i = 0; self.tab = table
    def peek(self): return self.t[self.i] if self.i < len(self.t) else None
    def next(self): x = self.t[self.i]; self.i += 1; return x
    # "stack operator" = (level, assoc); lookahead binary op shifts iff tighter, or equal & right
    def shifts(self, stack, la):
        if stack is None: return True
        sl, sa = stack; ll, lassoc = la
        if ll < sl: return True
        if ll > sl: return False
        return sa == 'r'   # equal level: assoc of the level (homogeneous)
    def expr(self, stack=None):
        tok = self.next()
        if tok[0] == 'opd': left = tok[1]
        elif tok[0] == '(':
            left = self.expr(None); assert self.next() == (')',)
        elif tok[0] == 'op' and 'prefix' in self.tab[tok[1]]:
            lvl = self.tab[tok[1]]['prefix']
            # assoc of its level: look for a binary op on same level
            assoc = 'l'
            operand = self.expr((lvl, self.level_assoc(lvl, 'l')))
            left = ('u' + tok[1], operand)
        else: raise SyntaxError(tok)
        while True:
            tok = self.peek()
            if tok is None or tok[0] in (')', ']'): return left
            if tok[0] == '[':
                lvl = self.tab['[]']['binary']
                if not self.shifts(stack, lvl): return left
                self.next(); idx = self.expr(None); assert self.next() == (']',)
                left = ('index', left, idx); continue
            assert tok[0] == 'op', tok
            b = self.tab[tok[1]].get('binary')
            if b is None: raise SyntaxError(tok)
            if not self.shifts(stack, b): return left
            self.next()
            right = self.expr(b)
            left = (tok[1], left, right)
    def level_assoc(self, lvl, default):
        for sym, d in self.tab.items():
            if 'binary' in d and d['binary'][0] == lvl: return d['binary'][1]
        return default

def canon(e):
    if isinstance(e, X.Statement): return canon(e.expression)
    if isinstance(e, X.Wrap): return canon(e.expr)
    if isinstance(e, X.BinaryOperator): return (e.operator, canon(e.args[0]), canon(e.args[1]))
    if isinstance(e, X.UnaryOperator): return ('u' + e.operator, canon(e.args[0]))
    if isinstance(e, X.IndexExpression): return ('index', canon(e.args[0]), canon(e.args[1]))
    if isinstance(e, X.KeywordConstant): return e.value
    if isinstance(e, X.Constant): return repr(e.value)
    if isinstance(e, X.GetContextValue): return e.path.value
    return str(e)

def text(toks):
    out = []
    for t in toks:
        out.append({'opd': lambda: t[1], 'op': lambda: t[1], '(': lambda: '(', ')': lambda: ')', '[': lambda: '[', ']': lambda: ']'}[t[0]]())
    return ' '.join(out).replace(' [', '[')

if __name__ == '__main__':
    fac = yaql.YaqlFactory(); eng = fac.create(); tab = table_from(fac.operators)
    bins = [s for s, d in tab.items() if 'binary' in d and s not in ('[]', '{}')]
    pres = [s for s, d in tab.items() if 'prefix' in d]
    print(len(bins), 'binary', pres)
    names = ['a', 'b', 'c', 'd']
    n_cases = n_bad = 0; bad = []
    for n in (1, 2, 3):
        for ops in itertools.product(bins, repeat=n):
            # prefix placements: none or one prefix at one operand position, or index at one position
            variants = [None] + [(p, pos) for p in pres for pos in range(n + 1)] + [('[]', pos) for pos in range(n + 1)]
            if n == 3: variants = variants[:1 + len(pres) * 4]
            for v in variants:
                toks = []
                for k in range(n + 1):
                    if v and v[1] == k and v[0] != '[]': toks.append(('op', v[0]))
                    toks.append(('opd', names[k]))
                    if v and v[1] == k and v[0] == '[]': toks += [('[',), ('opd', 'i'), (']',)]
                    if k < n: toks.append(('op', ops[k]))
                txt = text(toks)
                try: exp = P(toks, tab).expr()
                except SyntaxError as e: exp = 'ERR'
                try: got = canon(eng(txt))
                except exceptions.YaqlParsingException as e: got = 'ERR'
                n_cases += 1
                if exp != got:
                    n_bad += 1
                    if len(bad) < 25: bad.append((txt, exp, got))
    print('cases', n_cases, 'mismatch', n_bad)
    for b in bad: print(b)
