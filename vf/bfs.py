"""E2 - explicit-state breadth-first search over operation histories.

A state is identified with a history that reaches it; live objects are rebuilt
by replaying the history from scratch (`build`), every transition is executed on
the implementation and judged by `step_check`, and states are deduplicated by
`canon(state)` - a *complete* snapshot, so that merging two histories is
justified by determinism alone.
"""
import collections


def search(root_hist, enabled, build, canon, judge, max_depth, res, on_state=None):
    """root_hist: starting history (tuple of events, already valid)
    enabled(hist, state) -> iterable of events
    build(hist) -> state (fresh objects; replays the history; must not raise for valid histories)
    judge(hist, ev, state_before_builder) -> (state_after | None, ok)   executes ev on a fresh copy
        of the state of `hist` and compares with the oracle; returns None to prune (violation or
        not extendable)
    Returns (states, transitions, frontier_left)."""
    s0 = build(root_hist)
    seen = {canon(s0)}
    frontier = collections.deque([root_hist])
    depth_of = {root_hist: len(root_hist)}
    states = 1
    transitions = 0
    left = 0
    while frontier:
        hist = frontier.popleft()
        d = depth_of.pop(hist)
        if d >= max_depth:
            left += 1
            continue
        state = build(hist)
        for ev in enabled(hist, state):
            st = build(hist)
            nxt = judge(hist, ev, st)
            transitions += 1
            if nxt is None:
                continue
            k = canon(nxt)
            if k in seen:
                continue
            seen.add(k)
            states += 1
            h2 = hist + (ev,)
            if on_state is not None:
                on_state(h2, nxt)
            depth_of[h2] = d + 1
            frontier.append(h2)
    return states, transitions, left
