"""C01 - a shared engine parses every text as if it were alone.

E2: breadth-first search over parse histories on one engine (state = full
snapshot of lexer and parser objects), every transition compared with the
fresh-engine baseline of its text.
E1: all interleavings (or all with <= c preemptions) of 2-3 real threads
parsing on one engine, scheduling points in front of every Lexer.input /
Lexer.token / Lexer.clone; plus line-granularity bound-1 schedules.
"""
import itertools
import math
import os

import vf.loader  # noqa: F401
from vf import canon, sched
from vf.core import Result, CURRENT_CASE

import ply.lex
import yaql
from yaql import legacy as ylegacy
from yaql.language import factory

ID = 'C01'
TITLE = 'shared engine parses each text as if alone'
RULE = ('histories: every sequence of parses over the text alphabet up to the BFS fixpoint, states deduplicated by a full '
        'snapshot of lexer+parser; schedules: every interleaving (or every one within the preemption bound) of 2-3 threads '
        'parsing on one engine at Lexer.input/token/clone granularity, and every line-granularity bound-1 schedule; '
        'a schedule is non-trivial when it contains at least one preemption, a history when its length is >= 2')
ASSUMPTIONS = ['exactly one thread runs at a time under the baton scheduler; switches inside one source line are not modelled',
               'hook wrappers around ply.lex.Lexer.input/token/clone only yield to the scheduler',
               'an engine is reused between executions; every reported violation is first replayed twice on a fresh engine']
BOUNDS = {
    'quick': 'E2: 17 texts (2 of them preceded by the creation of another engine with a customised operator table) x 3 engine kinds to fixpoint; E1: all pairs of 8 texts, all interleavings when <= 4000 else preemption bound 3; '
             'all 3-multisets of 4 texts with preemption bound 2; line-granularity bound 1 for 3 ordered pairs on a warm engine and 1 pair on a fresh engine per schedule',
    'thorough': 'E2: 43 texts x 3 engine kinds; E1: all pairs of 16 texts, all interleavings when <= 400000 else bound 4; 3 threads exhaustive '
                'where <= 60000 schedules else bound 3; two-text thread bodies; line-granularity bound 1 for all ordered pairs of 12 texts; yaql.eval path',
}

TEXTS_Q = ['1', 'a.b', '1 + 2', 'f(x)', '[1, 2]', "'s'", '$a.b(c)', '1 # 2', "'abc", '__x', '1 +', 'a b', ')', '',
           '1 = 2', '\u00a41 = 2', '\u00a4a != b']
TEXTS_T = TEXTS_Q + ['$', 'true', 'a.b.c', '-1', 'not true', 'a -> b', 'f(1, 2)', 'f(, 1)', 'f(a => 1)', '{a => b}',
                     '[1][0]', 'a?.b', '1 < 2 and 3 > 2', '"d"', '`v`', 'x in y', '1.5', 'a.b(', '(1', '1 2', "'\\x41'",
                     'f(a =>', '$ $', '1 ! 2', 'a =~ b', '(a)(b)']
E1_TEXTS_Q = ['1', 'a.b', '1 + 2', 'f(x)', "'s'", 'a b', '1 # 2', '[1]']
E1_TEXTS_T = E1_TEXTS_Q + ['$a.b(c)', "'abc", '__x', '1 +', ')', '-1', 'f(, 1)', '{a => b}']
E1_TRIPLE_Q = ['1', 'a', "'s'", 'a b']
KINDS = ('default', 'delegates', 'legacy')


def make_engine(kind):
    if kind == 'default':
        return yaql.YaqlFactory().create()
    if kind == 'delegates':
        return yaql.YaqlFactory(allow_delegates=True).create()
    return ylegacy.YaqlFactory().create()


OPT = '\u00a7'      # a text written with this prefix is parsed with per-call options: engine(text, {...})


OTHER = '\u00a4'    # before this parse another engine with a customised operator table is created in the process


def _another_engine():
    f = yaql.YaqlFactory()
    f.insert_operator(None, True, ':', factory.OperatorType.BINARY_LEFT_ASSOCIATIVE, True)
    return f.create()


def parse_outcome(engine, text):
    if text.startswith(OTHER):
        other = _another_engine()
        other('1 : 2')
        text = text[1:]
    try:
        if text.startswith(OPT):
            st = engine(text[1:], {'yaql.limitIterators': 7})
        else:
            st = engine(text)
        return ('ok', str(st), canon.digest(canon.snapshot(st.expression)))
    except Exception as e:
        return ('exc', type(e).__name__, str(e), repr(getattr(e, 'position', None)), repr(getattr(e, 'value', None)))


_base = {}


def baseline(kind, text):
    """Outcome of `text` on a fresh engine that has parsed nothing else."""
    if text.startswith(OTHER):
        text = text[1:]     # what else the process builds is not part of what a parse may depend on
    k = (kind, text)
    if k not in _base:
        _base[k] = parse_outcome(make_engine(kind), text)
    return _base[k]


def cheap_state(engine):
    """What an engine carries between parses, cheaply: attributes of the engine object (containers by length and
    element identity) and the scalar cursor fields of its lexer."""
    out = []
    for k, v in sorted(vars(engine).items()):
        if isinstance(v, (list, tuple, set, dict)):
            out.append((k, len(v), tuple(id(x) for x in v)))
        else:
            out.append((k, id(v)))
    lx = engine.lexer
    out.append(tuple((k, getattr(lx, k, None)) for k in ('lexdata', 'lexpos', 'lexlen', 'lineno', 'lexstate')))
    return tuple(out)


def engine_state(engine, full=False):
    """Complete snapshot of everything the engine keeps between parses.  The grammar production
    table (immutable, 16 ms to walk) is represented by its repr per transition and walked completely
    at the start and the end of every history search (full=True)."""
    lex = canon.snapshot(vars(engine.lexer))
    pv = dict(vars(engine.parser))
    prods = pv.pop('productions', None)
    par = canon.snapshot(pv)
    return (lex, par, canon.snapshot(prods) if full else repr(prods))


def save_state(engine):
    """Shallow copy of the mutable part of lexer and parser (lists copied) - used to put a *used* engine
    back into a recorded state instead of rebuilding it (0.15 s); the restored state is always verified
    against the complete snapshot before it is used."""
    return _cp(vars(engine.lexer)), _cp(vars(engine.parser))


def restore_state(engine, saved):
    for obj, d in ((engine.lexer, saved[0]), (engine.parser, saved[1])):
        vars(obj).clear()
        vars(obj).update(_cp(d))


_MUTABLE_LISTS = ('statestack', 'symstack', 'lexstatestack')   # other lists are shared immutable tables (aliased)


def _cp(d):
    return {k: (list(v) if k in _MUTABLE_LISTS and isinstance(v, list) else v) for k, v in d.items()}


# ---------------------------------------------------------------------------
# E2: histories
# ---------------------------------------------------------------------------
def job_histories(kind, texts, max_depth):
    res = Result()
    eng = [make_engine(kind)]
    init = canon.digest(engine_state(eng[0]))
    rebuilt = [0]

    saved = {}

    def reach(hist, want):
        """Bring the shared engine into the state reached by `hist`: restore the recorded mutable
        fields, else replay the history, else rebuild - the complete snapshot is compared every time."""
        if canon.digest(engine_state(eng[0])) == want:
            return
        if want in saved:
            restore_state(eng[0], saved[want])
            if canon.digest(engine_state(eng[0])) == want:
                return
        for attempt in (0, 1):
            if attempt == 1:
                eng[0] = make_engine(kind)
                rebuilt[0] += 1
            for t in hist:
                parse_outcome(eng[0], t)
            if canon.digest(engine_state(eng[0])) == want:
                return
        raise AssertionError('history %r does not reproduce its state on a fresh engine' % (hist,))

    seen = {init: []}
    saved[init] = save_state(eng[0])
    full0 = canon.digest(engine_state(eng[0], full=True)[2])
    frontier = [[]]
    depth = 0
    while frontier and depth < max_depth:
        nxt = []
        for hist in frontier:
            for t in texts:
                reach(hist, _key_of(seen, hist))
                CURRENT_CASE[0] = {'kind': 'history', 'engine': kind, 'history': hist + [t]}
                obs = parse_outcome(eng[0], t)
                res.evaluations += 1
                res.transitions += 1
                if len(hist) >= 1:
                    res.nontrivial += 1
                exp = baseline(kind, t)
                res.outcomes['hist ' + obs[0] + ' ' + (obs[1] if obs[0] == 'exc' else 'tree')] += 1
                if obs != exp:
                    res.fail('history-dependent parse engine=%s' % kind,
                             {'kind': 'history', 'engine': kind, 'history': hist + [t]},
                             'after %r: parse of %r gave %r, fresh engine gives %r' % (hist, t, obs, exp))
                d = canon.digest(engine_state(eng[0]))
                if d not in seen:
                    seen[d] = hist + [t]
                    saved[d] = save_state(eng[0])
                    res.case(('hist', kind, tuple(hist + [t])))
                    nxt.append(hist + [t])
        frontier = nxt
        depth += 1
    if canon.digest(engine_state(eng[0], full=True)[2]) != full0:
        res.fail('grammar production table mutated by parsing engine=%s' % kind,
                 {'kind': 'history', 'engine': kind, 'history': []}, 'production table snapshot changed during the search')
    if frontier:
        res.caps.append('E2 %s: depth cap %d reached with %d unexplored states' % (kind, max_depth, len(frontier)))
    res.states += 1   # the initial state
    res.extra['e2_states_' + kind] = len(seen)
    res.extra['e2_depth_' + kind] = depth
    res.extra['e2_engine_rebuilds'] = rebuilt[0]
    res.sample({'engine': kind, 'history': max(seen.values(), key=len), 'states': len(seen)})
    return res


def _key_of(seen, hist):
    for d, h in seen.items():
        if h == hist:
            return d
    raise KeyError(hist)


# ---------------------------------------------------------------------------
# E1: schedules
# ---------------------------------------------------------------------------
_hooked = [False]


def install_hooks():
    if _hooked[0]:
        return
    _hooked[0] = True
    L = ply.lex.Lexer
    o_token, o_input, o_clone = L.token, L.input, L.clone

    def token(self):
        sched.point('token')
        return o_token(self)

    def input(self, s):
        sched.point('input')
        return o_input(self, s)

    def clone(self, object=None):
        sched.point('clone')
        return o_clone(self, object)
    L.token, L.input, L.clone = token, input, clone


def count_points(engine, text):
    n = [0]

    def body():
        return parse_outcome(engine, text)
    x = sched.Execution([body], [], None).go()
    return len(x.trace)


def n_interleavings(points):
    segs = [p + 1 for p in points]
    n = math.factorial(sum(segs))
    for s in segs:
        n //= math.factorial(s)
    return n


class _Stop(Exception):
    pass


def explore_group(res, kind, group, full_limit, bound_else, label):
    """group: tuple of thread programs; a program is a tuple of texts parsed one after the other."""
    install_hooks()
    eng = [make_engine(kind)]
    base = [tuple(baseline(kind, t) for t in prog) for prog in group]

    def mk(prog):
        def body():
            return tuple(parse_outcome(eng[0], t) for t in prog)
        return body
    bodies = [mk(p) for p in group]
    mode = {'fresh': False}

    def reset():
        # executions normally share one engine (a rebuild costs 0.15 s); after a replay divergence (parsing left
        # state on the engine that changes the trace of later executions) every execution gets a fresh engine
        if mode['fresh']:
            eng[0] = make_engine(kind)
    pts = [sum(count_points(eng[0], t) for t in prog) for prog in group]
    total = n_interleavings(pts)
    bound = None if total <= full_limit else bound_else
    CURRENT_CASE[0] = {'kind': 'schedule', 'engine': kind, 'threads': [list(p) for p in group]}
    stats = {'n': 0, 'bad': 0, 'pre': 0, 'unconfirmed': 0}
    vectors = set()
    history = []        # schedules run on eng[0] since it was built

    def check(x):
        stats['n'] += 1
        res.evaluations += 1
        res.transitions += len(x.choices)
        p = x.preemptions()
        if p:
            res.nontrivial += 1
        out = tuple(x.res)
        vectors.add(out)
        ok = all(x.res[i] == ('ok', base[i]) for i in range(len(group)))
        if not ok:
            stats['bad'] += 1
            # confirm on a fresh engine, twice, before believing it
            r1 = replay_schedule(kind, group, x.choices)
            r2 = replay_schedule(kind, group, x.choices)
            if r1 != r2:
                raise AssertionError('schedule replay not deterministic: %r vs %r' % (r1, r2))
            if any(r1[i] != ('ok', base[i]) for i in range(len(group))):
                res.fail('cross-thread parse interference engine=%s threads=%d' % (kind, len(group)),
                         {'kind': 'schedule', 'engine': kind, 'threads': [list(p) for p in group],
                          'choices': list(x.choices)},
                         'schedule %r: results %r, alone %r' % (x.choices, r1, base),
                         size=len(x.choices) * 10 + sum(len(t) for p in group for t in p))
                raise _Stop()                # verdict is decided; do not pay 0.5 s per further violating schedule
            # not reproduced on a fresh engine: the interference needs what earlier executions left on the shared
            # engine.  Find the shortest suffix of the executions run on this engine that reproduces it.
            k = 1
            while True:
                prefix = history[-k:]
                try:
                    r3 = replay_schedule(kind, group, x.choices, prefix)
                except sched.Divergence:
                    r3 = None           # this suffix alone does not even follow the same points: take a longer one
                if r3 is not None and any(r3[i] != ('ok', base[i]) for i in range(len(group))):
                    if r3 != replay_schedule(kind, group, x.choices, prefix):
                        raise AssertionError('schedule replay with history not deterministic')
                    res.fail('cross-thread parse interference after earlier parses on the engine engine=%s threads=%d' % (kind, len(group)),
                             {'kind': 'schedule', 'engine': kind, 'threads': [list(p) for p in group],
                              'choices': list(x.choices), 'earlier': [list(c) for c in prefix]},
                             'after %d earlier executions of the same threads on the engine, schedule %r: results %r, alone %r'
                             % (len(prefix), x.choices, r3, base),
                             size=1000 * len(prefix) + len(x.choices) * 10 + sum(len(t) for p in group for t in p))
                    raise _Stop()
                if k >= len(history):
                    break
                k = min(2 * k, len(history))
            stats['unconfirmed'] += 1
            if stats['unconfirmed'] >= 5:
                res.fail('cross-thread parse interference not reproducible from a fresh engine engine=%s threads=%d' % (kind, len(group)),
                         {'kind': 'group', 'engine': kind, 'threads': [list(p) for p in group]},
                         'schedule %r gave %r (alone %r) on the engine shared by the executions of this group, but neither the '
                         'schedule alone nor the executions before it reproduce it on a fresh engine' % (x.choices, out, base))
                raise _Stop()
            eng[0] = make_engine(kind)       # state may be corrupt: never carry it over
            del history[:]
            return
        history.append(list(x.choices))
        if mode['fresh']:
            del history[:]
    try:
        try:
            n, capped = sched.explore(bodies, bound, check, reset=reset)
        except sched.Divergence as e:
            mode['fresh'] = True
            stats['n'] = 0
            res.notes.append('C01 group %r: replay diverged on the reused engine (%s); re-explored with a fresh engine per '
                             'execution, capped at 400 schedules' % (group, str(e)[:80]))
            n, capped = sched.explore(bodies, bound if bound is not None else 2, check, max_schedules=400, reset=reset)
            res.caps.append('group %r explored with fresh engines, capped at 400 schedules (bound %r)' % (group, bound))
    except _Stop:
        n = stats['n']
        res.caps.append('group %r stopped at its first confirmed violation after %d schedules' % (group, n))
    res.case((label, kind, group, bound))
    res.states += n - 1
    res.outcomes['%s schedules:%s' % (label, 'violating' if stats['bad'] else 'clean')] += n
    res.extra.setdefault('schedule_groups', []).append(
        {'threads': [list(p) for p in group], 'engine': kind, 'points': pts, 'all_interleavings': total,
         'bound': 'none' if bound is None else bound, 'schedules': n, 'violating': stats['bad'],
         'distinct_result_vectors': len(vectors)})
    if bound is not None:
        res.extra['groups_explored_with_preemption_bound'] = res.extra.get('groups_explored_with_preemption_bound', 0) + 1
    else:
        res.extra['groups_explored_exhaustively'] = res.extra.get('groups_explored_exhaustively', 0) + 1
    return n


def replay_schedule(kind, group, choices, earlier=()):
    """The schedule on a fresh engine, after the `earlier` schedules of the same threads on that engine."""
    install_hooks()
    eng = make_engine(kind)
    bodies = [(lambda prog=prog: tuple(parse_outcome(eng, t) for t in prog)) for prog in group]
    for c in earlier:
        sched.run_schedule(bodies, c)
    x = sched.run_schedule(bodies, choices)
    return list(x.res)


def job_schedules(kind, groups, full_limit, bound_else, label):
    res = Result()
    for g in groups:
        explore_group(res, kind, g, full_limit, bound_else, label)
    if res.extra.get('schedule_groups'):
        g = res.extra['schedule_groups'][0]
        res.sample(g)
    # keep the evidence small: only aggregate numbers survive the merge for large runs
    sg = res.extra.pop('schedule_groups', [])
    res.extra['schedules_total'] = sum(g['schedules'] for g in sg)
    res.extra['violating_schedules_total'] = sum(g['violating'] for g in sg)
    res.extra['max_distinct_result_vectors'] = 0
    res.extra['group_summaries'] = [
        '%s %s pts=%s all=%d bound=%s explored=%d vectors=%d' % (
            g['engine'], '||'.join(';'.join(p) for p in g['threads']), g['points'], g['all_interleavings'],
            g['bound'], g['schedules'], g['distinct_result_vectors']) for g in sg[:3]]
    return res


# ---------------------------------------------------------------------------
# line-granularity, preemption bound 1
# ---------------------------------------------------------------------------
def _filter(fn):
    return ('/yaql/' in fn) or ('/ply/' in fn)


def job_fine(kind, pairs, stride):
    res = Result()
    for ta, tb in pairs:
        eng = [make_engine(kind)]
        ba, bb = baseline(kind, ta), baseline(kind, tb)

        def body_a():
            return parse_outcome(eng[0], ta)

        def body_b():
            return parse_outcome(eng[0], tb)
        n = sched.count_line_events(body_a, _filter)
        CURRENT_CASE[0] = {'kind': 'fine', 'engine': kind, 'a': ta, 'b': tb}
        res.case(('fine', kind, ta, tb))
        for k in range(1, n + 1, stride):
            f = sched.FineExec(body_a, body_b, k, _filter).go()
            res.evaluations += 1
            res.transitions += 2
            res.states += 1
            res.nontrivial += 1
            if f.res[0] != ('ok', ba) or f.res[1] != ('ok', bb):
                # confirm on a fresh engine
                eng[0] = make_engine(kind)
                f2 = sched.FineExec(body_a, body_b, k, _filter).go()
                eng[0] = make_engine(kind)
                if f2.res[0] != ('ok', ba) or f2.res[1] != ('ok', bb):
                    res.fail('cross-thread parse interference (line granularity) engine=%s' % kind,
                             {'kind': 'fine', 'engine': kind, 'a': ta, 'b': tb, 'k': k},
                             'A=%r preempted at line event %d (%r), B=%r ran to completion: A->%r B->%r; alone A->%r B->%r'
                             % (ta, k, f2.where, tb, f2.res[0], f2.res[1], ba, bb), size=1000 + k)
                res.outcomes['fine violating'] += 1
            else:
                res.outcomes['fine clean'] += 1
        if stride != 1:
            res.caps.append('fine stride %d' % stride)
        res.extra['fine_line_events_max'] = max(res.extra.get('fine_line_events_max', 0), n)
    res.sample({'kind': 'fine', 'pairs': [list(p) for p in pairs[:2]]})
    return res


def job_fine_cold(kind, ta, tb, k_lo, k_hi):
    """Line-granularity single-preemption schedules on a FRESH engine per execution: thread A is preempted at its
    k-th line event while it performs the very first parse of the engine (lazily built tables, caches filled on
    first use), thread B parses to completion, A resumes."""
    res = Result()
    ba, bb = baseline(kind, ta), baseline(kind, tb)
    eng = [None]

    def body_a():
        return parse_outcome(eng[0], ta)

    def body_b():
        return parse_outcome(eng[0], tb)
    eng[0] = make_engine(kind)
    n = sched.count_line_events(body_a, _filter)
    res.case(('fine-cold', kind, ta, tb, k_lo))
    for k in range(max(1, k_lo), min(n, k_hi - 1) + 1):
        CURRENT_CASE[0] = {'kind': 'fine-cold', 'engine': kind, 'a': ta, 'b': tb, 'k': k}
        eng[0] = make_engine(kind)
        f = sched.FineExec(body_a, body_b, k, _filter).go()
        res.evaluations += 1
        res.transitions += 2
        res.states += 1
        res.nontrivial += 1
        if f.res[0] != ('ok', ba) or f.res[1] != ('ok', bb):
            eng[0] = make_engine(kind)
            f2 = sched.FineExec(body_a, body_b, k, _filter).go()
            if f2.res[0] != ('ok', ba) or f2.res[1] != ('ok', bb):
                res.fail('cross-thread parse interference on a fresh engine (line granularity) engine=%s' % kind,
                         {'kind': 'fine-cold', 'engine': kind, 'a': ta, 'b': tb, 'k': k},
                         'fresh engine, A=%r preempted at line event %d (%r), B=%r ran to completion: A->%r B->%r; alone A->%r B->%r'
                         % (ta, k, f2.where, tb, f2.res[0], f2.res[1], ba, bb), size=1000 + k)
            res.outcomes['fine-cold violating'] += 1
        else:
            res.outcomes['fine-cold clean'] += 1
    return res


def job_free_running(rounds):
    """SUPPLEMENTARY, never deciding (sampling is not this family's technique): three free-running threads parse on one
    engine under a 1 microsecond switch interval.  A mismatch is reported as a NOTE and counted in the evidence only."""
    import sys
    import threading
    res = Result()
    texts = ['1 + 2', 'a.b', "f(x, 'y')", 'false and not null or x in y', '[1, 2][0]', 'a b']
    base = {t: baseline('default', t) for t in texts}
    old = sys.getswitchinterval()
    sys.setswitchinterval(1e-6)
    bad = []
    try:
        for r in range(rounds):
            eng = make_engine('default') if r % 50 == 0 else eng
            outs = {}

            def body(i):
                t = texts[(r + i) % len(texts)]
                outs[i] = (t, parse_outcome(eng, t))
            ths = [threading.Thread(target=body, args=(i,)) for i in range(3)]
            for th in ths:
                th.start()
            for th in ths:
                th.join()
            for i, (t, o) in outs.items():
                if o != base[t]:
                    bad.append((r, t, o))
    finally:
        sys.setswitchinterval(old)
    res.extra['free_running_rounds_supplementary'] = rounds
    res.extra['free_running_mismatches_supplementary'] = len(bad)
    if bad:
        res.notes.append('C01 supplementary free-running pass: %d mismatching parses, e.g. %r (not deciding, not replayable)' % (len(bad), bad[0]))
    return res


def job_eval_path(texts):
    """The module-level yaql.eval path: shared cached engine and expression cache."""
    res = Result()
    install_hooks()
    import yaql as y
    for ta, tb in itertools.combinations_with_replacement(texts, 2):
        def mk(t):
            def body():
                try:
                    return ('ok', repr(y.eval(t, data={'a': {'b': 5}, 'x': 2})))
                except Exception as e:
                    return ('exc', type(e).__name__, str(e))
            return body
        cold = (ta, tb) == (texts[0], texts[1])   # one pair also races the lazy creation of the module-level engine

        def reset():
            if cold:
                y._cached_engine = None
            y._cached_expressions = {}
        y._cached_engine = None
        reset()
        base = [mk(ta)(), None]
        reset()
        base[1] = mk(tb)()
        stats = [0]

        def check(x):
            res.evaluations += 1
            res.transitions += len(x.choices)
            res.states += 1
            if x.preemptions():
                res.nontrivial += 1
            if [x.res[0], x.res[1]] != [('ok', base[0]), ('ok', base[1])]:
                stats[0] += 1
                res.fail('cross-thread interference via yaql.eval module cache',
                         {'kind': 'evalpath', 'a': ta, 'b': tb, 'choices': list(x.choices)},
                         'results %r alone %r' % (x.res, base), size=len(x.choices))
        res.case(('evalpath', ta, tb))
        try:
            sched.explore([mk(ta), mk(tb)], 1 if cold else 2, check, reset=reset)
        except sched.Divergence as e:
            # parsing left state on the cached module-level engine: give every execution a new one
            res.notes.append('C01 evalpath %r||%r: replay diverged (%s); re-explored with a fresh cached engine per execution, '
                             'capped at 100 schedules' % (ta, tb, str(e)[:80]))
            res.caps.append('evalpath %r||%r capped at 100 schedules with fresh engines' % (ta, tb))

            def reset_cold():
                y._cached_engine = None
                y._cached_expressions = {}
            sched.explore([mk(ta), mk(tb)], 1, check, max_schedules=100, reset=reset_cold)
        res.outcomes['evalpath ' + ('violating' if stats[0] else 'clean')] += 1
    return res


# ---------------------------------------------------------------------------
def jobs(tier, seed):
    out = []
    quick = tier == 'quick'
    texts = TEXTS_Q if quick else TEXTS_T
    for kind in KINDS:
        out.append(('hist-' + kind, 'job_histories', (kind, texts, 4 if quick else 5)))
    e1 = E1_TEXTS_Q if quick else E1_TEXTS_T
    pairs = [((a,), (b,)) for a, b in itertools.combinations_with_replacement(e1, 2)]
    full_limit = 4000 if quick else 400000
    nshard = 24 if quick else 48
    for i in range(nshard):
        part = pairs[i::nshard]
        if part:
            out.append(('pairs-%02d' % i, 'job_schedules', ('default', part, full_limit, 3 if quick else 4, 'pair')))
    trip = [tuple((t,) for t in m) for m in itertools.combinations_with_replacement(E1_TRIPLE_Q if quick else E1_TRIPLE_Q + ['1 +', '$'], 3)]
    for i in range(8):
        part = trip[i::8]
        if part:
            out.append(('triples-%d' % i, 'job_schedules', ('default', part, 3000 if quick else 60000, 2 if quick else 3, 'triple')))
    # other engine kinds: a small pair set
    for kind in ('delegates', 'legacy'):
        part = [((a,), (b,)) for a, b in (('1 + 2', 'a.b'), ('f(x)', 'a b'), ('1', '1'))]
        out.append(('pairs-' + kind, 'job_schedules', (kind, part, full_limit, 3, 'pair')))
    # the per-call options path engine(text, options), alone and mixed with plain calls
    optpairs = [((OPT + a,), (OPT + b,)) for a, b in (('1 + 2', 'a.b'), ('f(x)', 'a b'), ('1', '1'))] + \
        [((OPT + '1 + 2',), ('a.b',)), ((OPT + 'a b',), ('f(x)',))]
    for i, g in enumerate(optpairs):
        out.append(('pairs-options-%d' % i, 'job_schedules', ('default', [g], full_limit, 3, 'pair-options')))
    # long integer literals on both sides (conversion limits are process-global interpreter state)
    big = [(('9' * 4301 + ' + 1',), ('8' * 4302,)), (('7' * 4300,), ('9' * 4301,))]
    for i, g in enumerate(big):
        out.append(('pairs-bigint-%d' % i, 'job_schedules', ('default', [g], full_limit, 3, 'pair-bigint')))
    # two-text thread bodies (history x schedule), bounded
    seqs = [(('1 #', 'a.b'), ('1 + 2',)), (('a b', '1'), ("'s'", ')')), (('1', '1'), ('1', 'a'))]
    if not quick:
        seqs += [((a, b), (c,)) for a in ('1 #', 'a b', '1') for b in ('a.b', '1 + 2') for c in ('f(x)', "'abc")]
    for i, s in enumerate(seqs):
        out.append(('seq-%d' % i, 'job_schedules', ('default', [s], 3000, 2 if quick else 3, 'seq')))
    fine_pairs = [('1 + 2', 'a.b'), ('a.b', '1 + 2'), ('a b', 'f(x)'), ('9' * 4301, '8' * 4302), (OPT + '1 + 2', OPT + 'a.b')] if quick else \
        [('9' * 4301, '8' * 4302), (OPT + '1 + 2', OPT + 'a.b'), (OPT + 'a b', '1 + 2')] + \
        [(a, b) for a in E1_TEXTS_T[:12] for b in E1_TEXTS_T[:12]]
    nf = 5 if quick else 36
    for i in range(nf):
        part = fine_pairs[i::nf]
        if part:
            out.append(('fine-%02d' % i, 'job_fine', ('default', part, 1)))
    cold = [('false and not null or x in y', 'true or null')] if quick else \
        [('false and not null or x in y', 'true or null'), ('true or null', 'false and not null or x in y'),
         ('1 + 2', 'a.b'), ('f(x)', "'s'"), ('a b', '1 mod 2'), ('[1]', '{a => b}')]
    for ci, (ta, tb) in enumerate(cold):
        e0 = make_engine('default')
        n = sched.count_line_events(lambda: parse_outcome(e0, ta), _filter)
        step = 60
        for lo in range(1, n + 1, step):
            out.append(('fine-cold-%d-%05d' % (ci, lo), 'job_fine_cold', ('default', ta, tb, lo, lo + step)))
    if not quick:
        out.append(('free-running-supplementary', 'job_free_running', (3000,)))
    out.append(('evalpath', 'job_eval_path', (['$.a.b', '$.x + 1', '1 +'] if quick else ['$.a.b', '$.x + 1', '1 +', '[$.x]', 'a b'],)))
    return out


def replay(case):
    k = case['kind']
    if k == 'history':
        eng = make_engine(case['engine'])
        outs = [parse_outcome(eng, t) for t in case['history']]
        exp = baseline(case['engine'], case['history'][-1])
        return {'observed': repr(outs[-1]), 'expected': repr(exp), 'ok': outs[-1] == exp}
    if k == 'schedule':
        group = [tuple(p) for p in case['threads']]
        r = replay_schedule(case['engine'], group, case['choices'], case.get('earlier') or ())
        exp = [('ok', tuple(baseline(case['engine'], t) for t in p)) for p in group]
        return {'observed': repr(r), 'expected': repr(exp), 'ok': r == exp}
    if k == 'fine-cold':
        r = job_fine_cold(case['engine'], case['a'], case['b'], case['k'], case['k'] + 1)
        return {'observed': [f.detail for f in r.failures.values()], 'expected': 'both parses as on a fresh engine', 'ok': not r.failures}
    if k == 'fine':
        eng = make_engine(case['engine'])
        f = sched.FineExec(lambda: parse_outcome(eng, case['a']), lambda: parse_outcome(eng, case['b']),
                           case['k'], _filter).go()
        exp = [('ok', baseline(case['engine'], case['a'])), ('ok', baseline(case['engine'], case['b']))]
        return {'observed': repr(f.res), 'expected': repr(exp), 'where': repr(f.where), 'ok': f.res == exp}
    return {'ok': False, 'observed': 'replay of %s cases: run the check' % k}
