"""Reference model of YAQL overload resolution (properties C05, C06).

Written from doc/source/extending_yaql.rst "Function resolution rules"
(steps 1-8, cited below as R1..R8), language_reference.rst ("Positional
parameters can be skipped if they have a default value", "keyword arguments
... must match the parameter name in the function declaration") and the
property statement.  Imports nothing from yaql.

Descriptions (plain hashable tuples):

  parameter  (name, kind, type, nullable, has_default)
             name      the name callers use for it (the convention alias)
             kind      'pos' | 'varargs' | 'kwonly' | 'varkw' | 'hidden'
             type      a class name of the lattice, 'Any', 'Lazy' (Lambda), 'Rule' (MappingRule:
                       lazy, accepts only `name => expr`), or for hidden parameters 'Engine' | 'Context' |
                       'Super/<None|True|False>/<arg|noarg>': the payload calls its base implementation
                       (see resolve) with its first argument / without arguments and returns that result
  overload   (tag, parameters, kind, no_kwargs)     kind 'function' | 'method' | 'ext'
  layer      (exclusive, overloads)                 layers are listed nearest first
  item       ('var', v)          eager expression whose value is the lattice value v
             ('val', v)          the value v itself (a method receiver)
             ('const', c)        literal constant (None = null)
             SKIP                empty slot
             ('rule', name, item)   `name => item` as handed to a no_kwargs function
  call       (receiver item | None, positional items, ((keyword, item), ...))

resolve() returns (outcome, evaluated, binding):
  outcome    ('run', tag) | ('error', UNKNOWN|NOMATCH|AMBIGUOUS, 'function'|'method')
  evaluated  keys (position / keyword) of the eager arguments evaluated, in order
  binding    for 'run': ((parameter name, what the payload received), ...)

`relaxed` names documented rules that are switched off; the drivers use it only
to name the mechanism of a disagreement (never to accept it).
"""

SKIP = 'SKIP'
LAZY = ('Lazy', 'Rule')                   # parameter types that keep their argument unevaluated
UNKNOWN, NOMATCH, AMBIGUOUS = 'unknown', 'nomatch', 'ambiguous'

# rules that can be switched off
SKIP_INTO_VARARGS = 'skip-into-varargs'   # a skipped slot may be absorbed by *args (no default needed)
KEYWORD_UNCHECKED = 'keyword-unchecked'   # constants bound by keyword to a declared parameter are not checked before evaluation
SINGLE_PASS = 'single-pass'               # the winner is chosen in one left-to-right pass over the enumeration order
MARKER = ('const', '<NoValue>')           # with SKIP_INTO_VARARGS: the empty slot itself travels as a value
ABSORBED = ('const', '<NoValue>', 'absorbed')   # ... or is dropped when the parameter also comes by keyword


class Lattice(object):
    """Classes below 'Any' (multiple inheritance allowed); a value is an
    instance of exactly one class, or null (class None).  A union type
    (PythonType with a tuple of classes) accepts what any member accepts and is
    neither more nor less specific than anything."""

    def __init__(self, parents, values, unions=None):
        self.values = dict(values)
        self.unions = dict(unions or {})
        self.ancestors = {'Any': frozenset()}
        for c in parents:
            seen, todo = set(['Any']), [c]
            while todo:
                for p in parents.get(todo.pop(), ()):
                    if p not in seen:
                        seen.add(p)
                        todo.append(p)
            self.ancestors[c] = frozenset(seen)

    def strict_sub(self, t1, t2):
        return t2 in self.ancestors.get(t1, ())

    def accepts(self, ptype, nullable, vname):
        cls = self.values[vname]
        if cls is None:
            return nullable
        if ptype in self.unions:
            return any(m == cls or self.strict_sub(cls, m) for m in self.unions[ptype])
        return ptype == cls or self.strict_sub(cls, ptype)


def python_spelling(name):
    """Parameters are declared in python spelling and called by their convention
    alias (extending_yaql.rst, "Naming conventions": arg_name -> argName)."""
    return ''.join('_' + ch.lower() if ch.isupper() else ch for ch in name)


def bind(params, args, kwargs, relaxed=()):
    """R3: can the overload be called by the given syntax?  Python-like binding
    with hidden parameters removed.  -> [(key, parameter, item)] or None."""
    pos = [p for p in params if p[1] == 'pos']
    varargs = next((p for p in params if p[1] == 'varargs'), None)
    kwonly = [p for p in params if p[1] == 'kwonly']
    varkw = next((p for p in params if p[1] == 'varkw'), None)
    kwargs = dict(kwargs)
    mapping = []
    absorbed = set()
    for i, a in enumerate(args):
        if i < len(pos):
            p = pos[i]
            if a == SKIP:
                if SKIP_INTO_VARARGS in relaxed and varargs is not None and p[0] in kwargs:
                    absorbed.add(i)
                    mapping.append((i, varargs, ABSORBED))
                    continue
                if p[0] in kwargs or not p[4]:
                    return None          # a skipped slot takes the default: needs one, and no second value
            elif p[0] in kwargs:
                return None              # two values for one parameter
            mapping.append((i, p, a))
        else:
            if varargs is None:
                return None              # too many positional arguments
            if a == SKIP:
                if SKIP_INTO_VARARGS not in relaxed:
                    return None          # *args has no default to fall back to
                a = MARKER
            mapping.append((i, varargs, a))
    for i, p in enumerate(pos):
        if i >= len(args) or i in absorbed:
            if p[0] in kwargs:
                mapping.append((p[0], p, kwargs.pop(p[0])))
            elif not p[4]:
                return None              # mandatory parameter not supplied
    for p in kwonly:
        if p[0] in kwargs:
            mapping.append((p[0], p, kwargs.pop(p[0])))
        elif not p[4]:
            return None
    for k, v in kwargs.items():
        if varkw is None:
            return None                  # keyword name that no parameter has
        if any(python_spelling(p[0]) == k for p in params):
            return None                  # ... nor can **kwargs carry the python spelling of a declared parameter
        mapping.append((k, varkw, v))
    return mapping


def _value_ok(lat, p, item):
    """Does the value of item satisfy parameter p?"""
    if item == SKIP:
        return True                      # the default (the space only has type-correct defaults)
    if item[0] == 'const':
        if item[1] is None:
            return p[3]
        return p[2] == 'Any'             # 1, 'k', kw are instances of no lattice class
    if item[0] == 'rule':
        return p[2] == 'Any'             # a mapping-rule object
    return lat.accepts(p[2], p[3], item[1])


def static_ok(lat, mapping, relaxed=()):
    """Type check of what is known before evaluation: constants, null, and a
    value (the receiver is one when the method call is resolved)."""
    for key, p, item in mapping:
        if p[2] == 'Rule' and (item == SKIP or item[0] != 'rule'):
            return False                 # a mapping rule is recognised by its syntax
        if p[2] in LAZY or item == SKIP or item[0] not in ('const', 'val'):
            continue
        if KEYWORD_UNCHECKED in relaxed and not isinstance(key, int) and p[1] != 'varkw':
            continue
        if not _value_ok(lat, p, item):
            return False
    return True


def dynamic_ok(lat, mapping):
    """R5: the evaluated values are validated by the smart-type of each parameter."""
    return all(p[2] in LAZY or _value_ok(lat, p, item) for key, p, item in mapping)


def more_specific(lat, m1, m2):
    """m1 is a strict specialisation of m2: per supplied argument never less
    specific, at least once more specific.  Lazy parameters do not compare."""
    d2 = dict((k, p) for k, p, a in m2)
    res = False
    for k, p1, a in m1:
        t1, t2 = p1[2], d2[k][2]
        if t1 in LAZY or t2 in LAZY:
            continue
        if lat.strict_sub(t2, t1):
            return False
        if lat.strict_sub(t1, t2):
            res = True
    return res


def _label(lat, p, item):
    if p[2] in LAZY:
        return p[2].lower()
    if item == MARKER:
        return '<NoValue>'
    if item[0] in ('var', 'val'):
        return item[1] if lat.values[item[1]] is not None else 'null'
    if item[0] == 'rule':
        return 'rule'
    return 'null' if item[1] is None else repr(item[1])


def binding(lat, params, mapping):
    """What the payload receives, parameter by parameter (hidden ones included).
    An unsupplied or skipped parameter receives 'default' (null for a lazy one)."""
    out = []
    for p in params:
        mine = [(k, a) for k, q, a in mapping if q == p and a != ABSORBED]
        if p[1] == 'hidden':
            v = p[2].split('/')[0].lower()
        elif p[1] == 'varargs':
            v = tuple(_label(lat, p, a) for k, a in mine)
        elif p[1] == 'varkw':
            v = tuple(sorted((k, _label(lat, p, a)) for k, a in mine))
        elif not mine or mine[0][1] == SKIP:
            v = 'null' if p[2] == 'Lazy' else 'default'
        else:
            v = _label(lat, p, mine[0][1])
        out.append((p[0], v))
    return tuple(out)


def winner(lat, ok, relaxed=()):
    """R7 refined by specificity: the single candidate that is a strict
    specialisation of every other one, else None (ambiguous)."""
    if SINGLE_PASS in relaxed:
        best = ok[0]
        for x in ok[1:]:
            if more_specific(lat, best[1], x[1]):
                continue
            if not more_specific(lat, x[1], best[1]):
                return None
            best = x
        return best
    win = [x for x in ok if all(x is y or more_specific(lat, x[1], y[1]) for y in ok)]
    return win[0] if len(win) == 1 else None


def resolve(lat, layers, call, relaxed=()):
    """Resolution of the call, followed - when the overload that runs takes a
    Super hidden parameter - by the resolution of its base call.  yaqltypes.Super
    (docstring in extending_yaql.rst: "injects callable to an overload of itself
    from the parent context"): the base call is resolved from the parent of the
    layer that holds the running overload; method=None keeps the receiver (and
    hence the call kind) of the current call, True takes the first argument as
    the new receiver, False forces a function call.  Arguments of the base call
    are values."""
    outcome, evaluated, bound = resolve_once(lat, layers, call, relaxed)
    if outcome[0] != 'run':
        return outcome, evaluated, bound
    for depth, (exclusive, overloads) in enumerate(layers):
        for o in overloads:
            sup = [p[2] for p in o[1] if p[1] == 'hidden' and p[2].startswith('Super/')]
            if o[0] == outcome[1] and sup:
                variant, mode = sup[0].split('/')[1:]
                first = call[0] if call[0] is not None else call[1][0]
                value = first if first[0] == 'const' else ('val', first[1])
                args = (value,) if mode == 'arg' else ()
                recv = call[0]
                if variant == 'True':
                    recv, args = args[0], args[1:]
                elif variant == 'False':
                    recv = None
                inner, _, inner_bound = resolve(lat, layers[depth + 1:], (recv, args, ()), relaxed)
                if inner[0] != 'run':
                    return inner, evaluated, None
                return ('run', o[0] + '>' + inner[1]), evaluated, inner_bound
    return outcome, evaluated, bound


def resolve_once(lat, layers, call, relaxed=()):
    recv, args, kwargs = call
    flavour = 'function' if recv is None else 'method'
    want = ('function', 'ext') if recv is None else ('method', 'ext')      # R1: kind by call syntax
    collected = []
    for exclusive, overloads in layers:                                    # R2: nearest first,
        sel = [o for o in overloads if o[2] in want]
        if sel:
            collected.append(sel)
        if exclusive:                                                      # nothing behind an exclusive layer
            break
    if not collected:
        return ('error', UNKNOWN, flavour), (), None
    flags = set(o[3] for layer in collected for o in layer)
    if len(flags) > 1:
        return ('error', AMBIGUOUS, flavour), (), None                     # keyword syntax must mean one thing
    eff = (() if recv is None else (recv,)) + tuple(args)
    if True in flags:                                                      # @no_kwargs: `name => v` is an ordinary argument
        eff += tuple(('rule', k, v) for k, v in kwargs)
        kwargs = ()
    surviving, laziness = [], set()
    for layer in collected:
        s = []
        for o in layer:
            m = bind(o[1], eff, kwargs, relaxed)                           # R3
            if m is None or not static_ok(lat, m, relaxed):
                continue
            laziness.add(frozenset(k for k, p, a in m if p[2] in LAZY))
            s.append((o, m))
        if s:
            surviving.append(s)
    if not surviving:
        return ('error', NOMATCH, flavour), (), None
    if len(laziness) > 1:                                                  # R4, over all layers
        return ('error', AMBIGUOUS, flavour), (), None
    lazy = next(iter(laziness))
    evaluated = tuple(_probe(k, a) for k, a in list(enumerate(eff)) + list(kwargs)   # R5: once, left to right
                      if k not in lazy and _probe(k, a) is not None)
    for layer in surviving:                                                # R5/R6: first non-empty layer
        ok = [(o, m) for o, m in layer if dynamic_ok(lat, m)]
        if not ok:
            continue
        best = winner(lat, ok, relaxed)
        if best is None:
            return ('error', AMBIGUOUS, flavour), evaluated, None
        return ('run', best[0][0]), evaluated, binding(lat, best[0][1], best[1])  # R8
    return ('error', NOMATCH, flavour), evaluated, None


def _probe(key, item):
    """The key under which the evaluation of an argument is observable: its
    position / keyword; for `name => expr` the keyword of the inner expression;
    None for constants, values and empty slots (nothing to evaluate)."""
    if item != SKIP and item[0] == 'rule':
        return _probe(item[1], item[2])
    return key if item != SKIP and item[0] == 'var' else None


def valid_method(params):
    """A method needs a first visible positional (or *args) parameter that is
    not lazy: the receiver is bound to it (rejected at registration otherwise)."""
    for p in params:
        if p[1] in ('pos', 'varargs'):
            return p[2] not in LAZY
    return False


def registered(history):
    """What a history of registration attempts leaves visible.

    history    layers nearest first; each layer is the sequence of attempts
               (overload, exclusive) made on that context, in the order made.
    An attempt to register a method / extension method that cannot be called as
    a method (valid_method) is rejected and changes NOTHING: the overload is not
    visible and the layer is not marked exclusive by it ("the overloads visible
    for a name" are the ones whose registration succeeded).  A layer is
    exclusive when an accepted registration asked for it.
    -> (layers as resolve() takes them, ((layer index, attempt index), ...) of the rejected attempts)"""
    layers, rejected = [], []
    for li, attempts in enumerate(history):
        accepted = []
        for ai, (o, exclusive) in enumerate(attempts):
            if o[2] != 'function' and not valid_method(o[1]):
                rejected.append((li, ai))
            else:
                accepted.append((o, exclusive))
        layers.append((any(e for o, e in accepted), tuple(o for o, e in accepted)))
    return tuple(layers), tuple(rejected)
