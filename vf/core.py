"""Shared runner: jobs -> 16 forked workers -> merged result -> findings,
replay files, evidence, exit code.

A property driver (props/cNN.py) exposes

    ID            'C15'
    TITLE         short text
    def jobs(tier, seed)   -> list of (label, funcname, args) ; args picklable
    def replay(case)       -> dict(observed=..., expected=..., ok=bool)   (re-executes one case)
    RULE          text: how cases are enumerated / what counts as non-trivial
    ASSUMPTIONS   list of strings

and job functions   f(*args) -> Result.

The verdict never depends on VERIF_SEED: the seed only rotates the order in
which jobs are handed to workers and which cases are kept as samples.
"""
import collections
import hashlib
import importlib
import json
import multiprocessing
import os
import signal
import sys
import time
import traceback

VERIF = os.path.realpath(os.path.join(os.path.dirname(__file__), '..'))
NPROC = int(os.environ.get('VERIF_NPROC', '16'))


class Failure(object):
    """One violating case.  key names the failing site / input class."""
    __slots__ = ('key', 'case', 'detail', 'size')

    def __init__(self, key, case, detail, size=None):
        self.key = key
        self.case = case
        self.detail = detail
        self.size = size if size is not None else len(json.dumps(case, default=repr))

    def as_dict(self):
        return {'key': self.key, 'case': self.case, 'detail': self.detail}


class Result(object):
    """What one job covered.  All numbers are counted, never assumed."""

    def __init__(self):
        self.evaluations = 0          # executions of the implementation
        self.states = 0               # distinct states / cases visited
        self.transitions = 0          # steps taken on the implementation
        self.nontrivial = 0           # distinct cases that are non-trivial by the driver's rule
        self.out_of_domain = 0        # enumerated but not judged
        self.outcomes = collections.Counter()
        self.failures = {}            # key -> smallest Failure
        self.failure_counts = collections.Counter()
        self.samples = []
        self.caps = []                # caps hit -> run is not exhaustive
        self.notes = []
        self.extra = {}               # driver-specific measured numbers (summed if int)
        self._x = 0

    # -- recording -----------------------------------------------------------
    def case(self, ident):
        """Register one enumerated case in the case-set digest."""
        d = hashlib.blake2b(repr(ident).encode('utf-8', 'backslashreplace'),
                            digest_size=8).digest()
        self._x ^= int.from_bytes(d, 'big')
        self.states += 1

    def fail(self, key, case, detail, size=None):
        f = Failure(key, case, detail, size)
        self.failure_counts[key] += 1
        old = self.failures.get(key)
        if old is None or f.size < old.size:
            self.failures[key] = f

    def sample(self, s, limit=4):
        if len(self.samples) < limit:
            self.samples.append(s)

    def merge(self, other):
        self.evaluations += other.evaluations
        self.states += other.states
        self.transitions += other.transitions
        self.nontrivial += other.nontrivial
        self.out_of_domain += other.out_of_domain
        self.outcomes.update(other.outcomes)
        for k, f in other.failures.items():
            old = self.failures.get(k)
            if old is None or f.size < old.size:
                self.failures[k] = f
        self.failure_counts.update(other.failure_counts)
        self.samples.extend(other.samples)
        self.caps.extend(other.caps)
        self.notes.extend(other.notes)
        for k, v in other.extra.items():
            if isinstance(v, (int, float)) and not isinstance(v, bool):
                self.extra[k] = self.extra.get(k, 0) + v
            elif isinstance(v, list):
                self.extra.setdefault(k, []).extend(v)
            elif isinstance(v, dict):
                d = self.extra.setdefault(k, {})
                for kk, vv in v.items():
                    if isinstance(vv, (int, float)):
                        d[kk] = d.get(kk, 0) + vv
                    else:
                        d[kk] = vv
            else:
                self.extra[k] = v
        self._x ^= other._x


class HarnessTimeout(BaseException):
    pass


CURRENT_CASE = [None]     # a job may park the case being executed here (for timeouts)


def _alarm(signum, frame):
    raise HarnessTimeout()


class CaseTimeout(BaseException):
    """One case exceeded its own wall-clock limit (see case_limit)."""


class case_limit(object):
    """Context manager: raise CaseTimeout inside the block if it runs longer than `seconds` of wall clock.
    Used only where termination itself is the property and no step counter (horizon) can be placed: the limit is
    orders of magnitude above the normal cost of a case.  The job-level alarm is suspended and re-armed."""

    def __init__(self, seconds):
        self.seconds = seconds

    def __enter__(self):
        self.t0 = time.time()
        self.old_handler = signal.getsignal(signal.SIGALRM)
        self.remaining = signal.getitimer(signal.ITIMER_REAL)[0]

        def fire(signum, frame):
            raise CaseTimeout()
        signal.signal(signal.SIGALRM, fire)
        signal.setitimer(signal.ITIMER_REAL, self.seconds)
        return self

    def __exit__(self, et, ev, tb):
        signal.setitimer(signal.ITIMER_REAL, 0)
        signal.signal(signal.SIGALRM, self.old_handler)
        if self.remaining:
            left = max(1.0, self.remaining - (time.time() - self.t0))
            signal.setitimer(signal.ITIMER_REAL, left)
        return False


def _run_job(spec):
    modname, label, funcname, args, limit = spec
    t0 = time.time()
    try:
        mod = importlib.import_module(modname)
        fn = getattr(mod, funcname)
        signal.signal(signal.SIGALRM, _alarm)
        signal.alarm(limit)
        try:
            res = fn(*args)
        finally:
            signal.alarm(0)
        if not isinstance(res, Result):
            raise TypeError('job %s returned %r' % (label, type(res)))
        res.extra.setdefault('job_wall', {})[label] = round(time.time() - t0, 2)
        return ('ok', label, res)
    except HarnessTimeout:
        return ('timeout', label, repr(CURRENT_CASE[0]))
    except BaseException:
        return ('error', label, traceback.format_exc() + '\ncase: %r' % (CURRENT_CASE[0],))


def load_known(pid):
    path = os.path.join(VERIF, 'known_findings.json')
    if not os.path.exists(path):
        return []
    with open(path) as f:
        data = json.load(f)
    return [e for e in data.get('findings', []) if e.get('property') == pid]


WORKER_MEMORY = 3 * 2 ** 30


def _limit_memory():
    """A case that allocates without bound must end in MemoryError inside its own job, not take the machine (and the
    other workers) with it: 16 workers x 3 GB stay below the memory of the machine."""
    import resource
    soft, hard = resource.getrlimit(resource.RLIMIT_AS)
    if soft == resource.RLIM_INFINITY or soft > WORKER_MEMORY:
        resource.setrlimit(resource.RLIMIT_AS, (WORKER_MEMORY, hard))


def run_jobs(modname, joblist, seed, job_limit):
    specs = [(modname, label, fn, args, job_limit) for (label, fn, args) in joblist]
    if specs:
        r = seed % len(specs)
        order = specs[r:] + specs[:r]
    else:
        order = []
    total = Result()
    errors = []
    if NPROC <= 1 or len(order) <= 1:
        outs = [_run_job(s) for s in order]
    else:
        ctx = multiprocessing.get_context('fork')
        with ctx.Pool(min(NPROC, len(order)), initializer=_limit_memory) as pool:
            it = pool.imap_unordered(_run_job, order, 1)
            outs = []
            for _ in range(len(order)):
                try:
                    outs.append(it.next(timeout=job_limit + 120))
                except multiprocessing.TimeoutError:
                    # no job finished although every running job is past its own limit: a worker process was
                    # killed (its job is lost to the pool) or hangs where no signal reaches it
                    done = set(o[1] for o in outs)
                    for spec in order:
                        if spec[1] not in done:
                            outs.append(('lost', spec[1], 'no result: the worker process died or hung (for example killed for '
                                                          'running out of memory); the jobs still queued behind it were not run'))
                    break
    outs.sort(key=lambda o: o[1])
    for status, label, payload in outs:
        if status == 'ok':
            total.merge(payload)
        else:
            errors.append((status, label, payload))
    return total, errors


def main(modname, argv):
    mod = importlib.import_module(modname)
    pid = mod.ID
    if len(argv) >= 2 and argv[0] == '--replay':
        with open(argv[1]) as f:
            rec = json.load(f)
        out1 = mod.replay(rec['case'])
        out2 = mod.replay(rec['case'])
        print(json.dumps({'first': out1, 'second': out2,
                          'deterministic': out1 == out2}, indent=1, default=repr))
        return 0 if out1.get('ok') else 1
    tier = argv[0] if argv else os.environ.get('VERIF_TIER', 'quick')
    if tier not in ('quick', 'thorough'):
        print('usage: check <ID> quick|thorough | --replay file')
        return 2
    seed = int(os.environ.get('VERIF_SEED', '0') or 0)
    t0 = time.time()
    joblist = mod.jobs(tier, seed)
    limit = getattr(mod, 'JOB_LIMIT', {}).get(tier, 900 if tier == 'quick' else 7200)
    total, errors = run_jobs(modname, joblist, seed, limit)
    if hasattr(mod, 'finish'):
        mod.finish(total, tier)
    wall = time.time() - t0

    known = load_known(pid)
    open_keys = {e['key']: e for e in known if e.get('status') == 'open'}
    rc = 0
    lines = []
    for status, label, payload in errors:
        # a crash or hang of the harness on some case is never silently ignored
        key = 'harness-%s job=%s' % (status, label)
        total.fail(key, {'job': label}, payload[-4000:])
    viol = 0
    matched_open = set()
    # runs against a scratch copy of the repository (mutant testing) never touch the real evidence
    scratch = os.path.realpath(os.environ.get('YAQL_VERIF_REPO', '/repo')) != '/repo'
    outroot = os.path.join(VERIF, '.scratch') if scratch else VERIF
    rdir = os.path.join(outroot, 'replays', pid)
    def _order(k):
        size = total.failures[k].size
        return (0, (size,), k) if not isinstance(size, tuple) else (1, size, k)
    for key in sorted(total.failures, key=_order):
        f = total.failures[key]
        if key in open_keys:
            matched_open.add(key)
            continue
        os.makedirs(rdir, exist_ok=True)
        name = hashlib.sha1(key.encode()).hexdigest()[:12] + '.json'
        path = os.path.join(rdir, name)
        with open(path, 'w') as fh:
            json.dump({'property': pid, 'key': key, 'case': f.case,
                       'detail': f.detail, 'count': total.failure_counts[key],
                       'tier': tier, 'seed': seed}, fh, indent=1, default=repr)
        lines.append('VIOLATION property=%s replay=%s' % (pid, path))
        lines.append('  key: %s   (cases with this key: %d)' % (key, total.failure_counts[key]))
        lines.append('  detail: %s' % (str(f.detail)[:600],))
        viol += 1
        rc = 1
    for key, e in sorted(open_keys.items()):
        tag = '' if key in matched_open else ' [not reached by this tier]'
        lines.append('KNOWN-FINDING: property=%s %s (key: %s; cases: %d)%s'
                     % (pid, e.get('what', ''), key, total.failure_counts.get(key, 0), tag))

    exhaustive = not total.caps and not errors
    cov = {
        'states': total.states,
        'transitions': total.transitions,
        'traces_validated_against_impl': total.evaluations,
        'evaluations': total.evaluations,
        'distinct_nontrivial': total.nontrivial,
        'rule': mod.RULE,
        'samples': rotate(total.samples, seed)[:12] or ['(no sample recorded)'],
        'exhaustive': exhaustive,
        'outcome_histogram': dict(total.outcomes.most_common(40)),
        'distinct_outcomes': len(total.outcomes),
        'out_of_domain': total.out_of_domain,
        'caps_hit': total.caps,
        'case_set_digest': '%016x' % total._x,
        'jobs': len(joblist),
        'bounds': getattr(mod, 'BOUNDS', {}).get(tier, ''),
        'known_findings_matched': sorted(matched_open),
        'failure_keys': {k: total.failure_counts[k] for k in total.failures},
        'notes': total.notes[:40],
    }
    for k, v in total.extra.items():
        cov.setdefault(k, v)
    ev = {
        'property_id': pid,
        'tier': tier,
        'seed': seed,
        'level': 'model_checking',
        'coverage': cov,
        'assumptions': list(getattr(mod, 'ASSUMPTIONS', [])),
        'wall_s': round(wall, 2),
        'violations': viol,
    }
    os.makedirs(os.path.join(outroot, 'evidence'), exist_ok=True)
    evp = os.path.join(outroot, 'evidence', pid + '.json')
    tmp = evp + '.tmp%d' % os.getpid()
    with open(tmp, 'w') as fh:
        json.dump(ev, fh, indent=1, default=repr, sort_keys=True)
    os.replace(tmp, evp)

    print('%s %s tier=%s seed=%d: states=%d transitions=%d executions=%d nontrivial=%d '
          'distinct_outcomes=%d out_of_domain=%d exhaustive=%s wall=%.1fs'
          % (pid, getattr(mod, 'TITLE', ''), tier, seed, total.states, total.transitions,
             total.evaluations, total.nontrivial, len(total.outcomes), total.out_of_domain,
             exhaustive, wall))
    for n in total.notes[:10]:
        print('NOTE', n)
    for ln in lines:
        print(ln)
    if rc == 0:
        print('OK property=%s held on everything explored' % pid)
    sys.stdout.flush()
    return rc


def rotate(lst, seed):
    if not lst:
        return lst
    r = seed % len(lst)
    return lst[r:] + lst[:r]


def chunks(seq, n):
    """Split a list into n nearly equal consecutive chunks (stable)."""
    seq = list(seq)
    n = max(1, min(n, len(seq) or 1))
    k, m = divmod(len(seq), n)
    out = []
    i = 0
    for j in range(n):
        sz = k + (1 if j < m else 0)
        out.append(seq[i:i + sz])
        i += sz
    return out
