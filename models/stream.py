"""Reference model of yaql's streaming operators (property C14).

Each operator of the property's list is a Python generator over an iterator
that pulls from its input only when the next result needs it - the *minimal*
consumption.  Running a pipeline of these generators over a CountingSource and
taking its first k results gives the number of source elements and of lambda
applications those k results require; the implementation may use at most one
more of each (statement of C14).  Imports nothing from yaql; lambdas, truth and
equality are those of models/colls.py.
"""
import itertools

from models import colls as M


class ModelHorizon(Exception):
    """The model itself needs more source elements than its limit: the pipeline
    diverges (where(false) over an endless source) - out of domain."""


class CountingSource(object):
    """Endless iterator fn(0), fn(1), ... that counts pulls."""

    def __init__(self, fn, limit):
        self.fn, self.limit, self.pulls = fn, limit, 0

    def __iter__(self):
        return self

    def __next__(self):
        if self.pulls >= self.limit:
            raise ModelHorizon()
        self.pulls += 1
        return self.fn(self.pulls - 1)


class Ticks(object):
    """Counts lambda applications."""

    def __init__(self):
        self.n = 0

    def wrap(self, fn):
        def counted(*args):
            self.n += 1
            return fn(*args)
        return counted


# -- streaming operators ------------------------------------------------------
def select(src, f):
    for x in src:
        yield f(x)


def where(src, p):
    for x in src:
        if M.truth(p(x)):
            yield x


def select_many(src, f):
    for x in src:
        r = f(x)
        if isinstance(r, list) or hasattr(r, '__next__'):     # a list or a lazy inner collection
            for y in r:
                yield y
        else:
            yield r


def skip(src, n):
    it = iter(src)
    for _ in range(n):
        try:
            next(it)
        except StopIteration:
            return
    for x in it:
        yield x


def take(src, n):
    it = iter(src)
    for _ in range(n):
        try:
            yield next(it)
        except StopIteration:
            return


def take_while(src, p):
    for x in src:
        if not M.truth(p(x)):
            return
        yield x


def skip_while(src, p):
    it = iter(src)
    for x in it:
        if not M.truth(p(x)):
            yield x
            break
    for x in it:
        yield x


def append(src, *values):
    for x in src:
        yield x
    for v in values:
        yield v


def concat(src, *others):
    for x in src:
        yield x
    for o in others:
        for x in o:
            yield x


def distinct(src, key=None):
    seen = []
    for x in src:
        k = x if key is None else key(x)
        if not M.member(k, seen):
            seen.append(k)
            yield x


def enumerate_(src, start=0):
    i = start
    for x in src:
        yield [i, x]
        i += 1


def zip_(src, *others):
    its = [iter(src)] + [iter(o) for o in others]
    while True:
        row = []
        for it in its:
            try:
                row.append(next(it))
            except StopIteration:
                return
        yield row


def accumulate(src, f, seed=M.NOVALUE):
    it = iter(src)
    if seed is M.NOVALUE:
        try:
            seed = next(it)
        except StopIteration:
            M.ood('empty collection without a seed')
    yield seed
    total = seed
    for x in it:
        total = f(total, x)
        yield total


def insert(src, position, value):
    # the inserted value itself needs no further source element
    it = iter(src)
    i = 0
    while True:
        if i == position:
            yield value
        try:
            x = next(it)
        except StopIteration:
            break
        yield x
        i += 1
    if position > i:
        yield value


def delete(src, position, count=1):
    for i, x in enumerate(src):
        if not position <= i < position + count:
            yield x


def replace(src, position, value, count=1):
    done = False
    for i, x in enumerate(src):
        if position <= i < position + count:
            if not done:
                done = True
                yield value
        else:
            yield x


def slice_(src, length):
    it = iter(src)
    while True:
        part = list(itertools.islice(it, length))
        if not part:
            return
        yield part


def memorize(src):
    for x in src:
        yield x


def member(src, key):
    # collection.key: the value under key of every (dictionary) element
    for x in src:
        if not isinstance(x, dict) or not M.has_key(x, key):
            M.ood('attribute of a non-dict element')
        yield x[key]


def join(src, inner, predicate, selector):
    # the outer side is streamed, the inner one is finite
    inner = list(inner)
    for a in src:
        for b in inner:
            if M.truth(predicate(a, b)):
                yield selector(a, b)


# -- short-circuit searches (return one value) --------------------------------
def first(src):
    for x in src:
        return x
    raise M.Err('StopIteration')


def any_(src, p=None):
    for x in src:
        if p is None or M.truth(p(x)):
            return True
    return False


def all_(src, p=None):
    for x in src:
        if not M.truth(x if p is None else p(x)):
            return False
    return True


def index_of(src, item):
    for i, x in enumerate(src):
        if M.eq(x, item):
            return i
    return -1


def index_where(src, p):
    for i, x in enumerate(src):
        if M.truth(p(x)):
            return i
    return -1


def first_k(stream, k):
    """The first k results of a model stream."""
    return list(itertools.islice(stream, k))
