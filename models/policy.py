"""Reference model of the yaqlization access policy (C07, part 2).

Plain Python, imports nothing from yaql.  Sources: the module docstring of
yaql/standard_library/yaqlized.py ("it is possible to call methods, access
attributes/properties and index of yaqlized objects ... any mentioned operation
can be disabled ... whitelist/blacklist of methods/attributes/keys that are
exposed"), the parameter list of yaqlization.yaqlize (yaqlize_attributes,
yaqlize_methods, yaqlize_indexer, auto_yaqlize_result, whitelist, blacklist,
attribute_remapping, blacklist_remapped_attributes=True) and the statement of
property C07:

    allowed(name) = not name.startswith('_')
                    and (whitelist is empty or some whitelist entry matches)
                    and no blacklist entry matches
    an entry is a string (equality), a compiled regex (search) or a predicate;
    every remapping target is blacklisted under its own name;
    member reached = remap(name) for attribute access and method call
                     (a method remapping is (method name, {keyword: keyword})),
                     name itself for indexing;
    operation switched off => the object is not accessible that way at all;
    auto_yaqlize_result => an object of a non-builtin class obtained through an
                     allowed access is itself yaqlized (default policy, same switch).
"""
ATTRIBUTE, METHOD, INDEX = 'attribute', 'method', 'index'
SWITCH = {ATTRIBUTE: 'attributes', METHOD: 'methods', INDEX: 'indexer'}

DEFAULT = {'attributes': True, 'methods': True, 'indexer': True, 'auto': False,
           'whitelist': (), 'blacklist': (), 'remapping': {}}


def matches(name, entry):
    if isinstance(entry, str):
        return name == entry
    if hasattr(entry, 'search'):
        return entry.search(name) is not None
    if callable(entry):
        return bool(entry(name))
    return False


def target_name(target):
    return target if isinstance(target, str) else target[0]


def denial(name, settings):
    """None when `name` may be used on an object with these settings, else the reason."""
    if name.startswith('_'):
        return 'underscore'
    wl = settings['whitelist']
    if wl and not any(matches(name, e) for e in wl):
        return 'not-whitelisted'
    if any(matches(name, e) for e in settings['blacklist']):
        return 'blacklisted'
    if any(name == target_name(t) for t in settings['remapping'].values()):
        return 'blacklisted'            # remapped targets are reachable under their alias only
    return None


def decide(settings, access, name, kwargs=()):
    """What one access `obj.name`, `obj.name(kwargs)` or `obj[name]` does:
         ('off',)                               the operation is switched off: object not accessible this way
         ('denied', reason)                     the name is refused, nothing is touched
         ('reach', 'attr'|'call'|'item', member, kwargs)   exactly this member is touched
         ('undocumented',)                      attribute access through a method remapping (judged for containment only)
    """
    if not settings[SWITCH[access]]:
        return ('off',)
    reason = denial(name, settings)
    if reason:
        return ('denied', reason)
    if access == INDEX:
        return ('reach', 'item', name, {})
    target = settings['remapping'].get(name, name)
    if access == ATTRIBUTE:
        if not isinstance(target, str):
            return ('undocumented',)
        return ('reach', 'attr', target, {})
    argmap = {} if isinstance(target, str) or len(target) < 2 else target[1]
    return ('reach', 'call', target_name(target), {argmap.get(k, k): v for k, v in kwargs})


def inherited(settings):
    """Settings of an object that was auto-yaqlized because it came out of an allowed access."""
    return dict(DEFAULT, auto=True) if settings['auto'] else None
