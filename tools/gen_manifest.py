#!/venv/bin/python
"""Regenerate MANIFEST.json from the table below (keeps it valid and in sync)."""
import json, os, sys
HERE = os.path.realpath(os.path.join(os.path.dirname(__file__), '..'))
PROPS = [json.loads(l) for l in open(os.path.join(HERE, 'properties.jsonl'))]
sys.path.insert(0, HERE)
from tools.manifest_table import CHECKS, NOT_APPLICABLE, ENGINES, NOTES, SOURCE_COMMITS

checks = []
for pid in sorted(CHECKS):
    c = CHECKS[pid]
    checks.append({
        'property_id': pid,
        'quick_cmd': './check %s quick' % pid,
        'thorough_cmd': './check %s thorough' % pid,
        'evidence_file': 'evidence/%s.json' % pid,
        'replay_cmd_template': './check %s --replay {path}' % pid,
        'engine': c['engine'],
        'level_claimed': {'category': 'model_checking', 'text': c['text'], 'design_ref': c['design_ref']},
        'level_note': c['note'],
        'technique': c['technique'],
    })
claimed = set(CHECKS)
na = [{'property_id': p['id'], 'reason': NOT_APPLICABLE.get(p['id'], 'check not built yet in this session; planned in DESIGN.md section 4')}
      for p in PROPS if p['id'] not in claimed]
m = {
    'version': 1,
    'setup_cmd': './setup.sh',
    'hooks': {
        'guard': 'YAQL_VERIF (unused: no source hooks; all instrumentation is applied from /verif at run time by rebinding attributes)',
        'enable': 'nothing to build: checks import yaql from /repo (or $YAQL_VERIF_REPO) working tree directly with /venv/bin/python',
        'baseline_off_cmd': 'cd /repo && /venv/bin/python -m pytest -ra -q -p no:cacheprovider --timeout=900 --continue-on-collection-errors',
        'source_commits': SOURCE_COMMITS,
        'add_only': True,
    },
    'engines': ENGINES,
    'checks': checks,
    'notes': NOTES,
    'not_applicable': na,
}
json.dump(m, open(os.path.join(HERE, 'MANIFEST.json'), 'w'), indent=1)
print('MANIFEST.json: %d checks, %d not_applicable' % (len(checks), len(na)))
