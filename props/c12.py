"""C12 - all ways of passing the same arguments are equivalent.

E3 differential enumeration over every registered definition (vf.corpus):
for each definition x well-typed argument tuple x set of omitted defaulted
parameters, every spelling of that one call is evaluated on the real engine
and all of them must give the same finalised result (or the same exception
class) and must run the definition under test the same number of times
(payload taps).  Spellings: every positional/keyword split point k (keyword
names are the convention-translated aliases), omitted defaults left out /
written as skipped slots / written as explicit literal defaults, function and
method form, call(name, args, kwargs[, receiver]), operator syntax, arguments
bound as variables and written as source text.

Definitions that collect arbitrary keywords (**kwargs: let, zipLongest, the delegate call) receive the keyword
NAMES themselves, so for them the names are part of the argument tuple: every name of a keyword-name alphabet
(the keyword the function knows and 'a', each also with one / two trailing underscores, a leading underscore,
camelCase, snake_case; the python spelling and the alias of every declared parameter; a pair of names that differ
only in a trailing underscore) is passed alone and behind one and two positional arguments, written as `name => value` and
through call()'s kwargs dictionary; besides the result, the keyword names the collector received (payload tap)
must be the same in every spelling.

Also judged: a method-only definition never runs from a function-form call and
vice versa (and the error is "unknown function/method" when no definition of
that name has the other kind); a skipped slot for a parameter without default
never runs the definition; a skipped slot inside *args is not a spelling of
anything and must be rejected; the keyword name a parameter is accepted under
is the one its docstring documents (else the documented name must work).
"""
import collections
import datetime
import itertools
import re

import vf.loader  # noqa: F401
from vf import core
from vf import corpus as C
from vf import yq
from vf.core import Result

ID = 'C12'
TITLE = 'argument spellings'
RULE = ('all (definition, argument tuple, set of omitted defaults) groups; within a group all spellings '
        '(form fn/method/op/call/mcall x split point k x omit-or-skip/explicit-default x var/text arguments) '
        'are compared with the first one (function form, everything positional) on (finalised result | '
        'exception class, number of runs of the definition under test, keyword names received by a **kwargs collector). Resolution errors compare modulo '
        'Function/Method in the class name. A group is non-trivial when it has >= 2 distinct spelling texts '
        'and the definition under test ran; a case is distinct by (definition, tuple labels, omitted set, spelling text)')
ASSUMPTIONS = [
    'opaque results (contexts, function objects) are compared by type; now/random/localtz by type only',
    'call() cannot carry lazy, constant-typed or mapping-rule arguments: such calls have no call() spelling',
    'all corpus collections hold integers or strings whose iteration order does not depend on how the value was built',
    'the standard library registers no keyword-only parameter (asserted); a new one makes the run fail loudly',
]
BOUNDS = {
    'quick': 'argument tuples: corpus star of 2 values per parameter, for the 3 **kwargs collectors additionally every name of the '
             'keyword-name alphabet (11 shapes + declared-parameter spellings + 1 pair) alone and behind one and two positional arguments; omitted sets: none, all, every single '
             'default omitted, every single default supplied; arguments bound as variables; '
             'the unomitted groups of the first 2 tuples also with variables and source-text arguments on engines with yaql.memoryQuota 50 (exceeded by the string arguments, which are widened by 10 characters here, and by [1, 2], not by an expression object), 56 and 120 bytes',
    'thorough': 'argument tuples: corpus star of 3 values per parameter, **kwargs collectors with the keyword-name alphabet as in quick; omitted sets: every subset of the defaulted '
                'parameters (definitions with more than 8 defaults - characters - subsets of size <= 2 or >= d-1, and '
                'all 2^d subsets on the base tuple); arguments bound as variables and as source text; '
                'the unomitted groups of the first 4 tuples on engines with yaql.memoryQuota 48..63, 120 and 500 bytes',
}

ENVIRONMENT = ('now', 'random', 'localtz')
RESOLUTION = re.compile(r'^(NoMatching|Ambiguous|No)(Function|Method)(Exception|RegisteredException)$')
MAX_FULL_DEFAULTS = 8


# ---------------------------------------------------------------------------
# observation
# ---------------------------------------------------------------------------
def canon(v):
    """Finalised result -> comparable plain data; scalars keep their type, sets lose their order,
    opaque objects keep only their type."""
    if v is None or isinstance(v, (bool, int, float, str)):
        return (type(v).__name__, repr(v))
    if isinstance(v, (list, tuple)):
        return (type(v).__name__, tuple(canon(x) for x in v))
    if isinstance(v, (set, frozenset)):
        return ('set', tuple(sorted((canon(x) for x in v), key=repr)))
    if isinstance(v, dict):
        return ('dict', tuple(sorted(((canon(k), canon(x)) for k, x in v.items()), key=repr)))
    if isinstance(v, (datetime.datetime, datetime.timedelta, type(re.compile('.')))):
        return (type(v).__name__, repr(v))
    return ('object', type(v).__name__)


def error_class(e):
    name = type(e).__name__
    m = RESOLUTION.match(name)
    return m.group(1) + '*' + m.group(3) if m else name


_state = {}
_opts = [C.OPTIONS]          # engine options of the spellings being compared (job_quota replaces them)


def setup():
    if not _state:
        recs = C.definitions()
        assert not any(r.kwonly for r in recs), 'keyword-only parameters are not enumerated by this driver'
        _state['recs'] = recs
        _state['by_ident'] = {r.ident: r for r in recs}
        _state['taps'] = C.install_taps(recs)
        _state['novalue'] = [0]
        _state['collected'] = []         # per run of a **kwargs collector: the keyword names its ** parameter received
        collectors = {r.index: {pd.name for pd in r.fd.parameters.values()} for r in recs if r.varkw is not None}

        def observer(index, args, kwargs):
            if any(a is yq.NO_VALUE for a in args):
                _state['novalue'][0] += 1
            if index in collectors:
                _state['collected'].append((index, tuple(sorted(k for k in kwargs if k not in collectors[index]))))
        C.TAP_OBSERVER[0] = observer
        names = collections.defaultdict(set)
        for r in recs:
            if r.fd.is_function:
                names[r.name].add('f')
            if r.fd.is_method:
                names[r.name].add('m')
        _state['kinds_of_name'] = names
    return _state


def observe(rec, text, variables, extra_runs=0):
    """Evaluate one spelling: ((kind, canonical value | error class), runs of rec, NoValue seen by a payload)."""
    s = setup()
    yq.parse(text, _opts[0], True)          # a text the grammar rejects is a harness error, not an outcome
    taps = s['taps']
    before = taps[rec.index]
    s['novalue'][0] = 0
    del s['collected'][:]
    try:
        v = C.evaluate(text, variables, options=_opts[0])
        out = ('v', ('env', type(v).__name__) if rec.name in ENVIRONMENT else canon(v))
    except Exception as e:
        out = ('e', error_class(e))
    return out, taps[rec.index] - before - extra_runs, s['novalue'][0]


def collected(rec):
    """Keyword names the ** parameter of rec received in each of its runs during the last observe()."""
    return [names for index, names in setup()['collected'] if index == rec.index]


# ---------------------------------------------------------------------------
# spellings
# ---------------------------------------------------------------------------
def literal(v):
    """YAQL text of a default value that is a literal (None otherwise)."""
    if v is None:
        return 'null'
    if v is True:
        return 'true'
    if v is False:
        return 'false'
    if isinstance(v, int):
        return str(v)
    if isinstance(v, str) and all(32 <= ord(c) < 127 and c not in "'\\" for c in v):
        return "'" + v + "'"
    return None


def arg_text(value, name, argform):
    if argform == 'var':
        return '$' + name if value.make is not None else value.text
    return value.text if value.text is not None else '$' + name


def variables(args, argform):
    """Fresh variable bindings for one evaluation (one-shot iterators are re-created)."""
    out = {}
    named = [('p%d' % i, v) for i, v in enumerate(args.pos)] + [('a%d' % i, v) for i, v in enumerate(args.var)] \
        + [('k' + k, v) for k, v in sorted(args.kw.items())]
    for name, v in named:
        if v.make is not None and (argform == 'var' or v.text is None):
            out[name] = v.make()
    return out


def _no_call(p):
    return p.is_lazy or p.is_constant or p.kind in ('mappingrule', 'lazyrule')


def forms_of(rec, args, supplied):
    forms = []
    if rec.syntax == 'name':
        if rec.fd.is_function:
            forms.append('fn')
        if rec.fd.is_method:
            forms.append('method')
    elif rec.syntax != 'internal':
        forms.append('op')
    if not any(_no_call(rec.params[i]) for i in supplied) and not (args.var and _no_call(rec.varargs)):
        if rec.fd.is_function:
            forms.append('call')
        if rec.fd.is_method:
            forms.append('mcall')
    return forms


def extra_runs(rec, form):
    """Runs of rec that the call()/mcall spelling adds by itself (call, its [..] and {..} literals)."""
    if form in ('call', 'mcall') and rec.ident in ('call|system.call_func', '#list|collections.build_list',
                                                   '#map|collections.dict_'):
        return 1
    return 0


def spellings(rec, args, supplied, argform):
    """All spellings of one call: [(label, cls, form, text)], first = most plain."""
    n = len(rec.params)
    supplied = set(supplied)
    omitted = [i for i in range(n) if i not in supplied]
    ptext = [arg_text(v, 'p%d' % i, argform) for i, v in enumerate(args.pos)]
    vtext = [arg_text(v, 'a%d' % i, argform) for i, v in enumerate(args.var)]
    extra_kw = [(k, arg_text(v, 'k' + k, argform)) for k, v in sorted(args.kw.items())]
    explicit = {}
    for i in omitted:
        p = rec.params[i]
        lit = None if p.is_lazy else literal(p.default)
        if lit is None:
            explicit = None
            break
        explicit[i] = lit
    out = []
    seen = set()
    moved = mirror_positions(rec)
    for form in forms_of(rec, args, supplied):
        if form in ('call', 'mcall') and _opts[0] is not C.OPTIONS:
            continue        # call() carries the arguments in a list and a dictionary that are values charged on their own
        for k in range(n, -1, -1):
            if args.var and k != n:
                continue
            if form in ('method', 'mcall') and ((k == 0 or 0 not in supplied) if n else not args.var):
                continue                # no receiver (that of a pure *args method is the first of them)
            for fill in ('omit', 'explicit'):
                if fill == 'explicit' and (explicit is None or not omitted):
                    continue
                pos, kw = [], []
                for i in range(n):
                    if i in supplied:
                        t = ptext[i]
                    elif fill == 'explicit':
                        t = explicit[i]
                    else:
                        t = '' if i < k else None
                    if t is None:
                        continue
                    if i < k:
                        pos.append(t)
                    else:
                        kw.append((rec.params[i].alias, t))
                if not args.var:
                    while pos and pos[-1] == '':
                        pos.pop()                      # trailing omitted parameters are simply absent
                skipped = '' in pos
                if (kw or extra_kw) and rec.no_kwargs:
                    continue
                text = C.call_text(rec, form, pos + vtext, kw + extra_kw)
                if text is None or (form, text) in seen:
                    continue
                seen.add((form, text))
                cls = form + ('+kw' if kw else '') + ('+skip' if skipped else '') + \
                    ('+explicit' if fill == 'explicit' else '')
                if moved and k <= min(moved):
                    cls = 'out-of-domain'            # every moved parameter is passed by keyword
                out.append(('%s k=%d %s' % (form, k, fill), cls, form, text))
    return out


def mirror_positions(rec):
    """Positions of rec whose parameter sits elsewhere in a sibling overload with the same
    {keyword name: type} signature (n * ts and ts * n): a call that passes all of them by keyword is a
    spelling of both overloads, and the documented resolution rule makes it ambiguous."""
    sig = {p.alias: p.type_desc for p in rec.params}
    moved = set()
    for other in setup()['recs']:
        if other is rec or other.name != rec.name or other.varargs or rec.varargs:
            continue
        if not ((other.fd.is_function and rec.fd.is_function) or (other.fd.is_method and rec.fd.is_method)):
            continue
        if {p.alias: p.type_desc for p in other.params} == sig:
            order = {p.alias: p.index for p in other.params}
            moved |= {p.index for p in rec.params if order[p.alias] != p.index}
    return moved


def omitted_sets(rec, tier, base):
    """Sets of defaulted parameters that are left to their default."""
    dflt = [p.index for p in rec.params if p.has_default]
    d = len(dflt)
    if tier == 'thorough' and (d <= MAX_FULL_DEFAULTS or base):
        sizes = range(d + 1)
    elif tier == 'thorough':
        sizes = [s for s in range(d + 1) if s <= 2 or s >= d - 1]
    else:
        sizes = sorted({0, 1, d - 1, d} & set(range(d + 1)))
    out = []
    for s in sizes:
        out.extend(itertools.combinations(dflt, s))
    return out


def keyword_names(rec):
    """The keyword-name alphabet of a **kwargs collector: its corpus keyword (the one the function knows, else
    'x') and 'a' in every shape the naming convention treats specially somewhere - trailing underscore(s), leading
    underscore, camelCase, snake_case - and the python spelling and the alias of every declared parameter."""
    base = sorted(C.argument_tuples(rec)[-1].kw)[0]
    names = []
    for n in (base, 'a'):
        names += [n, n + '_', n + '__', '_' + n, n + 'B', n + '_b', n + 'B_']
    for p in rec.params:
        names += [p.name, p.alias]
    return [n for i, n in enumerate(names) if n not in names[:i]][1:]      # the corpus keyword itself is already there


def tuples_of(rec, tier):
    out = C.argument_tuples(rec, per_param=3 if tier == 'thorough' else 2, mode='star')
    if rec.varkw is not None:
        base = out[-1]
        vs = C.values_for(rec.varkw, rec)
        v, w = vs[0], vs[min(1, len(vs) - 1)]
        va = C.values_for(rec.varargs, rec) if rec.varargs is not None else []
        var = [[]] + ([[va[0]], [va[0], va[-1]]] if va else [])      # zipLongest: [1, 2, 3] and [], the fill value shows
        for name in keyword_names(rec):
            out.extend(C.Args(base.pos, a, {name: v}) for a in var)
        # two names that differ only in a trailing underscore, different values
        out.extend(C.Args(base.pos, a, {'a': w, 'a_': v}) for a in var)
    return out


def case_of(rec, args, omitted, argform):
    out = {'def': rec.ident, 'pos': [v.label for v in args.pos], 'var': [v.label for v in args.var],
           'kw': {k: v.label for k, v in args.kw.items()}, 'omitted': list(omitted), 'argform': argform}
    if _opts[0] is not C.OPTIONS:
        out['options'] = dict(_opts[0])
    return out


# ---------------------------------------------------------------------------
# jobs
# ---------------------------------------------------------------------------
def check_group(res, rec, args, omitted, argform, ti):
    supplied = [i for i in range(len(rec.params)) if i not in omitted]
    sp = spellings(rec, args, supplied, argform)
    if not sp:
        res.outcomes['no spelling'] += 1
        return
    case = case_of(rec, args, omitted, argform)
    core.CURRENT_CASE[0] = case
    ref = None
    ran = False
    for label, cls, form, text in sp:
        if cls == 'out-of-domain':
            res.out_of_domain += 1
            res.outcomes['ood: keyword spelling shared with a mirrored overload'] += 1
            continue
        res.case((rec.ident, tuple(case['pos']), tuple(case['var']), tuple(sorted(case['kw'])),
                  tuple(omitted), text) + ((tuple(sorted(case['options'].items())),) if 'options' in case else ()))
        out, runs, _ = observe(rec, text, variables(args, argform), extra_runs(rec, form))
        res.evaluations += 1
        res.extra.setdefault('spelling_classes', collections.Counter())[cls] += 1
        ran = ran or runs > 0
        got = collected(rec)
        if ref is None:
            ref = (label, text, out, runs, form, got)
            continue
        res.transitions += 1
        # the property demands equal results; the run count of the definition under test is compared only when
        # it ran in both spellings (a more specific sibling overload may legitimately serve one spelling)
        if out != ref[2] or (runs and ref[3] and runs != ref[3]):
            res.fail('spellings-disagree def=%s spelling=%s%s' % (rec.ident, cls, ' under a memory quota' if 'options' in case else ''),
                     dict(case, kind='group', a=ref[1], fa=ref[4], b=text, fb=form),
                     '%s -> %r runs=%d   but   %s -> %r runs=%d' % (ref[1], ref[2], ref[3], text, out, runs))
        elif runs and ref[3] and got != ref[5]:
            res.fail('collector-keywords-differ def=%s spelling=%s' % (rec.ident, cls),
                     dict(case, kind='group', a=ref[1], fa=ref[4], b=text, fb=form),
                     '%s: **%s received the keyword names %r   but   %s: %r' % (ref[1], rec.varkw.name, ref[5], text, got))
    if len(sp) >= 2 and ran:
        res.nontrivial += 1
    res.outcomes['%s %s%s' % ('group' if len(sp) >= 2 else 'single', 'value' if ref[2][0] == 'v' else ref[2][1],
                              '' if ran else ' (other overload or resolution error)')] += 1
    if ti == 0 and not omitted and len(sp) >= 4:
        res.sample({'def': rec.ident, 'spellings': [t for _, _, _, t in sp][:8], 'outcome': repr(ref[2])[:120]}, 1)


def check_kinds(res, rec, args):
    """A definition of one kind never runs from a call of the other kind."""
    s = setup()
    kinds = s['kinds_of_name'][rec.name]
    supplied = list(range(len(rec.params)))
    if rec.fd.is_function and rec.fd.is_method:
        return
    wrong = ('method', 'mcall') if rec.fd.is_function else ('fn', 'call')
    other = 'm' if rec.fd.is_function else 'f'
    expected = 'No*RegisteredException' if other not in kinds else None
    texts = [arg_text(v, 'p%d' % i, 'var') for i, v in enumerate(args.pos)] + \
            [arg_text(v, 'a%d' % i, 'var') for i, v in enumerate(args.var)]
    can_call = 'call' in forms_of(rec, args, supplied) or 'mcall' in forms_of(rec, args, supplied)
    for form in wrong:
        if form in ('call', 'mcall') and not can_call:
            continue
        if form in ('fn', 'method') and rec.syntax != 'name':
            continue
        text = C.call_text(rec, form, texts, [])
        if text is None:
            continue
        case = dict(case_of(rec, args, (), 'var'), kind='kinds', a=text, fa=form)
        res.case((rec.ident, 'kinds', text))
        out, runs, _ = observe(rec, text, variables(args, 'var'), extra_runs(rec, form))
        res.evaluations += 1
        res.transitions += 1
        res.nontrivial += 1
        res.outcomes['kinds %s' % (out[1] if out[0] == 'e' else 'value (other overload)')] += 1
        if runs:
            res.fail('kind-leak def=%s form=%s' % (rec.ident, form), case,
                     '%s definition ran from %s -> %r' % (rec.kind, text, out))
        elif expected and out != ('e', expected):
            res.fail('kind-error def=%s form=%s' % (rec.ident, form), case,
                     '%s: no %s named %s exists, expected an unknown-%s error, observed %r'
                     % (text, 'method' if other == 'm' else 'function', rec.name,
                        'method' if other == 'm' else 'function', out))
        elif out[0] == 'e' and out[1] == 'No*RegisteredException' and not expected:
            res.fail('kind-error def=%s form=%s' % (rec.ident, form), case,
                     '%s: a definition of the other kind exists, observed %r' % (text, out))


def check_slots(res, rec, args):
    """Skipped slots that are not spellings of anything: a required parameter, a slot inside *args."""
    texts = [arg_text(v, 'p%d' % i, 'var') for i, v in enumerate(args.pos)]
    forms = [f for f in ('fn', 'method') if rec.syntax == 'name' and
             (rec.fd.is_function if f == 'fn' else rec.fd.is_method)] or ['op']
    probes = []
    for i, p in enumerate(rec.params):
        if not p.has_default and (i + 1 < len(texts)):
            probes.append(('required', 'skipped-required def=%s param=%s' % (rec.ident, p.name),
                           texts[:i] + [''] + texts[i + 1:]))
    if rec.varargs is not None:
        tail = C.values_for(rec.varargs, rec)[0]
        probes.append(('varargs', 'novalue-leak skipped slot in *args', texts + ['', arg_text(tail, 'a1', 'var')]))
    for what, key, pos in probes:
        for form in forms:
            if form == 'method' and (not pos or pos[0] == ''):
                continue
            text = C.call_text(rec, form, pos, [])
            written = pos[1:] if form == 'method' else pos
            if text is None or (written[0] == '' and '=>' in written[-1]):
                continue                 # the grammar has no `f(, a => b)`: a rule needs a value before it
            vs = variables(args, 'var')
            if what == 'varargs' and tail.make is not None:
                vs['a1'] = tail.make()
            case = dict(case_of(rec, args, (), 'var'), kind='slot', a=text, fa=form, what=what)
            res.case((rec.ident, 'slot', text))
            out, runs, novalue = observe(rec, text, vs)
            res.evaluations += 1
            res.transitions += 1
            res.nontrivial += 1
            res.outcomes['slot-%s %s' % (what, 'accepted' if runs else 'rejected')] += 1
            if runs:
                res.fail(key, case, '%s ran %s (%d payload call(s) received the <NoValue> marker) -> %r; '
                         'expected a no-matching error' % (text, rec.ident, novalue, out))


def documented(rec):
    """Parameter names the docstring promises: ([:receiverArg/:arg names in order, without [args]/{kwargs}],
    words of the :signature: line)."""
    doc = rec.fd.doc or ''
    names = [n.strip() for n in re.findall(r':(?:arg|receiverArg)\s+([^:]+):', doc)]
    sig = re.search(r':signature:(.*?)\n\s*:', doc, re.S)
    return [n for n in names if n[:1] not in '[{'], set(re.findall(r'\w+', sig.group(1))) if sig else set()


def check_documented_keywords(res, rec, args):
    """The keyword name of a parameter is the one its documentation gives (which, absent an explicit alias,
    is the convention translation of the python name): where the accepted name is not documented, the
    documented name must work - `f(.., documented => v, ..)` is one more spelling of the call."""
    if rec.syntax != 'name' or rec.no_kwargs or not rec.params or not (rec.fd.doc or '').strip():
        return
    names, sigwords = documented(rec)
    if len(names) != len(rec.params):
        res.out_of_domain += 1
        res.outcomes['ood: documentation lists other parameters'] += 1
        return
    n = len(rec.params)
    form = 'fn' if rec.fd.is_function else 'method'
    texts = [arg_text(v, 'p%d' % i, 'var') for i, v in enumerate(args.pos)]
    ref_text = C.call_text(rec, form, texts, [])
    for i in range(1 if form == 'method' else 0, n):
        p = rec.params[i]
        res.transitions += 1
        if p.alias == names[i] or p.alias in sigwords:
            res.outcomes['keyword name documented'] += 1
            continue
        text = C.call_text(rec, form, texts[:i], [(names[i], texts[i])] +
                           [(rec.params[j].alias, texts[j]) for j in range(i + 1, n)])
        case = dict(case_of(rec, args, (), 'var'), kind='group', a=ref_text, fa=form, b=text, fb=form)
        res.case((rec.ident, 'documented-keyword', text))
        ref = observe(rec, ref_text, variables(args, 'var'))
        out = observe(rec, text, variables(args, 'var'))
        res.evaluations += 2
        res.nontrivial += 1
        res.outcomes['keyword name undocumented: documented name %s' %
                     ('works' if out[:2] == ref[:2] else 'rejected')] += 1
        if out[:2] != ref[:2]:
            res.fail('documented-keyword-rejected def=%s param=%s' % (rec.ident, p.name), case,
                     'documented as %r, accepted as %r: %s -> %r but %s -> %r'
                     % (names[i], p.alias, ref_text, ref[0], text, out[0]))


def job_units(tier, units):
    """units: [(definition ident, tuple index, part, nparts)]: the omitted sets number part, part+nparts, ...
    of that tuple; the unit (tuple 0, part 0) also runs the kind and slot checks of the definition."""
    res = Result()
    s = setup()
    for ident, ti, part, nparts in units:
        rec = s['by_ident'][ident]
        tuples = tuples_of(rec, tier)
        args = tuples[ti]
        for argform in (('var', 'text') if tier == 'thorough' else ('var',)):
            if argform == 'text' and all(v.make is None or v.text is None for v in args.pos + args.var):
                continue
            for omitted in omitted_sets(rec, tier, base=(ti == 0 and argform == 'var'))[part::nparts]:
                check_group(res, rec, args, omitted, argform, ti)
        if ti == 0 and part == 0:
            for args in tuples[:2]:
                check_kinds(res, rec, args)
                check_slots(res, rec, args)
            check_documented_keywords(res, rec, tuples[0])
    return res


# ---------------------------------------------------------------------------
# the same groups on an engine with a memory quota small enough that some corpus values exceed it: whether an
# argument is charged against the quota must not depend on how it was written (literal in the argument list,
# receiver of a method call, element of call()'s args / kwargs, variable)
# sizes (CPython 3.12, bytes): expression objects 48, 'ab' 43, 'ab' + 10 characters 53, () 40, (1, 2) 56, small
# integers 28: a quota of 50 is exceeded by a widened string literal and by (1, 2) but not by the expression object
# every method call hands to `.`.  String arguments are widened by 10 characters in these jobs (the oracle is
# differential: every spelling of the group gets the same widened value).
WIDE = 'x' * 10


def widen(v):
    if v.make is None or v.label.endswith('+wide'):
        return v
    value = v.make()
    if not isinstance(value, str) or v.text is None or not (v.text.startswith("'") and v.text.endswith("'")):
        return v
    return C.Value(v.label + '+wide', lambda: value + WIDE, v.text[:-1] + WIDE + "'")


def widen_args(args):
    return C.Args([widen(v) for v in args.pos], [widen(v) for v in args.var], {k: widen(v) for k, v in args.kw.items()})


QUOTAS_Q = (50, 56, 120)
QUOTAS_T = tuple(range(48, 64)) + (120, 500)


def job_quota(tier, units, quota):
    res = Result()
    s = setup()
    _opts[0] = dict(C.OPTIONS, **{'yaql.memoryQuota': quota})
    try:
        for ident in units:
            rec = s['by_ident'][ident]
            for ti, args in enumerate(tuples_of(rec, tier)[:2 if tier == 'quick' else 4]):
                args = widen_args(args)
                for argform in ('var', 'text'):
                    if argform == 'text' and all(v.make is None or v.text is None for v in args.pos + args.var):
                        continue
                    check_group(res, rec, args, (), argform, ti + 1)
    finally:
        _opts[0] = C.OPTIONS
    return res


# ---------------------------------------------------------------------------
# a second naming convention in the same process (signatures are configurations: the keyword names
# a caller uses are the convention-translated ones of *his* context, whatever else the process built)
# ---------------------------------------------------------------------------
def job_conventions(order):
    """order 'camel-first': the default (camelCase) context is built and used first, then a context with
    PythonConvention; 'python-first': the other way round.  In the second context every definition with
    visible parameters is called positionally and with every positional/keyword split, keyword names
    translated by that context's convention; outcomes must agree."""
    import copy
    import yaql
    from yaql.language import conventions, specs as yspecs
    res = Result()

    def build_python():
        return yaql.create_context(delegates=True, convention=conventions.PythonConvention())
    if order == 'camel-first':
        s = setup()
        C.root()
        C.evaluate('max(1, 2)')
        pyroot = build_python()
    else:
        pyroot = build_python()
        s = setup()
        C.root()
    engine = yq.engine(C.OPTIONS, allow_delegates=True)
    py = {}
    for layer, name, fd in yq.all_definitions(pyroot):
        py[(fd.payload.__module__, fd.payload.__qualname__, tuple(sorted(fd.parameters)), fd.is_method, fd.is_function)] = (name, fd)
    camel = conventions.CamelCaseConvention()
    for rec in s['recs']:
        if rec.syntax != 'name' or rec.no_kwargs or not rec.params or rec.name in ENVIRONMENT:
            continue
        tuples = tuples_of(rec, 'quick')
        if not tuples:
            continue
        args = tuples[0]
        if args.var or args.kw:
            continue
        fd = rec.fd
        hit = py.get((fd.payload.__module__, fd.payload.__qualname__, tuple(sorted(fd.parameters)), fd.is_method, fd.is_function))
        if hit is None:
            continue
        # the definition as the *python-convention* context spells it
        prec = copy.copy(rec)
        prec.name = hit[0]
        prec.params = []
        for p in rec.params:
            q = copy.copy(p)
            # expected keyword: the alias declared explicitly with @parameter(alias=...), else the
            # convention-translated python name - computed here, never read from the context under test
            raw = getattr(fd.payload, '__yaql_function__', None)
            declared = raw.parameters[p.key].alias if raw is not None and p.key in raw.parameters else None
            q.alias = declared or conventions.PythonConvention().convert_parameter_name(p.name.rstrip('_'))
            prec.params.append(q)
        contexts_to_check = [('python', pyroot, prec)] if order == 'camel-first' else [('camel', C.root(), rec)]
        for cname, root_ctx, r in contexts_to_check:
            n = len(r.params)
            ptext = [arg_text(v, 'p%d' % i, 'var') for i, v in enumerate(args.pos)]
            ref = None
            forms = ('fn',) if r.kind == 'function' else ('method',) if r.kind == 'method' else ('fn', 'method')
            for form in forms:
                for k in range(n, -1, -1):
                    if form == 'method' and k == 0:
                        continue
                    pos = ptext[:k]
                    kw = [(r.params[i].alias, ptext[i]) for i in range(k, n)]
                    text = C.call_text(r, form, pos, kw)
                    if text is None:
                        continue
                    res.case(('convention', order, cname, r.ident, text))
                    ctx = root_ctx.create_child_context()
                    for kk, vv in variables(args, 'var').items():
                        ctx[kk] = vv
                    try:
                        out = ('v', canon(engine(text).evaluate(context=ctx)))
                    except Exception as e:
                        out = ('e', error_class(e))
                    res.evaluations += 1
                    if ref is None:
                        ref = (text, out)
                        continue
                    res.transitions += 1
                    if kw:
                        res.nontrivial += 1
                    if out != ref[1]:
                        res.fail('keyword spelling differs in the %s-convention context when it is built %s in the process'
                                 % (cname, 'second' if (cname == 'python') == (order == 'camel-first') else 'first'),
                                 {'kind': 'convention', 'order': order, 'def': rec.ident, 'a': ref[0], 'b': text},
                                 '%s -> %r   but   %s -> %r' % (ref[0], ref[1], text, out))
                    res.outcomes['convention %s %s' % (cname, 'value' if out[0] == 'v' else out[1])] += 1
    res.sample({'convention_job': order})
    return res



def unit_cost(rec, tier, ti):
    n = len(rec.params)
    return len(omitted_sets(rec, tier, base=(ti == 0))) * (n + 1) * (2 + n) * (2 if tier == 'thorough' else 1) + 20


def jobs(tier, seed):
    nbins = 64
    units = []
    for rec in C.definitions():
        for ti in range(len(tuples_of(rec, tier))):
            cost = unit_cost(rec, tier, ti)
            nparts = 1 + cost // 40000
            units.extend((cost // nparts, rec.ident, ti, part, nparts) for part in range(nparts))
    bins = [[0, []] for _ in range(nbins)]
    for u in sorted(units, key=lambda u: (-u[0],) + u[1:]):
        b = min(bins, key=lambda x: x[0])
        b[0] += u[0]
        b[1].append(u[1:])
    out = [('units-%02d' % i, 'job_units', (tier, b[1])) for i, b in enumerate(bins) if b[1]]
    idents = [rec.ident for rec in C.definitions()]
    for quota in (QUOTAS_Q if tier == 'quick' else QUOTAS_T):
        for i in range(8):
            out.append(('quota-%d-%d' % (quota, i), 'job_quota', (tier, idents[i::8], quota)))
    out.append(('conv-camel-first', 'job_conventions', ('camel-first',)))
    out.append(('conv-python-first', 'job_conventions', ('python-first',)))
    return out


def finish(total, tier):
    sc = total.extra.get('spelling_classes')
    if sc:
        total.extra['spelling_classes'] = dict(sorted(sc.items()))


# ---------------------------------------------------------------------------
# replay
# ---------------------------------------------------------------------------
def _args_from(rec, case):
    def find(p, label):
        if label.endswith('+wide'):
            return widen(find(p, label[:-5]))
        for v in C.values_for(p, rec):
            if v.label == label:
                return v
        raise KeyError('corpus value %r of %s.%s' % (label, rec.ident, p.name))
    return C.Args([find(p, lab) for p, lab in zip(rec.params, case['pos'])],
                  [find(rec.varargs, lab) for lab in case['var']],
                  {k: find(rec.varkw, lab) for k, lab in case['kw'].items()})


def replay(case):
    if case.get('kind') == 'convention':
        r = job_conventions(case['order'])
        hit = [f for f in r.failures.values() if f.case.get('def') == case['def']]
        return {'observed': [f.detail for f in hit], 'expected': 'positional and keyword spellings agree', 'ok': not hit}
    s = setup()
    rec = s['by_ident'][case['def']]
    args = _args_from(rec, case)
    argform = case['argform']
    _opts[0] = dict(case['options']) if case.get('options') else C.OPTIONS

    def run(text, form):
        vs = variables(args, argform)
        if case['kind'] == 'slot' and case.get('what') == 'varargs':
            tail = C.values_for(rec.varargs, rec)[0]
            if tail.make is not None:
                vs['a1'] = tail.make()
        return observe(rec, text, vs, extra_runs(rec, form))[:2] + (collected(rec),)
    if case['kind'] == 'group':
        a, b = run(case['a'], case['fa']), run(case['b'], case['fb'])
        return {'observed': {case['a']: repr(a), case['b']: repr(b)},
                'expected': 'equal outcomes, equal number of runs of %s%s'
                % (rec.ident, ' and the same keyword names received by its **kwargs' if rec.varkw is not None else ''),
                'ok': a[0] == b[0] and not (a[1] and b[1] and (a[1] != b[1] or a[2] != b[2]))}
    out, runs, _ = run(case['a'], case['fa'])
    novalue = s['novalue'][0]
    return {'observed': {'text': case['a'], 'outcome': repr(out), 'runs_of_definition': runs,
                         'payload_calls_with_NoValue': novalue},
            'expected': 'the definition %s does not run' % rec.ident, 'ok': runs == 0}
