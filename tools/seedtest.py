#!/venv/bin/python
"""Confirm a seeded property-breaking change and run checks against it.

usage: tools/seedtest.py <seed dir with patch.diff, demo.py, meta.json> <CHECK-ID> [more ids] [--tier quick|thorough] [--seeds 0,1,2]

Steps (all on a scratch copy of /repo's HEAD outside /repo and /verif, removed afterwards):
  1. demo.py on the unchanged copy        -> must exit 0
  2. git apply patch.diff
  3. the repository's own test suite      -> must pass (366)
  4. demo.py on the changed copy          -> must exit 1
  5. each named check with YAQL_VERIF_REPO=<copy> for every seed -> reports VIOLATION / OK
Prints a JSON summary (also appended to the seed's meta.json under "verification").
"""
import json
import os
import shutil
import subprocess
import sys
import tempfile
import time

VERIF = os.path.realpath(os.path.join(os.path.dirname(__file__), '..'))


def sh(cmd, cwd=None, env=None, timeout=3600):
    p = subprocess.run(cmd, shell=True, cwd=cwd, env=env, capture_output=True, text=True, timeout=timeout)
    return p.returncode, p.stdout + p.stderr


def main(argv):
    seed = os.path.realpath(argv[0])
    ids = [a for a in argv[1:] if not a.startswith('--')]
    tier = 'quick'
    seeds = [0, 1, 2]
    confirm = '--no-confirm' not in argv        # --no-confirm: the change was confirmed earlier, only apply it and run the checks
    for i, a in enumerate(argv):
        if a == '--tier':
            tier = argv[i + 1]
            ids.remove(tier)
        if a == '--seeds':
            seeds = [int(x) for x in argv[i + 1].split(',')]
            ids.remove(argv[i + 1])
    tmp = tempfile.mkdtemp(prefix='yaql-seedtest-')
    copy = os.path.join(tmp, 'repo')
    out = {'seed': seed, 'checks': {}}
    try:
        rc, o = sh('git -C /repo worktree add -q --detach %s HEAD' % copy)
        if rc != 0:
            raise SystemExit('worktree add failed: ' + o)
        env = dict(os.environ, YAQL_ROOT=copy, PYTHONPATH=copy, PYTHONDONTWRITEBYTECODE='1')
        demo = os.path.join(seed, 'demo.py')
        if confirm:
            rc, o = sh('/venv/bin/python %s' % demo, cwd=copy, env=env)
            out['demo_unchanged'] = rc
        rc, o = sh('git apply %s' % os.path.join(seed, 'patch.diff'), cwd=copy)
        out['patch_applies'] = rc == 0
        if rc != 0:
            out['patch_error'] = o[-500:]
            return out
        if confirm:
            rc, o = sh('/venv/bin/python -m pytest -q -p no:cacheprovider yaql/tests 2>&1 | tail -1', cwd=copy, env=env)
            out['tests'] = o.strip()[-80:]
            rc, o = sh('/venv/bin/python %s' % demo, cwd=copy, env=env)
            out['demo_changed'] = rc
            out['demo_output'] = o.strip()[-400:]
        for pid in ids:
            runs = []
            for s in seeds:
                t0 = time.time()
                env2 = dict(os.environ, YAQL_VERIF_REPO=copy, VERIF_SEED=str(s))
                env2.pop('PYTHONPATH', None)
                rc, o = sh('./check %s %s' % (pid, tier), cwd=VERIF, env=env2, timeout=7200)
                keys = [ln.strip()[5:].strip() for ln in o.splitlines() if ln.strip().startswith('key:')]
                runs.append({'seed': s, 'exit': rc, 'violations': o.count('VIOLATION property='), 'keys': keys[:6],
                             'wall_s': round(time.time() - t0, 1)})
            out['checks'][pid] = runs
        return out
    finally:
        sh('git -C /repo worktree remove --force %s' % copy)
        shutil.rmtree(tmp, ignore_errors=True)


if __name__ == '__main__':
    res = main(sys.argv[1:])
    print(json.dumps(res, indent=1))
    mp = os.path.join(res['seed'], 'meta.json')
    if os.path.exists(mp) and os.path.realpath(res['seed']).startswith(VERIF):
        m = json.load(open(mp))
        ver = m.setdefault('verification', {})
        checks = dict(ver.get('checks', {}))
        checks.update(res.get('checks', {}))            # results of other checks run earlier are kept
        ver.update({k: v for k, v in res.items() if k not in ('seed', 'checks')})
        ver['checks'] = checks
        json.dump(m, open(mp, 'w'), indent=1)
