import warnings; warnings.filterwarnings('ignore')
import threading, time, sys, math
import yaql, ply.lex
from yaql.language import exceptions

class Abort(BaseException): pass

class Exec:
    """one execution: bodies run in real threads, exactly one runnable at a time."""
    def __init__(self, bodies, prefix):
        self.bodies = bodies; self.prefix = prefix
        self.sem = [threading.Semaphore(0) for _ in bodies]
        self.main = threading.Semaphore(0)
        self.done = [False] * len(bodies); self.res = [None] * len(bodies)
        self.trace = []        # (tid, tag) per point in global order
        self.choices = []      # chosen tid at each decision
        self.enabled_at = []   # enabled list at each decision
        self.cur = None
    def point(self, tag):
        t = threading.current_thread()
        tid = getattr(t, 'vf_tid', None)
        if tid is None or CUR is not self: return
        self.trace.append((tid, tag))
        self.main.release(); self.sem[tid].acquire()
    def _run(self, tid):
        self.sem[tid].acquire()
        try: self.res[tid] = ('ok', self.bodies[tid]())
        except Exception as e: self.res[tid] = ('exc', type(e).__name__, str(e))
        self.done[tid] = True; self.main.release()
    def go(self):
        global CUR
        CUR = self
        ths = []
        for i in range(len(self.bodies)):
            th = threading.Thread(target=self._run, args=(i,)); th.vf_tid = i; th.start(); ths.append(th)
        last = None; k = 0
        while not all(self.done):
            enabled = [i for i in range(len(self.bodies)) if not self.done[i]]
            # canonical order: running thread first if still enabled
            if last in enabled: enabled = [last] + [i for i in enabled if i != last]
            if k < len(self.prefix): c = self.prefix[k]
            else: c = 0
            tid = enabled[c]
            self.enabled_at.append((enabled, last)); self.choices.append(c)
            k += 1; last = tid
            self.sem[tid].release(); self.main.acquire()
        for th in ths: th.join()
        CUR = None
        return self

CUR = None
orig_token = ply.lex.Lexer.token; orig_input = ply.lex.Lexer.input
def token(self):
    if CUR is not None: CUR.point('token')
    return orig_token(self)
def inp(self, s):
    if CUR is not None: CUR.point('input')
    return orig_input(self, s)
ply.lex.Lexer.token = token; ply.lex.Lexer.input = inp

def explore(bodies, bound, check):
    n = 0
    stack = [[]]
    while stack:
        prefix = stack.pop()
        x = Exec(bodies, prefix).go(); n += 1
        check(x)
        # preemptions so far along the path
        pre = 0; cost_before = []
        for i, (enabled, last) in enumerate(x.enabled_at):
            cost_before.append(pre)
            if last is not None and last in enabled and x.choices[i] != 0: pre += 1
        for i in range(len(prefix), len(x.choices)):
            enabled, last = x.enabled_at[i]
            for alt in range(1, len(enabled)):
                cost = cost_before[i] + (1 if (last is not None and last in enabled) else 0)
                if bound is not None and cost > bound: continue
                stack.append(x.choices[:i] + [alt])
    return n

if __name__ == '__main__':
    eng = yaql.YaqlFactory().create()
    texts = ['1 + 2', 'a.b']
    base = {}
    for t in texts:
        e2 = yaql.YaqlFactory().create(); base[t] = str(e2(t))
    bodies = [lambda t=t: str(eng(t)) for t in texts]
    viol = [0]; outcomes = set()
    def check(x):
        out = tuple(x.res)
        outcomes.add(out)
        for i, t in enumerate(texts):
            if x.res[i] != ('ok', base[t]): viol[0] += 1; break
    for bound in (0, 1, 2, None):
        viol[0] = 0; outcomes.clear()
        t0 = time.time(); n = explore(bodies, bound, check); dt = time.time() - t0
        print('bound', bound, 'schedules', n, 'violating', viol[0], 'distinct outcomes', len(outcomes), 'ms/exec %.2f' % (dt / n * 1000))
    print('closed form C(10,5) =', math.comb(10, 5))
    # three threads, short texts
    texts = ['1', 'a', "'s'"]
    base = {t: str(yaql.YaqlFactory().create()(t)) for t in texts}
    bodies = [lambda t=t: str(eng(t)) for t in texts]
    viol[0] = 0; outcomes.clear(); t0 = time.time(); n = explore(bodies, None, check); dt = time.time() - t0
    print('3 threads x 3 points: schedules', n, 'expected', math.factorial(9) // 6 ** 3, 'violating', viol[0], 'ms/exec %.2f' % (dt / n * 1000))
