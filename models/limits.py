"""Reference model for property C08 (iterator limit and memory quota).

Written from doc/source/extending_yaql.rst ("yaql.limitIterators",
"yaql.memoryQuota", "yaql.convertTuplesToLists", "yaql.convertSetsToLists")
and the property statement; imports nothing from yaql.

Result shapes (enumeration b)
-----------------------------
A shape is a chain of levels ((kind, size), ...), outermost first, kind in
KINDS.  Level i is a container with `size` elements; its LAST element is the
container of level i+1 (if there is one), every other element is a distinct
scalar leaf.  "dict" nests through the value of its last key.

Growth chains (enumeration c)
-----------------------------
A chain is (base_kind, base_size, (step, ...)); `chain_text` spells it as a
YAQL expression over the variable $b, `chain_value` computes the value the
expression denotes in plain Python (tuples for lists), `chain_volume` the
largest number of elements/characters any intermediate value would have with
no quota at all (used only to keep the enumerated space inside safe
allocation sizes).
"""
import collections
import itertools

KINDS = ('list', 'dict', 'set', 'iter')


# ---------------------------------------------------------------------------
# (b) result shapes
# ---------------------------------------------------------------------------
def sizes_around(n):
    """N-1, N, N+1 (non-negative); for 'no limit' (n < 0) the control sizes 0, 1, 2."""
    if n < 0:
        return [0, 1, 2]
    return [s for s in (n - 1, n, n + 1) if s >= 0]


def shapes(n, depth):
    """All chains of 1..depth levels over KINDS x sizes_around(n); a level that
    has a deeper level needs room for it (size >= 1)."""
    sizes = sizes_around(n)
    out = []
    for d in range(1, depth + 1):
        for combo in itertools.product(itertools.product(KINDS, sizes), repeat=d):
            if all(size >= 1 for (_k, size) in combo[:-1]):
                out.append(tuple(combo))
    return out


def build(shape):
    """A fresh host document of that shape (one-shot iterators are generators,
    so build once per evaluation).  A list inside a set is given as a tuple and
    a set inside a set as a frozenset (host Python needs hashable elements)."""
    assert buildable(shape)
    return _build(shape, False)


def _build(shape, in_set):
    (kind, size), rest = shape[0], shape[1:]
    leaves = list(range(size - 1 if rest else size))
    if kind == 'dict':
        doc = {'k%d' % i: i for i in leaves}
        if rest:
            doc['z'] = _build(rest, False)
        return doc
    # below a set everything must stay hashable until a generator (hashable by identity) intervenes
    child = [_build(rest, kind == 'set' or (in_set and kind == 'list'))] if rest else []
    if kind == 'list':
        return tuple(leaves + child) if in_set else leaves + child
    if kind == 'set':
        return frozenset(leaves + child) if in_set else set(leaves + child)
    return iter(leaves + child)


def buildable(shape):
    """A host set cannot hold a dict, directly or inside tuples/frozensets
    (unhashable in host Python); a generator is hashable whatever it yields."""
    in_set = False
    for kind, _size in shape:
        if kind == 'dict' and in_set:
            return False
        in_set = kind == 'set' or (in_set and kind == 'list')
    return True


def too_large(shape, n):
    """Statement: "no collection with more than N elements appears at any depth
    of a result: the evaluation raises CollectionTooLargeException instead"."""
    return n >= 0 and any(size > n for (_k, size) in shape)


def image(shape, tuples_to_lists, sets_to_lists):
    """The finalised image of the document: dict -> dict, list -> list (tuple
    when convertTuplesToLists is off: input conversion makes every sequence a
    tuple), set -> list | set per convertSetsToLists, iterator -> list.
    Sets are returned as frozensets of images so that they compare
    order-insensitively (and as ('SETLIST', frozenset) when converted to a list)."""
    (kind, size), rest = shape[0], shape[1:]
    leaves = list(range(size - 1 if rest else size))
    if kind == 'dict':
        doc = {'k%d' % i: i for i in leaves}
        if rest:
            doc['z'] = image(rest, tuples_to_lists, sets_to_lists)
        return doc
    items = leaves + ([image(rest, tuples_to_lists, sets_to_lists)] if rest else [])
    if kind == 'list':
        return list(items) if tuples_to_lists else tuple(items)
    if kind == 'iter':
        return list(items)
    return ('SETLIST' if sets_to_lists else 'SET', items)


def unhashable_member(shape, tuples_to_lists, sets_to_lists):
    """True when the finalised image would need an unhashable member inside a
    real set (sets kept as sets, member converted to list/dict/set).  That is
    property C10's question, not C08's: such shapes are out of domain here."""
    if sets_to_lists:
        return False
    for i, (kind, _size) in enumerate(shape[:-1]):
        if kind == 'set' and not _stays_hashable(shape[i + 1:], tuples_to_lists):
            return True
    return False


def _stays_hashable(sub, tuples_to_lists):
    kind = sub[0][0]
    if kind != 'list' or tuples_to_lists:
        return False          # dict, set, list-from-iterator, list: unhashable
    return len(sub) == 1 or _stays_hashable(sub[1:], tuples_to_lists)


def same_image(value, img):
    """Exact comparison of a finalised value with an image (container types
    included, sets order-insensitive)."""
    if isinstance(img, tuple) and len(img) == 2 and img[0] in ('SET', 'SETLIST', 'VIEW'):
        want = {'SET': (set,), 'SETLIST': (list,), 'VIEW': (set, list)}[img[0]]
        if type(value) not in want or len(value) != len(img[1]):
            return False
        rest = list(value)
        for x in img[1]:
            for j, y in enumerate(rest):
                if same_image(y, x):
                    del rest[j]
                    break
            else:
                return False
        return True
    if isinstance(img, dict):
        return (type(value) is dict and set(value) == set(img)
                and all(same_image(value[k], img[k]) for k in img))
    if isinstance(img, (list, tuple)):
        return (type(value) is type(img) and len(value) == len(img)
                and all(same_image(a, b) for a, b in zip(value, img)))
    return type(value) is type(img) and value == img


def max_collection(value):
    """Largest number of elements of any collection at any depth of a plain result."""
    best = 0
    stack = [value]
    while stack:
        v = stack.pop()
        if isinstance(v, dict):
            best = max(best, len(v))
            stack.extend(v.keys())
            stack.extend(v.values())
        elif isinstance(v, (list, tuple, set, frozenset)):
            best = max(best, len(v))
            stack.extend(v)
    return best


# ---------------------------------------------------------------------------
# (r) result kinds: every kind of collection a function can return, as the result or nested in it
# ---------------------------------------------------------------------------
# A spec is (wrappers, kind, size, origin): a leaf collection of `size` elements of one of RK_KINDS,
# inside 0..depth one-element containers built by the expression (`[X]`, `{w => X}`, `set(X)`).
# origin says where the leaf comes from:
#   data  the input document `$` (converted by the library on the way in: list/tuple -> yaql list, set/frozenset ->
#         yaql set, dict -> yaql dict, iterator/generator -> lazy sequence); the dictionary views are
#         `$.keys()`, `$.values()`, `$.items()` of an input dictionary of `size` entries
#   var   the same input held by the context variable $v
#   expr  built inside the expression from literals ([0, 1], set(0, 1), {k0 => 0, k1 => 1}, [0, 1].select($))
#   host  returned as a raw Python object by a function mk() registered by the host (what a library
#         function may return as well: mutable list, tuple, set, frozenset, dict, the three views of a
#         plain dict, iterator, generator, deque, range)
# Elements: list-like kinds hold 0..size-1, dicts {'k0': 0, ...}, keys 'k0'.., values 0.., items the pairs.
RK_WRAPPERS = ('list', 'dict', 'set')
RK_VIEWS = ('keys', 'values', 'items')
RK_KINDS = {
    'data': ('list', 'tuple', 'set', 'frozenset', 'dict', 'keys', 'values', 'items', 'iter', 'generator'),
    'var': ('list', 'tuple', 'set', 'frozenset', 'dict', 'keys', 'values', 'items', 'iter', 'generator'),
    'expr': ('list', 'set', 'dict', 'keys', 'values', 'items', 'iter'),
    'host': ('list', 'tuple', 'set', 'frozenset', 'dict', 'keys', 'values', 'items', 'iter', 'generator',
             'deque', 'range'),
}
RK_ORIGINS = tuple(RK_KINDS)


def rk_specs(n, depth):
    out = []
    for d in range(depth + 1):
        for wrappers in itertools.product(RK_WRAPPERS, repeat=d):
            for origin in RK_ORIGINS:
                for kind in RK_KINDS[origin]:
                    for size in sizes_around(n):
                        out.append((wrappers, kind, size, origin))
    return out


def _rk_dict(size):
    return {'k%d' % i: i for i in range(size)}


def rk_input(kind, size):
    """The host value given as data / variable (a dictionary for the view kinds); fresh per evaluation."""
    if kind in ('dict',) + RK_VIEWS:
        return _rk_dict(size)
    return {'list': list, 'tuple': tuple, 'set': set, 'frozenset': frozenset, 'iter': iter,
            'generator': lambda r: (i for i in r)}[kind](range(size))


def rk_host(kind, size):
    """The raw Python object mk() returns."""
    if kind == 'range':
        return range(size)
    if kind == 'deque':
        return collections.deque(range(size))
    if kind in RK_VIEWS:
        return getattr(_rk_dict(size), kind)()
    return rk_input(kind, size)


def rk_text(spec):
    wrappers, kind, size, origin = spec
    if origin == 'expr':
        if kind in ('dict',) + RK_VIEWS:
            text = '{%s}' % ', '.join('k%d => %d' % (i, i) for i in range(size))
        elif kind == 'set':
            text = 'set(%s)' % ', '.join(str(i) for i in range(size))
        else:
            text = '[%s]' % ', '.join(str(i) for i in range(size)) + ('.select($)' if kind == 'iter' else '')
    else:
        text = {'data': '$', 'var': '$v', 'host': 'mk()'}[origin]
    if kind in RK_VIEWS and origin != 'host':
        text += '.%s()' % kind
    for w in reversed(wrappers):
        text = {'list': '[%s]', 'dict': '{w => %s}', 'set': 'set(%s)'}[w] % text
    return text


def _rk_leaf_hashable(kind, origin):
    """Can the value the expression holds BEFORE finalisation be hashed?  yaql lists/sets/dicts (tuple, frozenset,
    FrozenDict) can, raw host list/set/dict/deque cannot, keys/items views cannot (they are sets that define
    __eq__), values views and iterators hash by identity."""
    if kind in ('list', 'set', 'dict'):
        return origin != 'host'
    return kind not in ('keys', 'items', 'deque')


def _rk_hashable(wrappers, kind, origin):
    if not wrappers:
        return _rk_leaf_hashable(kind, origin)
    return wrappers[0] == 'set' or _rk_hashable(wrappers[1:], kind, origin)


def rk_buildable(spec):
    """`set(X)` needs a hashable X, and flattens X when it is an iterator (then X is no member)."""
    wrappers, kind, _size, origin = spec
    for i, w in enumerate(wrappers):
        if w == 'set':
            rest = wrappers[i + 1:]
            if not _rk_hashable(rest, kind, origin) or (not rest and kind in ('iter', 'generator')):
                return False
    return True


def rk_too_large(spec, n):
    """Statement: no collection with more than N elements at any depth of a result.  Every wrapper holds one
    element, the leaf `size`, every pair of an items view two."""
    wrappers, kind, size, _origin = spec
    if n < 0:
        return False
    return size > n or (bool(wrappers) and n < 1) or (kind == 'items' and size >= 1 and n < 2)


def _rk_final_hashable(wrappers, kind, origin, tuples_to_lists):
    """Only a tuple of hashables survives finalisation as something hashable."""
    if tuples_to_lists:
        return False
    if wrappers:
        return wrappers[0] == 'list' and _rk_final_hashable(wrappers[1:], kind, origin, tuples_to_lists)
    return kind == 'tuple' or (kind == 'list' and origin != 'host')


def rk_unhashable_final(spec, tuples_to_lists, sets_to_lists):
    """The finalised image would need an unhashable member inside a real set (C10's question, not C08's):
    a converted member of a set(...) wrapper, or the pairs of a non-empty items view as lists."""
    wrappers, kind, size, origin = spec
    if sets_to_lists:
        return False
    for i, w in enumerate(wrappers):
        if w == 'set' and not _rk_final_hashable(wrappers[i + 1:], kind, origin, tuples_to_lists):
            return True
    return kind == 'items' and size >= 1 and tuples_to_lists


def rk_image(spec, tuples_to_lists, sets_to_lists):
    """The finalised image (same_image() notation).  Sequences: list, or the type they had when
    convertTuplesToLists is off (yaql lists are tuples, a raw host list stays a list); sets: set | list per
    convertSetsToLists; every other iterable (values view, iterators, deque, range): list.  The keys and items
    views are documented as iterators over the keys / pairs and are sets for Python: whether they come back as
    a list or a set is not C08's question ('VIEW' accepts both, order-insensitively)."""
    wrappers, kind, size, origin = spec
    seq = list if tuples_to_lists else tuple
    if kind in ('list', 'tuple'):
        img = list(range(size)) if kind == 'list' and origin == 'host' else seq(range(size))
    elif kind in ('set', 'frozenset'):
        img = ('SETLIST' if sets_to_lists else 'SET', list(range(size)))
    elif kind == 'dict':
        img = _rk_dict(size)
    elif kind == 'keys':
        img = ('VIEW', list(_rk_dict(size)))
    elif kind == 'items':
        img = ('VIEW', [seq(p) for p in _rk_dict(size).items()])
    else:
        img = list(range(size))
    for w in reversed(wrappers):
        img = seq([img]) if w == 'list' else {'w': img} if w == 'dict' else ('SETLIST' if sets_to_lists else 'SET', [img])
    return img


# ---------------------------------------------------------------------------
# (b') a collection used as a dict KEY is part of the result as well
# ---------------------------------------------------------------------------
# A key shape is (wrappers, key kind, key size): a dict with one entry whose key
# is a collection, wrapped in 0..2 one-element containers (list / dict value /
# one-shot iterator).  key kind: 'tuple' (size elements), 'iter' (a one-shot
# iterator of size elements), 'endless' (an endless source; size None).
KEY_WRAPPERS = ('list', 'dict', 'iter')
KEY_KINDS = ('tuple', 'iter', 'endless')


def key_shapes(n, depth=2):
    out = []
    for d in range(depth + 1):
        for wrappers in itertools.product(KEY_WRAPPERS, repeat=d):
            for size in sizes_around(n):
                out.append((wrappers, 'tuple', size))
                out.append((wrappers, 'iter', size))
            if n >= 0:                      # without a limit an endless key is simply endless
                out.append((wrappers, 'endless', None))
    return out


def key_build(kshape, endless):
    """Host document; `endless` is the instrumented source to use as the key."""
    wrappers, kind, size = kshape
    key = tuple(range(size)) if kind == 'tuple' else iter(range(size)) if kind == 'iter' else endless
    doc = {key: 1}
    for w in reversed(wrappers):
        doc = [doc] if w == 'list' else {'z': doc} if w == 'dict' else iter([doc])
    return doc


def key_too_large(kshape, n):
    """Every wrapper and the dict itself hold one element; the key holds `size`."""
    wrappers, kind, size = kshape
    if n < 0:
        return False
    return n < 1 or kind == 'endless' or size > n


def key_image(kshape, tuples_to_lists):
    """The finalised image, or None where it would need an unhashable key (a
    list made from the tuple / iterator): that is C10's question."""
    wrappers, kind, size = kshape
    if kind != 'tuple' or tuples_to_lists:
        return None
    doc = {tuple(range(size)): 1}
    for w in reversed(wrappers):
        doc = (doc,) if w == 'list' else {'z': doc} if w == 'dict' else [doc]
    return doc


# ---------------------------------------------------------------------------
# (c) growth chains
# ---------------------------------------------------------------------------
# step name -> (input kinds, output kind, YAQL template over E (the current
# expression, already parenthesised))
STEPS = {
    # strings
    's+s':      ('str', 'str', '%(E)s + %(E)s'),
    's+lit':    ('str', 'str', "%(E)s + 'aaaaaaaaaa'"),
    's*3':      ('str', 'str', '%(E)s * 3'),
    '3*s':      ('str', 'str', '3 * %(E)s'),
    's*100':    ('str', 'str', '%(E)s * 100'),
    '100*s':    ('str', 'str', '100 * %(E)s'),
    's.join':   ('str', 'str', '[%(E)s, %(E)s, %(E)s].join(%(E)s)'),
    's.repl':   ('str', 'str', "%(E)s.replace('a', 'aaaa')"),
    's.repld':  ('str', 'str', "%(E)s.replace({a => aaaa})"),
    's>list':   ('str', 'list', '[%(E)s, %(E)s]'),
    's>chars':  ('str', 'list', '%(E)s.toCharArray()'),
    's.acc':    ('str', 'str', '[%(E)s, %(E)s, %(E)s].accumulate($1 + $2).toList().last()'),
    's>dict':   ('str', 'dict', '{k => %(E)s}'),
    # lists
    # `+` on iterables returns an iterable (lazy unless both are tuples); `*` needs a sequence
    'l+l':      ('list', 'list', '(%(E)s + %(E)s).toList()'),
    'l+lit':    ('list', 'list', '(%(E)s + [1, 2, 3]).toList()'),
    'l*3':      ('list', 'list', '%(E)s * 3'),
    '3*l':      ('list', 'list', '3 * %(E)s'),
    'l*100':    ('list', 'list', '%(E)s * 100'),
    '100*l':    ('list', 'list', '100 * %(E)s'),
    'l.ins':    ('list', 'list', '%(E)s.insert(0, 7)'),
    'l.insl':   ('list', 'list', '%(E)s.insert(0, %(E)s)'),
    'l.acc':    ('list', 'list', '[%(E)s, %(E)s, %(E)s].accumulate(($1 + $2).toList()).toList().last()'),
    'l>list':   ('list', 'list', 'list(%(E)s, %(E)s)'),
    'l>str':    ('list', 'str', "%(E)s.select('a').join('a')"),
    'l>dict':   ('list', 'dict', 'dict(a => %(E)s, b => %(E)s)'),
    'l>todict': ('list', 'dict', '%(E)s.enumerate().toDict($[0], $[1])'),
    # dicts
    'd+d':      ('dict', 'dict', '%(E)s + {z => 1}'),
    'd.set':    ('dict', 'dict', '%(E)s.set(y, %(E)s)'),
    'd.setm':   ('dict', 'dict', '%(E)s.set(x => 1, y => 2)'),
    'd.setd':   ('dict', 'dict', '%(E)s.set({w => %(E)s})'),
    'd>dict':   ('dict', 'dict', 'dict(%(E)s.items())'),
    'd>kdict':  ('dict', 'dict', '{a => %(E)s, b => %(E)s}'),
    'd>keys':   ('dict', 'list', '%(E)s.keys().toList()'),
    'd>items':  ('dict', 'list', '%(E)s.items().toList()'),
    'd>str':    ('dict', 'str', "%(E)s.keys().select('a').join('a')"),
}
STEP_ORDER = list(STEPS)          # simplest-first within a kind = definition order


def base_value(kind, size):
    if kind == 'str':
        return 'a' * size
    if kind == 'list':
        return tuple(range(size))
    return {'k%d' % i: i for i in range(size)}


def chains(max_steps, base_sizes):
    """All chains of 1..max_steps kind-correct steps from every base kind/size."""
    out = []
    for kind in ('str', 'list', 'dict'):
        paths = [((), kind)]
        every = []
        for _ in range(max_steps):
            nxt = []
            for steps, k in paths:
                for s in STEP_ORDER:
                    if STEPS[s][0] == k:
                        nxt.append((steps + (s,), STEPS[s][1]))
            every.extend(nxt)
            paths = nxt
        for steps, _k in every:
            for size in base_sizes:
                out.append((kind, size, steps))
    return out


def chain_text(chain):
    _kind, _size, steps = chain
    e = '$b'
    for s in steps:
        e = '(' + STEPS[s][2] % {'E': e} + ')'
    return e


def _apply(step, v, b):
    """Plain-Python meaning of one step (docstrings of `+`, `*`, join, replace,
    insert, accumulate, list, toDict, set, dict, keys, items, toCharArray)."""
    if step in ('s+s', 'l+l'):
        return v + v
    if step == 's+lit':
        return v + 'aaaaaaaaaa'
    if step == 'l+lit':
        return v + (1, 2, 3)
    if step in ('s*3', '3*s', 'l*3', '3*l'):
        return v * 3
    if step in ('s*100', '100*s', 'l*100', '100*l'):
        return v * 100
    if step == 's.join':
        return v.join([v, v, v])
    if step in ('s.repl', 's.repld'):
        return v.replace('a', 'aaaa')
    if step == 's>list':
        return (v, v)
    if step == 's>chars':
        return tuple(v)
    if step == 's>dict':
        return {'k': v}
    if step == 'l.ins':
        return (7,) + v
    if step == 'l.insl':
        return (v,) + v
    if step in ('l.acc', 's.acc'):
        return v + v + v
    if step == 'l>list':
        return (v, v)
    if step in ('l>str', 'd>str'):
        return 'a' * max(0, 2 * len(v) - 1)
    if step in ('l>dict', 'd>kdict'):
        return {'a': v, 'b': v}
    if step == 'l>todict':
        return dict(enumerate(v))
    if step == 'd+d':
        return dict(v, z=1)
    if step == 'd.set':
        return dict(v, y=v)
    if step == 'd.setm':
        return dict(v, x=1, y=2)
    if step == 'd.setd':
        return dict(v, w=v)
    if step == 'd>dict':
        return dict(v)
    if step == 'd>keys':
        return tuple(v)
    if step == 'd>items':
        return tuple((k, x) for k, x in v.items())
    raise AssertionError(step)


# growth of the top-level length per step: (multiplier, addend); used to bound
# the enumerated space without building anything
_GROW = {
    's+s': (2, 0), 'l+l': (2, 0), 's+lit': (1, 10), 'l+lit': (1, 3),
    's*3': (3, 0), '3*s': (3, 0), 'l*3': (3, 0), '3*l': (3, 0),
    's*100': (100, 0), '100*s': (100, 0), 'l*100': (100, 0), '100*l': (100, 0),
    's.join': (5, 0), 's.acc': (3, 0), 's.repl': (4, 0), 's.repld': (4, 0), 's>list': (0, 2), 's>chars': (1, 0),
    's>dict': (0, 1), 'l.ins': (1, 1), 'l.insl': (1, 1), 'l.acc': (3, 0), 'l>list': (0, 2),
    'l>str': (2, 0), 'd>str': (2, 0), 'l>dict': (0, 2), 'd>kdict': (0, 2), 'l>todict': (1, 0), 'd+d': (1, 1), 'd.set': (1, 1),
    'd.setm': (1, 2), 'd.setd': (1, 1), 'd>dict': (1, 0), 'd>keys': (1, 0), 'd>items': (1, 0),
}


def chain_volume(chain):
    """Largest top-level length of any intermediate value with no quota."""
    _kind, size, steps = chain
    n = best = size
    for s in steps:
        mul, add = _GROW[s]
        n = n * mul + add
        best = max(best, n)
    return best


def chain_value(chain):
    kind, size, steps = chain
    b = base_value(kind, size)
    v = b
    for s in steps:
        v = _apply(s, v, b)
    return v


def same_value(observed, expected):
    """Finalised observed value vs model value: lists for tuples, dicts for
    dicts, exact leaves."""
    if isinstance(expected, tuple):
        return (type(observed) is list and len(observed) == len(expected)
                and all(same_value(a, b) for a, b in zip(observed, expected)))
    if isinstance(expected, dict):
        if type(observed) is not dict or len(observed) != len(expected):
            return False
        # keys may be tuples in the model (l>dict over nested lists): not used by the steps above
        return all(k in observed and same_value(observed[k], x) for k, x in expected.items())
    return type(observed) is type(expected) and observed == expected
