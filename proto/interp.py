import warnings; warnings.filterwarnings('ignore')
import itertools, collections, sys
import yaql
eng = yaql.YaqlFactory(allow_delegates=True).create(); ROOT = yaql.create_context(delegates=True)
class Err(Exception): pass
# ---------------- reference interpreter (environment passing; frames are dicts with parent)
class Frame:
    def __init__(self, parent=None): self.parent = parent; self.vars = {}; self.funcs = {}
    def get(self, n):
        n = '1' if n == '' else n
        f = self
        while f is not None:
            if n in f.vars: return f.vars[n]
            f = f.parent
        return None
    def func(self, n):
        f = self
        while f is not None:
            if n in f.funcs: return f.funcs[n]
            f = f.parent
        raise Err('unknown function ' + n)
def add(a, b):
    if isinstance(a, bool) or isinstance(b, bool): raise Err()
    if isinstance(a, int) and isinstance(b, int): return a + b
    if isinstance(a, list) and isinstance(b, list): return a + b
    raise Err()
def ev(e, env):
    k = e[0]
    if k == 'lit': return e[1]
    if k == 'var': return env.get(e[1])
    if k == 'list': return [ev(x, env) for x in e[1]]
    if k == 'add': return add(ev(e[1], env), ev(e[2], env))
    if k == 'let':      # ('let', [pos exprs], [(name, expr)], body)
        f = Frame(env)
        for i, x in enumerate(e[1], 1): f.vars[str(i)] = ev(x, env)
        for n, x in e[2]: f.vars[n] = ev(x, env)
        return ev(e[3], f)
    if k == 'with':
        f = Frame(env)
        for i, x in enumerate(e[1], 1): f.vars[str(i)] = ev(x, env)
        return ev(e[2], f)
    if k == 'unpack':   # ('unpack', listexpr, names, body)
        v = ev(e[1], env)
        if not isinstance(v, list): raise Err()
        f = Frame(env)
        if e[2]:
            if len(v) != len(e[2]): raise Err()
            for n, x in zip(e[2], v): f.vars[n] = x
        else:
            for i, x in enumerate(v, 1): f.vars[str(i)] = x
        return ev(e[3], f)
    if k == 'select':   # ('select', coll, body)
        v = ev(e[1], env)
        if not isinstance(v, list): raise Err()
        out = []
        for x in v:
            f = Frame(env); f.vars['1'] = x; out.append(ev(e[2], f))
        return out
    if k == 'def':      # ('def', fname, lambody, body): lexical capture of the def frame
        f = Frame(env)
        f.funcs[e[1]] = (e[2], f)
        return ev(e[3], f)
    if k == 'callf':
        lam, fenv = env.func(e[1])
        args = [ev(x, env) for x in e[2]]
        f = Frame(fenv)
        for i, x in enumerate(args, 1): f.vars[str(i)] = x
        return ev(lam, f)
    if k == 'lamcall':  # let(g => lambda(body)) style delegate: ('lamcall', lambody, arg) == lambda(body)(arg)
        a = ev(e[2], env); f = Frame(env); f.vars['1'] = a
        return ev(e[1], f)
    raise AssertionError(k)
# ---------------- printer
def tx(e):
    k = e[0]
    if k == 'lit': return 'null' if e[1] is None else repr(e[1]) if not isinstance(e[1], bool) else str(e[1]).lower()
    if k == 'var': return '$' + e[1]
    if k == 'list': return '[' + ', '.join(tx(x) for x in e[1]) + ']'
    if k == 'add': return '(%s + %s)' % (tx(e[1]), tx(e[2]))
    if k == 'let': return '(let(%s) -> %s)' % (', '.join([tx(x) for x in e[1]] + ['%s => %s' % (n, tx(x)) for n, x in e[2]]), tx(e[3]))
    if k == 'with': return '(with(%s) -> %s)' % (', '.join(tx(x) for x in e[1]), tx(e[2]))
    if k == 'unpack': return '(%s.unpack(%s) -> %s)' % (tx(e[1]), ', '.join(e[2]), tx(e[3]))
    if k == 'select': return '%s.select(%s)' % (tx(e[1]), tx(e[2]))
    if k == 'def': return '(def(%s, %s) -> %s)' % (e[1], tx(e[2]), tx(e[3]))
    if k == 'callf': return '%s(%s)' % (e[1], ', '.join(tx(x) for x in e[2]))
    if k == 'lamcall': return '(lambda(%s)(%s))' % (tx(e[1]), tx(e[2]))
# ---------------- enumeration of binder nests
VALS = [('lit', 1), ('var', ''), ('var', 'x'), ('add', ('var', 'x'), ('lit', 1)), ('var', '2')]
DUMP = ('list', [('var', ''), ('var', '2'), ('var', 'x'), ('var', 'y')])
DUMPF = ('list', [('var', ''), ('var', 'x'), ('callf', 'f', [('lit', 5)])])
def binders(body):
    for v in VALS:
        yield ('let', [], [('x', v)], body)
        yield ('let', [v], [], body)
        yield ('with', [v, ('lit', 7)], body)
        yield ('unpack', ('list', [v, ('lit', 8)]), ['x', 'y'], body)
        yield ('unpack', ('list', [v]), [], body)
        yield ('select', ('list', [v, ('lit', 9)]), body)
        yield ('def', 'f', ('add', ('var', ''), v if v[0] != 'lit' else ('var', 'x')), body)
        yield ('lamcall', body, v)
    yield ('let', [], [('x', ('lit', 3)), ('y', ('var', 'x'))], body)
    # sibling: [binder(dump), dump]  -> non leakage
def nests(depth, leaf):
    if depth == 0: yield leaf; return
    for inner in nests(depth - 1, leaf):
        for b in binders(inner): yield b
        # sibling composition: evaluate a binder next to the body to show non-leakage
    if depth >= 2:
        for inner in nests(depth - 2, leaf):
            for b in binders(leaf):
                yield ('list', [b, inner])
def norm(v):
    if isinstance(v, (list, tuple)): return [norm(x) for x in v]
    return v
if __name__ == '__main__':
    D = int(sys.argv[1])
    n = bad = errs = 0; ex = []
    for data in (10, None):
        for leaf in (DUMP, DUMPF):
            for d in range(1, D + 1):
                for e in nests(d, leaf):
                    env = Frame(); env.vars['1'] = data
                    try: exp = ('v', ev(e, env))
                    except Err: exp = ('e',)
                    txt = tx(e)
                    try: got = ('v', norm(eng(txt).evaluate(data=data, context=ROOT.create_child_context())))
                    except Exception as x: got = ('e',)
                    n += 1; errs += exp == ('e',)
                    if exp != got:
                        bad += 1
                        if len(ex) < 8: ex.append((txt, exp, got))
    print('cases', n, 'model-errors', errs, 'mismatch', bad)
    for x in ex: print('  ', x)
