"""C05 - overload resolution follows the documented rules.

E3 small-scope enumeration: families of overloads of one name `foo`
(parameter lists built from positional parameters with/without default, *args,
keyword-only, **kwargs, a hidden Engine/Context parameter at position 0/1/2,
lazy parameters; types from the lattice Any > A > B, C unrelated, and the union
type AC = PythonType((A, C)) that compares with nothing, nullable or
not; kinds function / method / extension; @no_kwargs) spread over chains of
contexts (same layer, child, grandchild with an empty layer between, exclusive
layer) x calls (<= 2 positional + <= 1 keyword argument, empty slots,
variables / constants / null, with and without receiver).  Every call is made
through `context(name, engine, receiver)(*argument expressions)`; every call
that has an empty slot or a keyword argument and can be spelled is *also*
parsed from text (`foo(pa(0), , kW => pb('kW'))`, pa/pb being tick probes) and evaluated as
a statement.  Each payload returns its tag and what it received; argument
expressions are tick probes.  Expected: models/resolve.py.

Two further dimensions: (1) calls with TWO keyword arguments, written in both
orders, against pairs of same-layer overloads whose two keyword-bound
parameters (keyword-only; positional bound by keyword; one declared + one
caught by **kwargs) are declared in either order, all type pairs: specificity
is compared keyword by keyword, whatever the declaration order.  (2) layers
built by HISTORIES of registration attempts that contain a rejected one (a
method / extension method whose receiver parameter is missing or lazy, with
and without exclusive=True; the host catches InvalidMethodException): the
attempt must leave resolution exactly as it would be without it.

(3) the CONSTRUCTION PATH of an overload's kind: each kind (function / method /
extension method) reached by decorator, by the tri-state overrides
function= / method= (None / True / False) on a plain function, and by
overrides that narrow or widen a decorated one, given either to
context.register_function(f, ...) or to specs.get_function_definition(f, ...);
the model only sees the kind that results (models.resolve.kind_after).
(4) the TYPE ALPHABET: one- and two-parameter overloads declared with every
smart type of yaql/language/yaqltypes.py a parameter can have (YaqlExpression
unrestricted / restricted to each expression node class, Lambda, the constant
types, String ... DateTime, PythonType, AnyOf / Chain / NotOfType, nullable or
not) called - as text, the node kind matters - with arguments of every
expression node kind (call, binary / unary operator, indexer, list / map
literal, $variable, literals of each kind) and every value class; then pairs of
such overloads in one layer and in nearer / farther layers.  Acceptance is
models.resolve.type_accepts (from extending_yaql.rst); what the documentation
leaves open is counted outside the domain.

Overloads are enumerated in registration order (vf.resolution.OrderedContext):
the address order of the real overload set is C06's subject.
"""
import itertools

import vf.loader  # noqa: F401
from vf.core import Result
from vf import resolution as R
from models import resolve as M

ID = 'C05'
TITLE = 'overload resolution'
RULE = ('all (family of overloads over context layers, call, path) within the bound; a case is distinct by '
        '(layers - or the history of registration attempts / the construction paths of the kinds that built them -, call, path in {direct, text}; for the type alphabet: declared types, layering, argument texts) and non-trivial when at least one overload of the right kind is '
        'visible (expected outcome is not "unknown function/method"); judged = outcome (tag or error class, '
        'function/method flavour) + log of evaluated arguments + what the payload received')
ASSUMPTIONS = ['defaults of the enumerated parameters are type-correct for their own parameter (null for lazy ones)',
               'overloads of one layer are enumerated in registration order (set order is property C06)',
               'python keyword arguments handed directly to a family that contains a @no_kwargs overload are outside the domain '
               '(the decorator disables that syntax); the same call is still made through text',
               'a method whose first visible parameter is missing or lazy is rejected at registration (InvalidMethodException, caught by '
               'the host): in the singles/pairs/... families such a list is simply not enumerated as a method; in the registration '
               'histories the rejected attempt IS made and the model says it changes nothing (models.resolve.registered)',
               'accepted registrations of one layer share one exclusive flag (whether a later non-exclusive registration keeps an earlier '
               'exclusive one is not written down); the flag of a rejected attempt is free',
               'function= / method= overrides that leave an overload neither function nor method are outside the domain (the documentation '
               'knows three function types)',
               'type alphabet: an acceptance the documentation does not settle is outside the domain (`null` literal against a constant type, a '
               'keyword against StringConstant or YaqlExpression(Constant), anything but a call against Lambda(method=True)); so is a family '
               'where it matters whether laziness is compared before or after lazy / constant types have looked at the AST (the rules list '
               'laziness first, the implementation filters first); among smart types only single-class types below PythonType(object) are '
               'ordered by specificity, two other matches in one layer are ambiguous (rule 7)']
BOUNDS = {
    'quick': 'singles: parameter lists of <= 2 positional from 7 shapes [Any, A, B, Lazy, A?, A=default, C] x 11 extensions '
             '[*r, **kw, kW optional/required, kW with **kw, hidden Engine at 0 / Context at 1 / Engine at 2, combinations] x 3 kinds x 249 calls, both paths; '
             'pairs: 53 parameter lists (4 with an AC parameter) squared (ext/function kinds) x {same, child, grandchild, exclusive} x 133 calls '
             '(text path for the same-layer families); kind mixing: 6 lists squared x 8 kind pairs x 4 layerings; '
             'types: all pairs of 1-parameter lists over {Any, A, B, C, AC=(A, C)} x nullable x 4 layerings, both paths; '
             'Super: override foo(x: Any|A, base: Super(method=None|True|False)) of each kind calling base(x) / base() in the nearer layer, '
             '1-2 base overloads from 4 lists x 3 kinds in one or two farther layers, function and method syntax, both paths; '
             '@no_kwargs: 9 lists, flags (T), (T,T), (T,F), (F,T) x 3 layerings; triples: 7 lists cubed x 5 layerings; '
             'composite contexts: 7 lists cubed, two overloads in the two members of a MultiContext x member exclusive flags (F,F) (T,F) (F,T) (T,T) '
             'x both member orders x {first member, both members} holding the parent chain, above a third overload in an ordinary layer; 7 lists squared x 4 layerings with the chain linked in front of the library by LinkedContext; '
             'two keywords: all unordered same-layer pairs inside each of three groups of lists - {(*, kW: T1, kV: T2) in both declaration orders, (*, kW|kV: T, **kw: Any|A)}, '
             '{(x: T1, y: T2), (y: T2, x: T1)}, {(x: A, *, kW: T1, kV: T2) in both orders} with T1, T2 over {Any, A, B, C} - x calls with both keywords in both written orders, '
             'values {a, b, c} squared (behind a positional argument / a receiver for the third group), both paths; '
             'registration histories: a rejected attempt (3 invalid lists [no parameter, lazy receiver, keyword-only only] x {method, ext} x exclusive {F, T}) alone in the nearest layer, '
             'before / after an accepted registration (layer flag {F, T}) in it, or alone in a layer between two accepted ones; accepted overloads from 4 lists squared x 133 calls; '
             'kind construction: 54 paths = {context.register_function, specs.get_function_definition} x {plain, @method, @extension_method} x function= {None, T, F} x method= {None, T, F} '
             '(the 10 that leave neither call syntax are outside the domain): alone on 6 lists x 64 calls without keywords / empty slots, both paths; next to a second overload '
             'declared by decorator (3 kinds) on 2 lists squared x {same layer, nearer, farther, nearer exclusive, farther exclusive} x the 10 calls of arity <= 1; '
             'type alphabet: 53 declared types (YaqlExpression unrestricted / restricted to each of 9 node classes / to 2 unions, Lambda(method=F|T), Keyword, and nullable x '
             '{Constant, StringConstant, NumericConstant, BooleanConstant, String, Integer, Number, DateTime, Sequence, Iterable, Iterator, PythonType(object|str|A), AnyOf(String, Integer), '
             'NotOfType(String), NotOfType(Integer), Chain(Iterable, Sequence), Chain(Number, Integer)}) x 43 arguments (calls and $variables of 10 value classes, `$`, 6 binary, 3 unary, '
             '2 indexer, 2 list, 2 map expressions, 7 literals), text path; two parameters: 10 types squared x 14 arguments squared; '
             'pairs: 19 types squared (12 YaqlExpression, Lambda, Constant, NumericConstant, Keyword, anything, Integer, String) x {same, child, exclusive child} x 43 arguments',
    'thorough': 'singles: 10 shapes x 17 extensions (also typed/lazy *r, typed **kw, lazy kW) x 3 kinds x 349 calls '
                '(constants 1, \'k\', kw); pairs: 157 lists squared x 4 layerings x 173 calls; kind mixing and @no_kwargs on 16 lists; '
                'triples: 22 lists cubed x 5 layerings; composite contexts on 16 lists; two keywords: T1, T2 over {Any, A, B, C, A?, AC, Lazy}, values {a, b, c, n, null, 1}; '
                'registration histories: 7 invalid lists (also hidden-then-lazy, **kw only, lazy then eager, lazy *r), accepted overloads from 7 lists squared; '
                'kind construction: alone on 16 lists x 100 calls; the second overload also built by every path, 3 lists x 2 lists, 100 calls of arity <= 2; '
                'type alphabet: 55 types (2 more YaqlExpression unions); two parameters: 27 types squared x 43 arguments squared; pairs: 27 types squared (also Lambda(method=True), StringConstant, BooleanConstant?, PythonType(object), String?, PythonType(A)) x 4 layerings (also grandchild)',
}

SKIP = M.SKIP
LAT = R.LAT5


def P(name, kind, typ, nullable=False, default=False):
    return (name, kind, typ, nullable, default)


# ---------------------------------------------------------------------------
# parameter lists
# ---------------------------------------------------------------------------
CORE = [('Any', False, False), ('A', False, False), ('B', False, False), ('Lazy', True, False),
        ('A', True, False), ('A', False, True)]
UNRELATED = [('C', False, False)]
MORE = [('Any', True, True), ('Lazy', True, True), ('C', True, False),
        ('AC', False, False)]     # AC = PythonType((A, C)): accepts a, b, c; incomparable with every other type

R_ANY = P('r', 'varargs', 'Any', True)
R_B = P('r', 'varargs', 'B', False)
R_LAZY = P('r', 'varargs', 'Lazy', True)
KW_ANY = P('kw', 'varkw', 'Any', True)
KW_A = P('kw', 'varkw', 'A', False)
K_OPT = P('kW', 'kwonly', 'A', False, True)       # python name k_w: callers must use the alias
K_REQ = P('kW', 'kwonly', 'A', False, False)
K_LAZY = P('kW', 'kwonly', 'Lazy', True, True)
H_ENGINE = P('h', 'hidden', 'Engine')
H_CONTEXT = P('h', 'hidden', 'Context')


def bases(shapes, upto=2):
    out = [()]
    names = ('x', 'y')
    for n in range(1, upto + 1):
        for combo in itertools.product(shapes, repeat=n):
            if any(combo[i][2] and not combo[i + 1][2] for i in range(n - 1)):
                continue        # python: no parameter without default after one with default
            out.append(tuple(P(names[i], 'pos', *combo[i]) for i in range(n)))
    return out


def extensions(base, tier):
    out = [base, base + (R_ANY,), (H_ENGINE,) + base, base + (KW_ANY,), base + (K_OPT,), base + (K_REQ,),
           base + (R_ANY, KW_ANY), base + (K_OPT, KW_ANY)]
    if len(base) >= 1:
        out.append(base[:1] + (H_CONTEXT,) + base[1:])
        out.append(base[:1] + (H_CONTEXT,) + base[1:] + (R_ANY,))
    if len(base) == 2:
        out.append(base + (H_ENGINE,))
    if tier == 'thorough':
        out += [base + (R_B,), base + (R_LAZY,), base + (KW_A,), base + (K_LAZY,), base + (R_ANY, K_OPT, KW_ANY),
                (H_ENGINE,) + base + (R_ANY, KW_ANY)]
    return out


def all_plists(tier):
    shapes = CORE + UNRELATED + (MORE if tier == 'thorough' else [])
    out = []
    for b in bases(shapes):
        for e in extensions(b, tier):
            if e not in out:
                out.append(e)
    return out


def pair_plists(tier):
    """Parameter lists used for 2-overload families."""
    out = bases(CORE) + [(P('x', 'pos', 'C'),), (P('x', 'pos', 'C', True),)]     # C?: incomparable with A? on null
    out += [(P('x', 'pos', 'AC'),), (P('x', 'pos', 'AC', True),), (P('x', 'pos', 'A'), P('y', 'pos', 'AC')),
            (P('x', 'pos', 'AC'), P('y', 'pos', 'Any'))]
    for e in extensions((P('x', 'pos', 'A'),), 'quick')[1:]:
        if e not in out:
            out.append(e)
    if tier == 'thorough':
        for b in bases(CORE)[1:]:
            for e in extensions(b, 'quick')[1:4]:
                if e not in out:
                    out.append(e)
    return out


def small_plists(tier):
    """For kind mixing, @no_kwargs mixing and triples."""
    x = lambda *s: P('x', 'pos', *s)     # noqa: E731
    y = lambda *s: P('y', 'pos', *s)     # noqa: E731
    out = [(), (x('Any'),), (x('A'),), (x('Lazy', True),), (x('A', False, True),), (x('A'), y('Lazy', True)),
           (x('B'), y('A', True)), (x('A'), R_ANY), (x('Any'), K_OPT, KW_ANY)]
    if tier == 'thorough':
        out += [(x('B'),), (x('A', True),), (x('Any'), y('A')), (x('A'), y('A', False, True)), (x('A'), H_CONTEXT, y('B')),
                (x('C'),), (x('Any'), y('B'))]
    return out


def one_parameter_plists():
    """Every 1-parameter list over the whole type alphabet x nullable."""
    return [(P('x', 'pos', t, nullable),) for t in ('Any', 'A', 'B', 'C', 'AC') for nullable in (False, True)]


def kinds_plists(tier):
    return small_plists(tier) if tier == 'thorough' else small_plists(tier)[:3] + small_plists(tier)[5:8]


def kind_for(plist):
    """Extension method where a method is possible (seen by both call syntaxes), else function."""
    return 'ext' if M.valid_method(plist) else 'function'


# ---------------------------------------------------------------------------
# calls
# ---------------------------------------------------------------------------
def V(v):
    return ('var', v)


def K(c):
    return ('const', c)


def call_set(tier, size='full'):
    items = [V('a'), V('b'), V('c'), V('n'), K(1), K(None)]
    if tier == 'thorough':
        items += [K('k'), K('kw')]
    slots = items + [SKIP]
    out = [(None, (), ())]
    for n in (1, 2):
        for args in itertools.product(slots, repeat=n):
            out.append((None, args, ()))
    kwvals = [V('a'), V('c'), K(None), K(1)]
    if size == 'full':
        prefixes = [(), (V('a'),), (SKIP,), (V('a'), V('a')), (V('a'), SKIP), (SKIP, V('a'))]
        if tier == 'thorough':
            prefixes += [(V('c'),), (K(1),), (V('c'), V('a'))]
        names = ['x', 'y', 'kW', 'k_w', 'zz']
    else:
        prefixes = [(), (V('a'),), (V('a'), SKIP)]
        names = ['x', 'y', 'kW']
    for args in prefixes:
        for name in names:
            for v in kwvals:
                out.append((None, args, ((name, v),)))
    for recv in ('a', 'c', 'n'):
        out.append((('val', recv), (), ()))
        for a in slots:
            out.append((('val', recv), (a,), ()))
    for recv in ('a', 'b'):
        for args in ((), (V('a'),)) + (((SKIP,), (V('b'), V('a'))) if size == 'full' else ()):
            for name in ('y', 'kW') + (('x',) if size == 'full' else ()):
                for v in (V('a'), K(None)):
                    out.append((('val', recv), args, ((name, v),)))
    return out


def wants_text(call):
    return bool(call[2]) or SKIP in call[1]


# ---------------------------------------------------------------------------
# layerings: overloads -> layers (nearest first)
# ---------------------------------------------------------------------------
def layerings(n):
    if n == 1:
        return {'one': lambda o: ((False, (o[0],)),)}
    if n == 2:
        return {
            'same': lambda o: ((False, (o[0], o[1])),),
            'child': lambda o: ((False, (o[0],)), (False, (o[1],))),
            'grandchild': lambda o: ((False, (o[0],)), (False, ()), (False, (o[1],))),
            'exclusive': lambda o: ((True, (o[0],)), (False, (o[1],))),
        }
    return {
        'same3': lambda o: ((False, (o[0], o[1], o[2])),),
        'chain3': lambda o: ((False, (o[0],)), (False, (o[1],)), (False, (o[2],))),
        '1+2': lambda o: ((False, (o[0],)), (False, (o[1], o[2]))),
        '2+1': lambda o: ((False, (o[0], o[1])), (False, (o[2],))),
        'mid-exclusive': lambda o: ((False, (o[0],)), (True, (o[1],)), (False, (o[2],))),
    }


# ---------------------------------------------------------------------------
# judging
# ---------------------------------------------------------------------------
MECHANISMS = [
    ((M.SKIP_INTO_VARARGS,), 'skipped-slot-absorbed-by-varargs (map_args binds an empty slot to the *args parameter instead of requiring a default)'),
    ((M.SINGLE_PASS,), 'single-pass-winner-selection (choose_overload compares each match only with the current winner)'),
    ((M.SKIP_INTO_VARARGS, M.SINGLE_PASS), 'skipped-slot-absorbed-by-varargs + single-pass-winner-selection'),
]


def outcome_class(o):
    if o[0] == 'run':
        return 'run'
    if o[0] == 'error':
        return '%s-%s' % (o[1], o[2])
    return 'exception:%s' % o[1]


def classify(layers, call, path, obs, exp):
    """Name the mechanism: the observation equals the model with one documented rule switched off."""
    for rel, name in MECHANISMS:
        if obs in (expected(layers, call, rel), expected(layers, call, rel + (M.KEYWORD_UNCHECKED,))):
            return name
    if obs[0][:2] == ('exception', 'TypeError') and 'issubclass' in obs[0][2]:
        return ('specialization-compare-raises tuple-vs-class (PythonType.is_specialization_of hands a tuple of classes '
                'to issubclass as its first argument when one type is a class and the other a tuple of classes)')
    for _, overloads in layers:
        for o in overloads:
            declared = [M.python_spelling(p[0]) for p in o[1]
                        if p[1] in ('pos', 'kwonly') and M.python_spelling(p[0]) != p[0]]
            if any(p[1] == 'varkw' for p in o[1]) and any(k in declared for k, v in call[2]):
                return ('python-spelling-captured-through-varkw (a keyword that is the python name of a declared parameter is '
                        'passed on inside **kwargs and python binds it to that parameter, unchecked)')
    if any(p[2].startswith('Super/') for _, overloads in layers for o in overloads for p in o[1]):
        return 'base call through a Super parameter resolved differently (receiver / call kind / starting layer)'
    part = 'outcome' if obs[0] != exp[0] else 'evaluated-arguments' if obs[1] != exp[1] else 'payload-arguments'
    return 'model-mismatch %s: expected=%s observed=%s path=%s' % (part, outcome_class(exp[0]), outcome_class(obs[0]), path)


def expected(layers, call, relaxed=()):
    outcome, evaluated, binding = M.resolve(LAT, layers, call, relaxed)
    return outcome, evaluated, None if binding is None else R.render(binding)


_state = {}


def base():
    if 'base' not in _state:
        _state['base'] = R.base_context('c05', R.VALUES5)
    return _state['base']


def observe(ctx, call, path):
    return R.direct(ctx, call, R.VALUES5) if path == 'direct' else R.textual(ctx, call)


def paths_for(layers, call, text=True):
    out = []
    if not (call[2] and any(o[3] for _, ovs in layers for o in ovs)):
        out.append('direct')
    if (text == 'always' or (text and wants_text(call))) and R.spellable(call):
        out.append('text')
    return out


def undetermined(layers, call, exp):
    """The written rules do not say whether a constant that is bound *by keyword*
    to a declared parameter is type-checked before laziness is compared and the
    arguments are evaluated (extending_yaql.rst validates types only after
    evaluation; the property statement only says constants are checked first).
    Where the two readings differ the case is outside the documented domain."""
    if not any(v[0] == 'const' for k, v in call[2]):
        return False
    return expected(layers, call, (M.KEYWORD_UNCHECKED,)) != exp


def named(key, layers, call, path, obs, exp):
    """The finding key: the mechanism classify() recognises, else the class `key` of the family (if it has one)."""
    found = classify(layers, call, path, obs, exp)
    return key if key and found.startswith('model-mismatch') else found


def run_family(res, fid, layers, calls, text=True, key=None):
    ctx = R.build_layers(layers, R.CLASSES5, base())
    for ci, call in calls:
        exp = expected(layers, call)
        ood = undetermined(layers, call, exp)
        for path in paths_for(layers, call, text):
            res.case((fid, ci, path))
            obs = observe(ctx, call, path)
            res.evaluations += 1
            if ood:
                res.out_of_domain += 1
                res.outcomes['%s undetermined (keyword-bound constant)' % path] += 1
                continue
            res.transitions += 1
            if exp[0][1] != M.UNKNOWN:
                res.nontrivial += 1
            res.outcomes['%s %s%s' % (path, outcome_class(exp[0]),
                                      ' after evaluating arguments' if exp[0][0] == 'error' and exp[1] else '')] += 1
            if obs != exp:
                res.fail(named(key, layers, call, path, obs, exp),
                         {'layers': layers, 'call': call, 'path': path,
                          'text': R.text_of(call) if R.spellable(call) else None},
                         'observed %r expected %r' % (obs, exp))
    if len(res.samples) < 2:
        call = calls[len(calls) // 2][1]
        res.sample({'layers': repr(layers), 'call': repr(call), 'expected': repr(expected(layers, call))})


def overload(i, plist, kind, no_kwargs=False):
    return ('t%d' % (i + 1), plist, kind, no_kwargs)


# ---------------------------------------------------------------------------
# jobs
# ---------------------------------------------------------------------------
def job_grammar(tier):
    """The text path exists exactly for the calls `spellable` says (harness self-check, counted, not a property case)."""
    res = Result()
    from yaql.language import exceptions as yexc
    for call in call_set(tier):
        if call[1] == (SKIP,) and not call[2]:
            continue        # a lone empty slot has no spelling of its own: `foo()` is the call without arguments
        try:
            R.yq.engine()(R.text_of(call))
            parsed = True
        except yexc.YaqlParsingException:
            parsed = False
        if parsed != R.spellable(call):
            res.fail('harness: spellable() disagrees with the grammar', {'call': call}, R.text_of(call))
        res.extra['grammar_checked'] = res.extra.get('grammar_checked', 0) + 1
    return res


def job_single(tier, plists):
    res = Result()
    calls = list(enumerate(call_set(tier)))
    lay = layerings(1)['one']
    index = dict((pl, n) for n, pl in enumerate(all_plists(tier)))
    for pl in plists:
        for kind in ('function', 'method', 'ext'):
            if kind != 'function' and not M.valid_method(pl):
                res.out_of_domain += 1
                res.outcomes['invalid method (not registered)'] += 1
                continue
            run_family(res, ('single', index[pl], kind), lay((overload(0, pl, kind),)), calls)
    return res


def job_pairs(tier, firsts):
    res = Result()
    calls = list(enumerate(call_set(tier, 'small')))
    pls = pair_plists(tier)
    for name, lay in sorted(layerings(2).items()):
        for i in firsts:
            for j in range(len(pls)):
                if name == 'same' and j < i:
                    continue            # same layer: unordered pairs (registration order is not a dimension here)
                o = (overload(0, pls[i], kind_for(pls[i])), overload(1, pls[j], kind_for(pls[j])))
                run_family(res, ('pair', name, i, j), lay(o), calls, text=name == 'same')
    return res


def job_types(tier):
    """All pairs of 1-parameter overloads over {Any, A, B, C, AC} x nullable, all layerings."""
    res = Result()
    calls = list(enumerate(call_set(tier, 'small')))
    pls = one_parameter_plists()
    for name, lay in sorted(layerings(2).items()):
        for i in range(len(pls)):
            for j in range(i if name == 'same' else 0, len(pls)):
                o = (overload(0, pls[i], 'ext'), overload(1, pls[j], 'ext'))
                run_family(res, ('types', name, i, j), lay(o), calls)
    return res


def super_overrides():
    """foo(x, base: Super(method=None|True|False)) of every kind, calling base(x) or base()."""
    out = []
    for t in ('Any', 'A'):
        for kind in ('function', 'method', 'ext'):
            for variant, mode in (('None', 'arg'), ('None', 'noarg'), ('True', 'arg'), ('False', 'arg'), ('False', 'noarg')):
                out.append(('t1', (P('x', 'pos', t), P('base', 'hidden', 'Super/%s/%s' % (variant, mode))), kind, False))
    return out


def super_bases():
    x, y = P('x', 'pos', 'Any'), P('y', 'pos', 'Any')
    return [(pl, kind) for pl in ((), (x,), (P('x', 'pos', 'A'),), (x, y)) for kind in ('function', 'method', 'ext')
            if kind == 'function' or M.valid_method(pl)]


SUPER_CALLS = [(None, (V('a'),), ()), (None, (V('b'),), ()), (None, (V('c'),), ()),
               (('val', 'a'), (), ()), (('val', 'b'), (), ()), (('val', 'c'), (), ())]


def job_super(tier, part, of):
    """An override in the nearer layer reaches its base through a Super parameter;
    the farther layer(s) hold function / method / extension overloads of the name."""
    res = Result()
    calls = list(enumerate(SUPER_CALLS))
    bases_ = super_bases()
    n = 0
    for oi, over in enumerate(super_overrides()):
        fams = [('one', (b,)) for b in range(len(bases_))]
        fams += [('same', (b, c)) for b in range(len(bases_)) for c in range(b, len(bases_))]
        fams += [('chain', (b, c)) for b in range(len(bases_)) for c in range(len(bases_))]
        for name, idx in fams:
            n += 1
            if n % of != part:
                continue
            far = tuple(('t%d' % (k + 2), bases_[b][0], bases_[b][1], False) for k, b in enumerate(idx))
            layers = ((False, (over,)),) + (tuple((False, (o,)) for o in far) if name == 'chain' else ((False, far),))
            run_family(res, ('super', oi, name, idx), layers, calls, text='always')
    return res


def job_kinds(tier, firsts):
    """All kind combinations x layerings on the small parameter lists."""
    res = Result()
    calls = list(enumerate(call_set(tier, 'small')))
    pls = kinds_plists(tier)
    kinds = ('function', 'method', 'ext')
    for name, lay in sorted(layerings(2).items()):
        for i in firsts:
            for j in range(len(pls)):
                for k1, k2 in itertools.product(kinds, repeat=2):
                    if (k1, k2) == ('ext', 'ext'):
                        continue        # job_pairs
                    if any(k != 'function' and not M.valid_method(p) for k, p in ((k1, pls[i]), (k2, pls[j]))):
                        continue
                    o = (overload(0, pls[i], k1), overload(1, pls[j], k2))
                    run_family(res, ('kinds', name, i, j, k1, k2), lay(o), calls)
    return res


def job_nokw(tier, firsts):
    """@no_kwargs on one or both overloads: `name => v` becomes an ordinary argument, flags must agree."""
    res = Result()
    calls = list(enumerate(call_set(tier, 'small')))
    pls = small_plists(tier)
    for i in firsts:
        pl = pls[i]
        run_family(res, ('nokw1', i), layerings(1)['one']((overload(0, pl, kind_for(pl), True),)), calls)
        for name, lay in sorted(layerings(2).items()):
            if name == 'grandchild' and tier == 'quick':
                continue
            for j in range(len(pls)):
                for f1, f2 in ((True, True), (True, False), (False, True)):
                    o = (overload(0, pl, kind_for(pl), f1), overload(1, pls[j], kind_for(pls[j]), f2))
                    run_family(res, ('nokw2', name, i, j, f1, f2), lay(o), calls)
    return res


def triple_plists(tier):
    if tier == 'thorough':
        return bases(CORE[:4]) + [(P('x', 'pos', 'A', False, True),)]
    return small_plists(tier)[:7]


def job_triples(tier, firsts):
    res = Result()
    calls = list(enumerate(call_set(tier, 'small')))
    pls = triple_plists(tier)
    n = len(pls)
    for name, lay in sorted(layerings(3).items()):
        for i in firsts:
            for j in range(n):
                for k in range(n):
                    if name == 'same3' and not i <= j <= k:
                        continue
                    if name == '1+2' and not j <= k:
                        continue
                    if name == '2+1' and not i <= j:
                        continue
                    o = tuple(overload(q, pls[x], kind_for(pls[x])) for q, x in enumerate((i, j, k)))
                    run_family(res, ('triple', name, i, j, k), lay(o), calls, text=name == 'same3')
    return res


# ---------------------------------------------------------------------------
# composite contexts: the same layers realised by MultiContext / LinkedContext
# ---------------------------------------------------------------------------
_reg_index = {}


class OrderedMulti(R.contexts.MultiContext):
    """MultiContext whose merged overload set is enumerated in registration order
    (the merge itself - which members are consulted, what makes the layer
    exclusive - is the library's)."""

    def get_functions(self, name, predicate=None, use_convention=False):
        found, exclusive = super(OrderedMulti, self).get_functions(name, predicate, use_convention)
        return sorted(found, key=lambda fd: _reg_index.get(id(fd), 0)), exclusive


def build_multi(members, far, order, parents='first'):
    """Nearest layer = MultiContext of `members` ((exclusive, overloads), ...) listed
    in `order`, above the ordinary layers `far`, above the shared base.  A
    MultiContext takes its parent from its members: with parents='first' only the
    first member has the chain as its parent, with 'both' every member has (the
    library then merges the two equal parents into another MultiContext)."""
    ctx = base()
    for exclusive, overloads in reversed(far):
        ctx = R.OrderedContext(ctx)
        for o in overloads:
            ctx.register_function(R.definition(o, R.CLASSES5), exclusive=exclusive)
    parts = []
    for n, (exclusive, overloads) in enumerate(members):
        m = R.OrderedContext(ctx if parents == 'both' or n == 0 else None, convention=R.CONVENTION)
        for o in overloads:
            fd = R.definition(o, R.CLASSES5)
            _reg_index.setdefault(id(fd), len(_reg_index))
            m.register_function(fd, exclusive=exclusive)
        parts.append(m)
    return OrderedMulti([parts[i] for i in order]).create_child_context()


def build_linked(layers):
    """The chain of `layers` built without a parent and linked in front of the shared base."""
    ctx = None
    for exclusive, overloads in reversed(layers):
        ctx = R.OrderedContext(ctx, convention=R.CONVENTION)
        for o in overloads:
            ctx.register_function(R.definition(o, R.CLASSES5), exclusive=exclusive)
    return R.contexts.LinkedContext(base(), ctx).create_child_context()


def run_on(res, fid, ctx, layers, calls, text=True, extra=None, key=None):
    """run_family on a context built by the caller (layers = what the model is told;
    extra = what replay() needs besides to build the context again)."""
    for ci, call in calls:
        exp = expected(layers, call)
        ood = undetermined(layers, call, exp)
        for path in paths_for(layers, call, text):
            res.case((fid, ci, path))
            obs = observe(ctx, call, path)
            res.evaluations += 1
            if ood:
                res.out_of_domain += 1
                continue
            res.transitions += 1
            if exp[0][1] != M.UNKNOWN:
                res.nontrivial += 1
            res.outcomes['%s %s %s' % (fid[0], path, outcome_class(exp[0]))] += 1
            if obs != exp:
                res.fail('%s: %s' % (fid[0], named(key, layers, call, path, obs, exp)),
                         dict(extra or {}, composite=fid, layers=layers, call=call, path=path,
                              text=R.text_of(call) if R.spellable(call) else None),
                         'observed %r expected %r' % (obs, exp))


MULTI_FLAGS = ((False, False), (True, False), (False, True), (True, True))


def composite_plists(tier):
    return small_plists(tier)[:7] if tier == 'quick' else small_plists(tier)


def job_multi(tier, firsts):
    """Two overloads in two members of one MultiContext (every exclusive-flag pair,
    both member orders) above a layer holding a third: the members form ONE layer,
    which is exclusive as soon as one member registered the name exclusively."""
    res = Result()
    calls = list(enumerate(call_set(tier, 'small')))
    pls = composite_plists(tier)
    for i in firsts:
        for j in range(len(pls)):
            for k in range(len(pls)):
                o = tuple(overload(q, pls[x], kind_for(pls[x])) for q, x in enumerate((i, j, k)))
                for flags in MULTI_FLAGS:
                    members = ((flags[0], (o[0],)), (flags[1], (o[1],)))
                    far = ((False, (o[2],)),)
                    for order in ((0, 1), (1, 0)):
                        near = (any(flags), tuple(o[m] for m in order))
                        for parents in ('first', 'both'):
                            run_on(res, ('multi', i, j, k, flags, order, parents), build_multi(members, far, order, parents),
                                   (near,) + far, calls, text=False)
    return res


def job_linked(tier, firsts):
    """The 2-overload layerings with the whole chain linked in front of the library by LinkedContext."""
    res = Result()
    calls = list(enumerate(call_set(tier, 'small')))
    pls = composite_plists(tier)
    for name, lay in sorted(layerings(2).items()):
        for i in firsts:
            for j in range(len(pls)):
                o = (overload(0, pls[i], kind_for(pls[i])), overload(1, pls[j], kind_for(pls[j])))
                layers = lay(o)
                run_on(res, ('linked', name, i, j), build_linked(layers), layers, calls, text=name == 'same')
    return res


# ---------------------------------------------------------------------------
# two keyword arguments: parameters bound by keyword are compared keyword by keyword
# ---------------------------------------------------------------------------
def kw2_types(tier):
    out = [('Any', False), ('A', False), ('B', False), ('C', False)]
    if tier == 'thorough':
        out += [('A', True), ('AC', False), ('Lazy', True)]
    return out


def kw2_groups(tier):
    """group -> (parameter lists, the two keyword names, (receiver, positional arguments) prefixes).
    Inside a group every list binds both keywords, so two lists of a group can
    match the same call; the lists come in both declaration orders."""
    kwonly, bykeyword, behind = [], [], []
    lead = P('x', 'pos', 'A')
    types = kw2_types(tier)
    for (t1, n1), (t2, n2) in itertools.product(types, repeat=2):
        w, v = P('kW', 'kwonly', t1, n1), P('kV', 'kwonly', t2, n2)
        kwonly += [(w, v), (v, w)]
        behind += [(lead, w, v), (lead, v, w)]
        x, y = P('x', 'pos', t1, n1), P('y', 'pos', t2, n2)
        bykeyword += [(x, y), (y, x)]
    for t, n in types:       # one keyword declared, the other caught by **kw: the declared one always comes first in the binding
        for kw in (KW_ANY, KW_A):
            kwonly += [(P('kW', 'kwonly', t, n), kw), (P('kV', 'kwonly', t, n), kw)]
    return {'kwonly': (kwonly, ('kW', 'kV'), ((None, ()),)),
            'bykeyword': (bykeyword, ('x', 'y'), ((None, ()),)),
            'behind': (behind, ('kW', 'kV'), ((None, (V('b'),)), (('val', 'b'), ())))}


def kw2_calls(tier, names, prefixes):
    vals = [V('a'), V('b'), V('c')] + ([V('n'), K(None), K(1)] if tier == 'thorough' else [])
    out = []
    for recv, args in prefixes:
        for v1, v2 in itertools.product(vals, repeat=2):
            out.append((recv, args, ((names[0], v1), (names[1], v2))))
            out.append((recv, args, ((names[1], v2), (names[0], v1))))
    return out


def job_kw2(tier, group, firsts):
    """Unordered same-layer pairs of one group x calls with both keywords, both written orders, both paths."""
    res = Result()
    pls, names, prefixes = kw2_groups(tier)[group]
    calls = list(enumerate(kw2_calls(tier, names, prefixes)))
    lay = layerings(2)['same']
    declared = lambda pl: [p[0] for p in pl if p[0] in names]     # noqa: E731
    for i in firsts:
        for j in range(i, len(pls)):
            o = (overload(0, pls[i], kind_for(pls[i])), overload(1, pls[j], kind_for(pls[j])))
            order = 'the same order' if declared(pls[i]) == declared(pls[j]) else 'different orders'
            run_family(res, ('kw2', group, i, j), lay(o), calls,
                       key='two keyword arguments, overloads declaring the parameters they bind in %s: '
                           'the selection among the matches is not the keyword-by-keyword most specific one' % order)
    return res


# ---------------------------------------------------------------------------
# registration histories with a rejected attempt
# ---------------------------------------------------------------------------
def rejected_overloads(tier):
    """Methods / extension methods that cannot be called as a method."""
    lazy = P('x', 'pos', 'Lazy', True)
    lists = [(), (lazy,), (K_OPT,)]
    if tier == 'thorough':
        lists += [(H_ENGINE, lazy), (KW_ANY,), (lazy, P('y', 'pos', 'A')), (R_LAZY,)]
    return [('r', pl, kind, False) for pl in lists for kind in ('method', 'ext')]


def history_plists(tier):
    return small_plists(tier)[:7] if tier == 'thorough' else small_plists(tier)[:3] + small_plists(tier)[5:6]


# (o1, o2, rejected attempt, flag of the accepted registrations of the nearest layer that has some) -> history, nearest layer first
HISTORIES = {
    'alone': lambda o1, o2, r, f: ((r,), ((o2, f),)),
    'before': lambda o1, o2, r, f: ((r, (o1, f)), ((o2, False),)),
    'after': lambda o1, o2, r, f: (((o1, f), r), ((o2, False),)),
    'between': lambda o1, o2, r, f: (((o1, f),), (r,), ((o2, False),)),
}

REGISTRATION = ('harness: a registration attempt was accepted / rejected differently from models.resolve.valid_method '
                '(the layers told to the model are not the ones built)')


def job_rejected(tier, part, of):
    res = Result()
    calls = list(enumerate(call_set(tier, 'small')))
    pls = history_plists(tier)
    n = 0
    for name, make in sorted(HISTORIES.items()):
        for i, j in itertools.product(range(len(pls)), repeat=2):
            if name == 'alone' and i:
                continue                    # o1 is not part of this history
            o1, o2 = overload(0, pls[i], kind_for(pls[i])), overload(1, pls[j], kind_for(pls[j]))
            for ri, r in enumerate(rejected_overloads(tier)):
                for re_, f in itertools.product((False, True), repeat=2):
                    n += 1
                    if n % of != part:
                        continue
                    history = make(o1, o2, (r, re_), f)
                    layers, rejected = M.registered(history)
                    ctx, observed = R.build_history(history, R.CLASSES5, base())
                    fid = ('rejected', name, i, j, ri, re_, f)
                    if observed != rejected:
                        res.fail(REGISTRATION, {'composite': fid, 'history': history, 'layers': layers,
                                                'call': calls[0][1], 'path': 'direct'},
                                 'rejected attempts observed %r expected %r' % (observed, rejected))
                        continue
                    run_on(res, fid, ctx, layers, calls, text=False, extra={'history': history},
                           key='resolution after a rejected registration attempt (exclusive=%s) differs from resolution '
                               'without the attempt' % re_)
    return res


# ---------------------------------------------------------------------------
# construction path of an overload's kind
# ---------------------------------------------------------------------------
DECORATED = {'function': None, 'method': 'method', 'ext': 'ext'}


def construction_paths():
    """(how, decorated, function=, method=): a plain / @method / @extension_method python function x the
    tri-state overrides x given to context.register_function or to specs.get_function_definition."""
    return [(how, decorated, function, method) for how in ('register', 'define') for decorated in (None, 'method', 'ext')
            for function, method in itertools.product((None, True, False), repeat=2)]


def decorator_path(kind):
    """The path every other job takes: the decorator alone."""
    return ('define', DECORATED[kind], None, None)


def path_class(via):
    how, decorated, function, method = via
    declared = {None: (True, False), 'method': (False, True), 'ext': (True, True)}[decorated]
    off = any(o is False and d for o, d in zip((function, method), declared))
    on = any(o is True and not d for o, d in zip((function, method), declared))
    what = ('switch one call syntax on and the other off' if on and off else 'switch a call syntax off' if off else
            'switch a call syntax on' if on else 'restate the declared kind')
    return ('call-kind filter: kind of an overload given through %s with function=/method= overrides that %s'
            % ({'register': 'context.register_function', 'define': 'specs.get_function_definition'}[how], what))


def kind_calls(tier, arity=3):
    """The small call set without keywords and empty slots: function syntax and method syntax,
    at most `arity` arguments (the receiver counts)."""
    return [c for c in call_set(tier, 'small') if not c[2] and SKIP not in c[1] and len(c[1]) + (c[0] is not None) <= arity]


def construct_plists(tier):
    x, y = P('x', 'pos', 'Any'), P('y', 'pos', 'A', True)
    return [(x,), (P('x', 'pos', 'A'),)] + ([(P('x', 'pos', 'B'), y)] if tier == 'thorough' else [])


CONSTRUCT_ARRANGEMENTS = {      # (o1 = the overload under test, o2) -> layers of (overload, path)
    'same': lambda a, b: ((False, (a, b)),),
    'near': lambda a, b: ((False, (a,)), (False, (b,))),
    'far': lambda a, b: ((False, (b,)), (False, (a,))),
    'near-exclusive': lambda a, b: ((True, (a,)), (False, (b,))),
    'far-exclusive': lambda a, b: ((True, (b,)), (False, (a,))),
}


def strip_paths(built):
    return tuple((exclusive, tuple(o for o, via in overloads)) for exclusive, overloads in built)


def constructed(res, fid, built, key):
    """The calling context, or None (reported) when a registration the model accepts is rejected."""
    try:
        return R.build_constructed(built, R.CLASSES5, base())
    except R.exceptions.InvalidMethodException as e:
        res.case((fid, 'registration'))
        res.fail('construct: %s: registration rejected' % key, {'composite': fid, 'built': built, 'layers': strip_paths(built),
                                                               'call': (None, (), ()), 'path': 'direct'},
                 'InvalidMethodException %s' % e)


def job_construct(tier, part, of):
    """Every target kind reached by every construction path: alone, and next to / in front of / behind a second
    overload (a wrongly visible nearer overload shadows the right farther one)."""
    res = Result()
    calls = list(enumerate(kind_calls(tier)))
    short = list(enumerate(kind_calls(tier, max(len(pl) for pl in construct_plists(tier)))))
    paths = construction_paths()
    pls = construct_plists(tier)
    seconds = [(k2, decorator_path(k2)) for k2 in ('function', 'method', 'ext')]
    if tier == 'thorough':
        seconds = [(M.kind_after(*v[1:]), v) for v in paths if M.kind_after(*v[1:])]
    n = 0
    for vi, via in enumerate(paths):
        kind = M.kind_after(*via[1:])
        if kind is None:
            if part == 0:
                res.out_of_domain += 1
                res.outcomes['construct: neither call syntax left (no such function type)'] += 1
            continue
        for pi, pl in enumerate(kinds_plists(tier)):
            n += 1
            if n % of != part or (kind != 'function' and not M.valid_method(pl)):
                continue
            built = ((False, ((overload(0, pl, kind), via),)),)
            ctx = constructed(res, ('construct', 'one', vi, pi), built, path_class(via))
            if ctx is not None:
                run_on(res, ('construct', 'one', vi, pi), ctx, strip_paths(built), calls, text='always',
                       extra={'built': built}, key=path_class(via))
        for name in sorted(CONSTRUCT_ARRANGEMENTS):
            for (ia, pa), (ib, pb), (si, (k2, via2)) in itertools.product(enumerate(pls), enumerate(pls[:2]), enumerate(seconds)):
                n += 1
                if n % of != part:
                    continue
                built = CONSTRUCT_ARRANGEMENTS[name]((overload(0, pa, kind), via), (overload(1, pb, k2), via2))
                ctx = constructed(res, ('construct', name, vi, ia, ib, si), built, path_class(via))
                if ctx is not None:
                    run_on(res, ('construct', name, vi, ia, ib, si), ctx, strip_paths(built), short, text=False,
                           extra={'built': built}, key=path_class(via))
    return res


# ---------------------------------------------------------------------------
# the smart-type alphabet: the type filter on every declared type x every way to write an argument
# ---------------------------------------------------------------------------
NODE_CLASSES = ('Function', 'BinaryOperator', 'UnaryOperator', 'IndexExpression', 'ListExpression', 'MapExpression',
                'GetContextValue', 'Constant', 'KeywordConstant')
ANYTHING = ('Python', 'object', True)


def expression_types(tier):
    out = [('Expression', ())] + [('Expression', (c,)) for c in NODE_CLASSES]
    out += [('Expression', ('GetContextValue', 'ListExpression')), ('Expression', ('Function', 'BinaryOperator'))]
    if tier == 'thorough':
        out += [('Expression', ('Constant', 'KeywordConstant')), ('Expression', ('UnaryOperator', 'IndexExpression', 'MapExpression'))]
    return out


def type_alphabet(tier):
    """Every smart type of yaql/language/yaqltypes.py a parameter can be declared with (the hidden ones are not
    arguments; MappingRule is the @no_kwargs dimension of C06)."""
    out = expression_types(tier) + [('Lambda', False), ('Lambda', True), ('Keyword',)]
    for nullable in (False, True):
        out += [(name, nullable) for name in ('Constant', 'StringConstant', 'NumericConstant', 'BooleanConstant', 'String',
                                              'Integer', 'Number', 'DateTime', 'Sequence', 'Iterable', 'Iterator')]
        out += [('Python', cls, nullable) for cls in ('object', 'str', 'A')]
        out += [('AnyOf', (('String', False), ('Integer', False)), nullable), ('NotOfType', ('String', False), nullable),
                ('NotOfType', ('Integer', False), nullable), ('Chain', (('Iterable', False), ('Sequence', False)), nullable),
                ('Chain', (('Number', False), ('Integer', False)), nullable)]
    return out


def pair_types(tier):
    """Types for 2-overload families and 2-parameter overloads: the lazy ones, constant types, and the eager
    types whose specificity the lattice defines (a single class below 'anything')."""
    out = expression_types(tier) + [('Lambda', False), ('Constant', False), ('NumericConstant', False), ('Keyword',),
                                    ANYTHING, ('Integer', False), ('String', False)]
    if tier == 'thorough':
        out += [('Lambda', True), ('StringConstant', False), ('BooleanConstant', True), ('Python', 'object', False),
                ('String', True), ('Python', 'A', False)]
    return out


def arguments(tier):
    """(text with {k} = probe key, node, value class, probe): every expression node kind, with values of every class
    where the node kind allows it."""
    cls = R.VALUE_CLASS
    out = [('p%s({k})' % v, 'call', cls[v], True) for v in sorted(cls)]
    out += [('$' + v, 'var', cls[v], False) for v in sorted(cls)] + [('$', 'var', 'null', False)]
    out += [('pi({k}) + 1', 'binary', 'int', True), ("ps({k}) + 'x'", 'binary', 'str', True), ('pi({k}) > 0', 'binary', 'bool', True),
            ('pf({k}) * 2', 'binary', 'float', True), ('ps({k}).len()', 'binary', 'int', True),
            ('pd({k}).get(zz)', 'binary', 'null', True),
            ('-pi({k})', 'unary', 'int', True), ('-pf({k})', 'unary', 'float', True), ('not pt({k})', 'unary', 'bool', True),
            ('pl({k})[0]', 'index', 'int', True), ('pd({k})[a]', 'index', 'str', True),
            ('[pi({k}), 2]', 'list', 'list', True), ('[]', 'list', 'list', False),
            ('{{a => pi({k})}}', 'map', 'dict', True), ('{{}}', 'map', 'dict', False),
            ("'k'", 'string', 'str', False), ('1', 'integer', 'int', False), ('1.5', 'float', 'float', False),
            ('true', 'boolean', 'bool', False), ('false', 'boolean', 'bool', False), ('null', 'null', 'null', False),
            ('kw', 'keyword', 'str', False)]
    return out


def two_types(tier):
    """Types for the 2-parameter overloads."""
    if tier == 'thorough':
        return pair_types(tier)
    return [('Expression', ()), ('Expression', ('Function',)), ('Expression', ('BinaryOperator',)),
            ('Expression', ('GetContextValue', 'ListExpression')), ('Lambda', False), ('NumericConstant', False), ('Keyword',),
            ANYTHING, ('Integer', False), ('String', False)]


def pair_arguments(tier):
    """For the 2-parameter overloads: one argument per node kind (two for calls and variables); thorough: all."""
    keep = ('pi({k})', 'ps({k})', '$s', '$n', 'pi({k}) + 1', '-pi({k})', 'pl({k})[0]', '[pi({k}), 2]', '{{a => pi({k})}}',
            "'k'", '1', 'true', 'null', 'kw')
    return [a for a in arguments(tier) if tier == 'thorough' or a[0] in keep]


def typed_base():
    if 'typed' not in _state:
        _state['typed'] = R.base_context('c05types', R.TYPE_VALUES, labels=False)
    return _state['typed']


def type_name(t):
    if t[0] == 'Expression':
        return 'YaqlExpression(%s)' % ('restricted to node classes' if t[1] else 'unrestricted')
    if t[0] == 'Lambda':
        return 'Lambda(method=%s)' % t[1]
    return 'PythonType' if t[0] == 'Python' else t[0]


def typed_expected(layers, args):
    """None (outside the domain) when an acceptance is not documented or when it matters whether laziness is compared
    before or after the lazy / constant types have looked at the AST (extending_yaql.rst lists R4 before R5; the
    property statement only says constants are checked before evaluation)."""
    margs = tuple(a[1:] for a in args)
    exp = M.resolve_typed(layers, margs)
    if exp is None or exp != M.resolve_typed(layers, margs, M.LAZINESS_FIRST):
        return None
    return exp


def culprit(layers, args):
    """The failing site of a typed family: a declared type that, alone in foo(x: T), already treats one of the
    arguments differently from the model (None: the disagreement needs the whole family)."""
    for exclusive, overloads in layers:
        for tag, types in overloads:
            for t, a in zip(types, args):
                single = ((False, (('t1', (t,)),)),)
                exp = typed_expected(single, (a,))
                if exp is not None and R.typed_call(R.build_typed(single, typed_base()), [a[0].format(k=0)])[0] != exp[0]:
                    return 'type filter: a parameter declared %s' % type_name(t)


def run_typed(res, fid, layers, arg_tuples, key):
    ctx = R.build_typed(layers, typed_base())
    for ai, args in arg_tuples:
        res.case((fid, ai))
        exp = typed_expected(layers, args)
        obs = R.typed_call(ctx, [a[0].format(k=i) for i, a in enumerate(args)])
        res.evaluations += 1
        if exp is None:
            res.out_of_domain += 1
            res.outcomes['%s undocumented' % fid[0]] += 1
            continue
        res.transitions += 1
        res.nontrivial += 1
        res.outcomes['%s %s' % (fid[0], outcome_class(exp[0]))] += 1
        if obs != exp:
            what = 'outcome' if obs[0] != exp[0] else 'evaluated-arguments'
            res.fail('%s: %s' % (culprit(layers, args) or key, what),
                     {'typed': fid, 'layers': layers, 'args': args,
                      'text': 'foo(%s)' % ', '.join(a[0].format(k=i) for i, a in enumerate(args))},
                     'observed %r expected %r' % (obs, exp))


TYPED_LAYERINGS = {
    'same': lambda a, b: ((False, (a, b)),),
    'child': lambda a, b: ((False, (a,)), (False, (b,))),
    'exclusive': lambda a, b: ((True, (a,)), (False, (b,))),
    'grandchild': lambda a, b: ((False, (a,)), (False, ()), (False, (b,))),
}


def job_typecheck(tier):
    """Harness self-check: every argument text has the node class and the value class the model is told."""
    res = Result()
    for text, node, value, probe in arguments(tier):
        text = text.format(k=0)
        expr = R.yq.parse('foo(%s)' % text).expression.args[0]
        del R.LOG[:]
        v = expr(R.utils.NO_VALUE, typed_base().create_child_context(), R.yq.engine())
        seen = (type(expr).__name__, R.value_class(v), bool(R.LOG))
        if seen != (M.NODE_CLASS[node], value, probe):
            res.fail('harness: an argument text is not what the model is told', {'typed': ('selfcheck',), 'text': text},
                     '%r: %r' % (text, seen))
        res.extra['arguments_checked'] = res.extra.get('arguments_checked', 0) + 1
    return res


def job_typed_single(tier):
    """One overload foo(x: T), every T x every argument."""
    res = Result()
    args = [(ai, (a,)) for ai, a in enumerate(arguments(tier))]
    for ti, t in enumerate(type_alphabet(tier)):
        run_typed(res, ('typed-single', ti), ((False, (('t1', (t,)),)),), args,
                  'type filter: a parameter declared %s' % type_name(t))
    return res


def job_typed_two(tier, firsts):
    """One overload foo(x: T1, y: T2): laziness and type checks per position."""
    res = Result()
    pargs = pair_arguments(tier)
    args = list(enumerate(itertools.product(pargs, repeat=2)))
    types = two_types(tier)
    for i in firsts:
        for j, t2 in enumerate(types):
            run_typed(res, ('typed-two', i, j), ((False, (('t1', (types[i], t2)),)),), args,
                      'type filter: parameters declared %s, %s' % (type_name(types[i]), type_name(t2)))
    return res


def job_typed_pairs(tier, firsts):
    """Two overloads foo(x: T1), foo(x: T2) in one layer / child and parent / exclusive child: which one wins, or ambiguous."""
    res = Result()
    args = [(ai, (a,)) for ai, a in enumerate(arguments(tier))]
    types = pair_types(tier)
    for name in sorted(TYPED_LAYERINGS):
        if name == 'grandchild' and tier == 'quick':
            continue
        for i in firsts:
            for j in range(i if name == 'same' else 0, len(types)):
                layers = TYPED_LAYERINGS[name](('t1', (types[i],)), ('t2', (types[j],)))
                run_typed(res, ('typed-pair', name, i, j), layers, args,
                          'type filter: %s next to %s (%s)' % (type_name(types[i]), type_name(types[j]),
                                                              'same layer' if name == 'same' else 'nearer / farther layer'))
    return res


def strides(n, k):
    """k interleaved index lists over range(n): similar cost per job although low indices pair with more partners."""
    return [list(range(n))[i::k] for i in range(min(k, n))]


def jobs(tier, seed):
    quick = tier == 'quick'
    out = [('grammar', 'job_grammar', (tier,)), ('types', 'job_types', (tier,))]
    out += [('super-%d' % k, 'job_super', (tier, k, 4)) for k in range(4)]
    pls = all_plists(tier)
    for n, idx in enumerate(strides(len(pls), 8 if quick else 32)):
        out.append(('single-%02d' % n, 'job_single', (tier, [pls[i] for i in idx])))
    for n, idx in enumerate(strides(len(pair_plists(tier)), 26 if quick else 128)):
        out.append(('pairs-%03d' % n, 'job_pairs', (tier, idx)))
    for n, idx in enumerate(strides(len(kinds_plists(tier)), 3 if quick else 16)):
        out.append(('kinds-%02d' % n, 'job_kinds', (tier, idx)))
    for n, idx in enumerate(strides(len(small_plists(tier)), 3 if quick else 16)):
        out.append(('nokw-%02d' % n, 'job_nokw', (tier, idx)))
    for n, idx in enumerate(strides(len(triple_plists(tier)), 7 if quick else 22)):
        out.append(('triples-%02d' % n, 'job_triples', (tier, idx)))
    for n, idx in enumerate(strides(len(composite_plists(tier)), 7 if quick else 16)):
        out.append(('multi-%02d' % n, 'job_multi', (tier, idx)))
    out.append(('linked', 'job_linked', (tier, list(range(len(composite_plists(tier)))))))
    for group, (gpls, _, _) in sorted(kw2_groups(tier).items()):
        for n, idx in enumerate(strides(len(gpls), (2 if group == 'bykeyword' else 4) if quick else 16)):
            out.append(('kw2-%s-%02d' % (group, n), 'job_kw2', (tier, group, idx)))
    parts = 4 if quick else 16
    out += [('rejected-%02d' % k, 'job_rejected', (tier, k, parts)) for k in range(parts)]
    parts = 4 if quick else 32
    out += [('construct-%02d' % k, 'job_construct', (tier, k, parts)) for k in range(parts)]
    out += [('typecheck', 'job_typecheck', (tier,)), ('typed-single', 'job_typed_single', (tier,))]
    for n, idx in enumerate(strides(len(two_types(tier)), 1 if quick else 14)):
        out.append(('typed-two-%02d' % n, 'job_typed_two', (tier, idx)))
    for n, idx in enumerate(strides(len(pair_types(tier)), 2 if quick else 14)):
        out.append(('typed-pairs-%02d' % n, 'job_typed_pairs', (tier, idx)))
    return out


def _tuples(v):
    if isinstance(v, list):
        return tuple(_tuples(x) for x in v)
    return v


def replay_typed(case):
    if case['typed'][0] == 'selfcheck':
        found = sorted(f.detail for f in job_typecheck('thorough').failures.values())
        return {'observed': repr(found), 'expected': '[]', 'ok': not found, 'text': case['text']}
    layers, args = _tuples(case['layers']), _tuples(case['args'])
    exp = typed_expected(layers, args)
    obs = R.typed_call(R.build_typed(layers, typed_base()), [a[0].format(k=i) for i, a in enumerate(args)])
    return {'observed': repr(obs), 'expected': repr(exp), 'ok': obs == exp, 'text': case['text']}


def replay(case):
    if case.get('typed'):
        return replay_typed(case)
    layers = _tuples(case['layers'])
    call = _tuples(case['call'])
    exp = expected(layers, call)
    comp = case.get('composite')
    if comp and comp[0] == 'multi':
        flags, order = comp[4], comp[5]
        near, far = layers[0], layers[1:]
        byorder = dict(zip(order, near[1]))
        members = tuple((bool(flags[m]), (byorder[m],)) for m in (0, 1))
        ctx = build_multi(members, far, tuple(order), comp[6])
    elif comp and comp[0] == 'linked':
        ctx = build_linked(layers)
    elif comp and comp[0] == 'construct':
        try:
            ctx = R.build_constructed(_tuples(case['built']), R.CLASSES5, base())
        except R.exceptions.InvalidMethodException as e:
            return {'observed': 'registration rejected: InvalidMethodException %s' % e, 'expected': 'registration accepted',
                    'ok': False, 'text': None}
    elif comp and comp[0] == 'rejected':
        history = _tuples(case['history'])
        told, rejected = M.registered(history)
        ctx, observed = R.build_history(history, R.CLASSES5, base())
        if (told, observed) != (layers, rejected):
            return {'observed': 'rejected attempts %r' % (observed,), 'expected': 'rejected attempts %r' % (rejected,),
                    'ok': False, 'text': None}
    else:
        ctx = R.build_layers(layers, R.CLASSES5, base())
    obs = observe(ctx, call, case['path'])
    return {'observed': repr(obs), 'expected': repr(exp), 'ok': obs == exp,
            'text': R.text_of(call) if R.spellable(call) else None}
