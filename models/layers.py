"""Flattened-layers reference model of yaql context forests (property C17).

From doc/source/extending_yaql.rst ("contexts") and the class docstrings: a
context is a chain of layers.  A plain context contributes one layer (its own
store) followed by its parent's layers.  A multi-context's layer k is the merge
of its members' layers k (reads: first member that defines the name wins;
writes and registrations go to the first member; deletion removes the name from
every member that has it).  A linked context is the linked context's chain
followed by the given parent's chain.  `$`, `$1` and the empty name are one
variable.  collect_functions = the overloads of each layer nearest-first,
stopping after a layer that registered the name exclusively.  A caller's filter
(the engine collects only functions for `f()` and only methods for `x.f()`)
removes overloads from the result, never layers from the walk: exclusivity is a
fact of the layer's registration history, whether or not the filter keeps any of
the layer's overloads.  A registration that the context rejects registers
nothing and marks nothing.

A merged layer is an ordered *set* of stores (a store reachable twice, e.g.
through a diamond of multi-contexts, counts once).  Imports nothing from yaql.
"""


def norm(n):
    if not n.startswith('$'):
        n = '$' + n
    return '$1' if n == '$' else n


class Rejected(Exception):
    """The model's verdict on an operation the context must refuse without changing anything."""


class Forest(object):
    def __init__(self):
        self.nodes = []
        self._layers = {}      # the chain of a node depends only on nodes created before it: computed once

    def add(self, kind='plain', parent=None, members=None, linked=None):
        self.nodes.append(dict(kind=kind, parent=parent, members=members, linked=linked,
                               data={}, funcs=[], excl=False))
        return len(self.nodes) - 1

    def layers(self, i):
        if i not in self._layers:
            self._layers[i] = self._chain(i)
        return self._layers[i]

    def _chain(self, i):
        n = self.nodes[i]
        if n['kind'] == 'plain':
            return [[i]] + (self.layers(n['parent']) if n['parent'] is not None else [])
        if n['kind'] == 'multi':
            per = [self.layers(m) for m in n['members']]
            out = []
            for k in range(max(len(p) for p in per)):
                layer = []
                for p in per:
                    if k < len(p):
                        for s in p[k]:
                            if s not in layer:
                                layer.append(s)
                out.append(layer)
            return out
        return self.layers(n['linked']) + (self.layers(n['parent']) if n['parent'] is not None else [])

    def write_target(self, i):
        n = self.nodes[i]
        if n['kind'] == 'plain':
            return i
        if n['kind'] == 'multi':
            return self.write_target(n['members'][0])
        return self.write_target(n['linked'])

    # -- variables ------------------------------------------------------------
    def get(self, i, name):
        name = norm(name)
        for layer in self.layers(i):
            for s in layer:
                if name in self.nodes[s]['data']:
                    return self.nodes[s]['data'][name]
        return None

    def contains(self, i, name):
        name = norm(name)
        for s in self.layers(i)[0]:
            if name in self.nodes[s]['data']:
                return True
        return False

    def keys(self, i):
        out = []
        for s in self.layers(i)[0]:
            for k in self.nodes[s]['data']:
                if k not in out:
                    out.append(k)
        return out

    def set(self, i, name, v):
        self.nodes[self.write_target(i)]['data'][norm(name)] = v

    def delete(self, i, name):
        name = norm(name)
        hit = False
        for s in self.layers(i)[0]:
            if name in self.nodes[s]['data']:
                del self.nodes[s]['data'][name]
                hit = True
        if not hit:
            raise KeyError(name)

    # -- functions --------------------------------------------------------------
    def register(self, i, tag, excl):
        n = self.nodes[self.write_target(i)]
        if tag not in n['funcs']:
            n['funcs'].append(tag)
        if excl:
            n['excl'] = True

    def delete_function(self, i, tag):
        # removes the overload from every store of the context's own layer and clears the
        # exclusive mark of the name there
        for s in self.layers(i)[0]:
            n = self.nodes[s]
            if tag in n['funcs']:
                n['funcs'].remove(tag)
            n['excl'] = False

    def register_rejected(self, i, excl):
        """A registration the context refuses (an invalid method spec): nothing is registered, nothing is marked."""
        raise Rejected()

    def _overloads(self, layer, keep):
        return sorted(set(t for s in layer for t in self.nodes[s]['funcs'] if keep is None or keep(t)))

    def get_functions(self, i, keep=None):
        """keep: the caller's filter over overloads (None = all of them)."""
        l0 = self.layers(i)[0]
        return (self._overloads(l0, keep), any(self.nodes[s]['excl'] for s in l0))

    def collect(self, i, keep=None):
        out = []
        for layer in self.layers(i):
            fs = self._overloads(layer, keep)
            if fs:
                out.append(fs)
            if any(self.nodes[s]['excl'] for s in layer):      # whatever the filter kept
                break
        return out
