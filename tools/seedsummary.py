#!/venv/bin/python
"""Summarise .scratch/seedres/*.json (seed-0 runs) and *.full.json (3-seed runs)."""
import glob, json, os, sys
rows = []
for f in sorted(glob.glob('/verif/.scratch/seedres/C*.json')):
    name = os.path.basename(f).replace('.full.json', '').replace('.json', '')
    full = f.endswith('.full.json')
    try:
        d = json.load(open(f))
    except Exception as e:
        rows.append((name, full, 'unreadable', '', '')); continue
    ok = d.get('demo_unchanged') == 0 and d.get('patch_applies') and '366 passed' in str(d.get('tests')) and d.get('demo_changed') == 1
    for pid, runs in d.get('checks', {}).items():
        caught = all(r['exit'] == 1 and r['violations'] > 0 for r in runs)
        keys = runs[0]['keys'][:1]
        rows.append((name, full, 'confirmed' if ok else 'NOT-CONFIRMED %s' % {k: d.get(k) for k in ('demo_unchanged','patch_applies','tests','demo_changed')},
                     'CAUGHT' if caught else 'MISSED', '%s seeds=%s %s' % (pid, [r['seed'] for r in runs], [k[:90] for k in keys])))
for r in rows:
    if len(sys.argv) > 1 and sys.argv[1] == 'missed' and r[3] == 'CAUGHT' and r[2] == 'confirmed':
        continue
    print(r[0], 'full' if r[1] else 'seed0', r[2], r[3], r[4])
