"""C10 - data round-trips and every result is finalised into plain data.

Two exhaustive enumerations against the real engine (oracle: models/plain.py),
each under the 4 combinations of yaql.convertTuplesToLists x yaql.convertSetsToLists:

(1) documents: every host document of nesting depth <= 3, width <= 2 over the
    leaves 1 1.5 'a' True None and the containers list, tuple, dict, set,
    frozenset, generator; `$` must return the canonical image of the document
    (computed from the document's description, not from the library's input
    conversion).  The small documents are also sent through YaqlInterface.
(2) producers: every type-correct composition of <= 3 producers (keys values
    items orderBy where select toSet set() dict() {k=>.} {.=>v} [.] groupBy zip
    enumerate toDict toList distinct reverse memorize ...) over four atoms.
    The expression is first evaluated with yaql.convertOutputData: False and
    the raw value is forced by the model's walker: if that succeeds, the
    finalised evaluation must succeed too and return exactly the image of the
    raw value; the recursive type census of the result must be plain data.

(4) stub: library functions called directly through the YaqlInterface stub - yi.name(args) and
    yi.on(receiver).name(args), with keyword arguments and python callables as lambdas - whose results
    are mappings, sets, sequences, iterators, views and scalars: the stub's result must be the image of
    what the same call returns through the context without finaliser.
(5) captured options: the 4 combination engines are created from ONE host dict updated in place, which is
    then cleared and filled with the opposite flags: every engine keeps finalising by the options it was
    created with.

(6) rebinding: identity-like expressions that rebind `$` per element / per entry or carry the document through a
    variable or a one-element container (`$.select($)`, `$.where(true)`, `$.toList().select($)`, `$.select([$]).selectMany($)`,
    `let(x => $) -> $x`, `[$].select($)`, `$.values().select($)`, `$.items().toDict($[0], $[1])` ...) over every
    small document (null at every position: as the document, as element, as dict value), evaluated in a fresh
    context AND in a child / grandchild of a host context that already holds a different, non-null `$`
    (yaql.create_context(data=<default document>), parent['$'] = ...): the document (its elements, its values)
    must come back, whatever an enclosing context holds.

Where the image needs an unhashable dict key or set member (a composite value
converted to list/dict/set in such a place) the model cannot name a value; the
implementation raising TypeError there is reported as
`finalize-unhashable site=<dict-key|set-element> converted-to=<list|dict|set>`;
a repaired implementation is accepted if it returns plain data in which keys /
members use the hashable spellings (tuple, frozenset) or the set became a list.
"""
import vf.loader  # noqa: F401
from vf import core
from vf.core import Result
from vf import yq
from models import plain as P

from yaql import yaql_interface
from yaql.language import utils as yutils

ID = 'C10'
TITLE = 'round trip and finalisation into plain data'
RULE = ('one case per (document, option combination) and per (producer expression, option combination); '
        'documents are distinct by description (set members pairwise distinct), expressions by text; '
        'a case is non-trivial when the raw evaluation succeeds (documents: always)')
ASSUMPTIONS = ['JSON-like documents have string keys; composite keys are produced by expressions, not host data',
               'the image of a value is defined by the documented conversions (mapping -> dict, set -> set|list, '
               'tuple -> list|tuple, other iterables -> list); where that image would need an unhashable key or '
               'member no value is prescribed, only that finalisation must not raise']
BOUNDS = {
    'quick': 'documents: depth <= 3, width <= 2, at most 5 nodes (22 781), those of <= 3 nodes also through '
             'YaqlInterface; producers: all kind-correct compositions of <= 3 producers over 4 atoms (12 586); '
             'x 4 option combinations; rebinding: 17 identity-like expressions (those applicable to the root kind) x documents of '
             '<= 3 nodes (815) x (4 context arrangements (fresh, child of create_context(data=D), child and grandchild of '
             'a context with $ = D) under the default options + fresh and prepared context under the 3 other combinations); 66 stub calls x 4; 50 expressions x 4 engines from one mutated options dict x 3 phases',
    'thorough': 'documents: depth <= 3, width <= 2, all of them (at most 7 nodes, 142 515); producers as in quick; x 4; '
                'rebinding: documents of <= 4 nodes (4 615) x applicable expressions x 4 context arrangements x 4, documents of '
                '5 nodes (18 166) under the default options in the fresh and the prepared context',
}
JOB_LIMIT = {'quick': 600, 'thorough': 3600}

COMBOS = [(True, False), (True, True), (False, False), (False, True)]     # (tuples->lists, sets->lists); first = defaults
MAX_NODES = {'quick': 5, 'thorough': 7}
IFACE_NODES = 3


def options(t2l, s2l):
    return {'yaql.convertTuplesToLists': t2l, 'yaql.convertSetsToLists': s2l}


# ---------------------------------------------------------------------------
# producer grammar: kind M = mapping, C = collection (list/set/iterable/view), X = scalar
# ---------------------------------------------------------------------------
ATOMS = [('C', '[2, 1]'), ('M', '{a => 1}'), ('X', '1'), ('X', "'a'")]
PRODUCERS = [
    # name, input kinds, output kind, template
    ('keys', 'M', 'C', '%s.keys()'), ('values', 'M', 'C', '%s.values()'), ('items', 'M', 'C', '%s.items()'),
    ('orderBy', 'C', 'C', '%s.orderBy($)'), ('where', 'C', 'C', '%s.where(true)'),
    ('select', 'C', 'C', '%s.select($)'), ('selectPair', 'C', 'C', '%s.select([$, $])'),
    ('toSet', 'C', 'C', '%s.toSet()'), ('toList', 'C', 'C', '%s.toList()'),
    ('distinct', 'C', 'C', '%s.distinct()'), ('reverse', 'C', 'C', '%s.reverse()'),
    ('memorize', 'C', 'C', '%s.memorize()'), ('enumerate', 'C', 'C', '%s.enumerate()'),
    ('zip', 'C', 'C', '%s.zip(%s)'), ('groupBy', 'C', 'C', '%s.groupBy($)'),
    ('toDict', 'C', 'M', '%s.toDict($)'), ('toDictV', 'C', 'M', '%s.toDict(1, $)'),
    ('dictItems', 'M', 'M', 'dict(%s.items())'),
    ('set()', 'MCX', 'C', 'set(%s)'), ('[.]', 'MCX', 'C', '[%s]'), ('[.].toSet', 'MCX', 'C', '[%s].toSet()'),
    ('{k=>.}', 'MCX', 'M', '{k => %s}'), ('{.=>v}', 'MCX', 'M', '{%s => 1}'), ('dict(k=>.)', 'MCX', 'M', 'dict(k => %s)'),
]


def expressions(depth):
    """[(text, producer names)] every kind-correct composition of 0..depth
    producers over the atoms; simplest first."""
    level = [(kind, text, ()) for kind, text in ATOMS]
    out = [(text, names) for _k, text, names in level]
    for _d in range(depth):
        nxt = []
        for kind, text, names in level:
            for pname, kinds, okind, tmpl in PRODUCERS:
                if kind in kinds:
                    nxt.append((okind, tmpl % ((text,) * tmpl.count('%s')), names + (pname,)))
        out.extend((t, n) for _k, t, n in nxt)
        level = nxt
    return out


# ---------------------------------------------------------------------------
def classify(bad, obs):
    """Finding key for a TypeError raised in finalisation where the model found
    unhashable places `bad`; None if the error is not one of them."""
    msg = obs[2]
    for site, conv in bad:
        if "unhashable type: '%s'" % conv in msg:
            return 'finalize-unhashable site=%s converted-to=%s' % (site, conv)
    return None


def judge(img, bad, obs, t2l, s2l, what):
    """(key, detail) or None.  obs = ('v', value) | ('e', class, message)."""
    if bad:
        if obs[0] == 'e':
            key = classify(bad, obs) if obs[1] == 'TypeError' else None
            return (key or 'finalize-raises error=%s' % obs[1],
                    '%s: finalisation raised %s: %s; the finalised result needs %s, expected plain data'
                    % (what, obs[1], obs[2], ' / '.join('%s as %s' % b for b in sorted(set(bad)))))
        left = P.census(obs[1], t2l, s2l, hashed_ok=True)
        if left:
            return ('not-plain types=%s' % ','.join(sorted(left)), '%s returned %r' % (what, obs[1]))
        if not P.same(obs[1], img, relaxed=True):
            return ('wrong-image root=%s' % img[0], '%s: expected %s (keys/members in a hashable spelling), observed %r'
                    % (what, P.show(img), obs[1]))
        return None
    if obs[0] == 'e':
        return ('finalize-raises error=%s' % obs[1],
                '%s: expected %s, finalisation raised %s: %s' % (what, P.show(img), obs[1], obs[2]))
    left = P.census(obs[1], t2l, s2l)
    if left:
        return ('not-plain types=%s' % ','.join(sorted(left)),
                '%s: expected %s, observed %r' % (what, P.show(img), obs[1]))
    if not P.same(obs[1], img):
        return ('wrong-image expected=%s observed=%s' % P.first_difference(obs[1], img),
                '%s: expected %s, observed %r' % (what, P.show(img), obs[1]))
    return None


# ---------------------------------------------------------------------------
# (1) documents
# ---------------------------------------------------------------------------
def run_document(desc, t2l, s2l, iface=False):
    doc = P.build(desc)
    try:
        if iface:
            yi = yaql_interface.YaqlInterface(yq.root().create_child_context(), yq.engine(options(t2l, s2l)))
            return ('v', yi('$1', doc))
        return ('v', yq.evaluate('$', data=doc, options=options(t2l, s2l)))
    except Exception as e:
        return ('e', type(e).__name__, str(e)[:160])


def expect_document(desc, t2l, s2l):
    bad = []
    img = P.image(P.build(desc, twin=True), t2l, s2l, bad)
    return img, bad


def judge_document(desc, img, bad, obs, t2l, s2l, what):
    verdict = judge(img, bad, obs, t2l, s2l, what)
    if verdict and not verdict[0].startswith('finalize-unhashable') and 'frozenset' in P.spell(desc):
        # diagnosis: is the disagreement exactly "a host frozenset was read as a plain iterable, not as a set"?
        bad2 = []
        img2 = P.image(P.build(desc, twin=True, frozenset_as_iterator=True), t2l, s2l, bad2)
        if (obs[0] == 'v' and not bad2 and P.same(obs[1], img2)) or \
                (obs[0] == 'e' and obs[1] == 'TypeError' and bad2 and classify(bad2, obs)):
            return ('host-frozenset-treated-as-iterator',
                    verdict[1] + ' (the observation is what the model gives when the frozenset is an iterator)')
    return verdict


def job_documents(tier, k, nchunks):
    res = Result()
    for desc in P.documents(3, 2, MAX_NODES[tier])[k::nchunks]:
        text = P.spell(desc)
        for t2l, s2l in COMBOS:
            for iface in ((False, True) if P.nodes(desc) <= IFACE_NODES else (False,)):
                case = {'kind': 'doc', 'doc': text, 't2l': t2l, 's2l': s2l, 'iface': iface}
                core.CURRENT_CASE[0] = case
                res.case(('doc', text, t2l, s2l, iface))
                img, bad = expect_document(desc, t2l, s2l)
                obs = run_document(desc, t2l, s2l, iface)
                res.evaluations += 1
                res.transitions += 1
                res.nontrivial += 1
                res.outcomes['doc root=%s %s%s' % (desc[0], 'value' if obs[0] == 'v' else obs[1],
                                                   ' (image needs an unhashable member)' if bad else '')] += 1
                verdict = judge_document(desc, img, bad, obs, t2l, s2l,
                                         '$ on %s with tuples->lists=%s sets->lists=%s%s'
                                         % (text, t2l, s2l, ' via YaqlInterface' if iface else ''))
                if verdict:
                    res.fail(verdict[0], case, verdict[1], size=len(text) + (0 if (t2l, s2l) == COMBOS[0] else 1000))
    if k == 0:
        d = ('dict', (('tuple', (('leaf', 0), ('set', (('leaf', 2),)))), ('gen', (('leaf', 4),))))
        res.sample({'document': P.spell(d), 'options': 'defaults', 'observed': repr(run_document(d, True, False))})
    return res


# ---------------------------------------------------------------------------
# (2) producers
# ---------------------------------------------------------------------------
def run_expression(text, opts):
    try:
        return ('v', yq.evaluate(text, options=opts))
    except Exception as e:
        return ('e', type(e).__name__, str(e)[:160])


def raw_image(text, t2l, s2l):
    """Evaluate without output conversion and force the raw value with the
    model's walker.  ('img', image, bad) | ('e', class, message)."""
    try:
        raw = yq.evaluate(text, options={'yaql.convertOutputData': False})
        bad = []
        return ('img', P.image(raw, t2l, s2l, bad), bad)
    except Exception as e:
        return ('e', type(e).__name__, str(e)[:160])


def judge_expression(text, t2l, s2l):
    """-> (label, verdict|None, evaluations)"""
    exp = raw_image(text, t2l, s2l)
    obs = run_expression(text, options(t2l, s2l))
    if exp[0] == 'e':
        # evaluation itself fails (possibly only when the lazy result is forced): finalisation fails the same way
        if obs[0] == 'e' and obs[1] == exp[1]:
            return 'evaluation fails: ' + exp[1], None, obs
        return 'evaluation fails: ' + exp[1], ('evaluation-error-differs error=%s' % exp[1],
                                               '%s: forcing the raw result raises %s, the finalised evaluation gave %r'
                                               % (text, exp[1], obs if obs[0] == 'e' else ('v', repr(obs[1])[:80]))), obs
    _tag, img, bad = exp
    verdict = judge(img, bad, obs, t2l, s2l, '%s with tuples->lists=%s sets->lists=%s' % (text, t2l, s2l))
    label = ('value' if obs[0] == 'v' else obs[1]) + (' (image needs an unhashable member)' if bad else '')
    return label, verdict, obs


def producer_texts(tier):
    return expressions(3)         # both tiers: the whole producer space is small


def job_producers(tier, k, nchunks):
    res = Result()
    for text, names in producer_texts(tier)[k::nchunks]:
        for t2l, s2l in COMBOS:
            case = {'kind': 'expr', 'text': text, 't2l': t2l, 's2l': s2l}
            core.CURRENT_CASE[0] = case
            res.case(('expr', text, t2l, s2l))
            label, verdict, obs = judge_expression(text, t2l, s2l)
            res.evaluations += 2
            res.transitions += 1
            if not label.startswith('evaluation fails'):
                res.nontrivial += 1
            res.outcomes['expr last=%s %s' % (names[-1] if names else 'atom', label)] += 1
            if verdict:
                res.fail(verdict[0], case, verdict[1], size=len(text) + (0 if (t2l, s2l) == COMBOS[0] else 1000))
    if k == 0:
        t = '{a => 1}.items().select($).toList()'
        res.sample({'text': t, 'options': 'defaults', 'observed': repr(run_expression(t, options(True, False)))})
    return res


# ---------------------------------------------------------------------------
# ---------------------------------------------------------------------------
# (3) one parsed statement, two kinds of context in sequence
# ---------------------------------------------------------------------------
def job_context_sequence(k, nchunks):
    """A statement is first evaluated against a hand-assembled context WITHOUT finaliser (the result is raw by
    design and not judged), then against a standard context: that second result must be plain data and equal to
    what a freshly parsed statement returns - finalisation may not depend on what the statement saw before."""
    import yaql
    res = Result()
    bare = yq.bare_context()
    for text, names in expressions(2)[k::nchunks]:
        for t2l, s2l in COMBOS:
            opts = options(t2l, s2l)
            case = {'kind': 'sequence', 'text': text, 't2l': t2l, 's2l': s2l}
            core.CURRENT_CASE[0] = case
            res.case(('sequence', text, t2l, s2l))
            eng = yq.engine(opts)
            st = eng(text)                       # a new statement object for this case
            try:
                st.evaluate(context=bare.create_child_context())
            except Exception:
                pass
            try:
                second = ('v', st.evaluate(context=yq.root().create_child_context()))
            except Exception as e:
                second = ('e', type(e).__name__, str(e)[:160])
            try:
                fresh = ('v', eng(text).evaluate(context=yq.root().create_child_context()))
            except Exception as e:
                fresh = ('e', type(e).__name__, str(e)[:160])
            res.evaluations += 3
            res.transitions += 1
            res.nontrivial += 1
            res.outcomes['sequence %s' % ('value' if second[0] == 'v' else second[1])] += 1
            if second[0] != fresh[0] or (second[0] == 'v' and yq.canon(second[1]) != yq.canon(fresh[1])) or \
                    (second[0] == 'e' and second[1] != fresh[1]):
                res.fail('finalisation depends on an earlier evaluation of the same statement in a context without finaliser',
                         case, '%s: after a bare-context evaluation the statement returns %.120r, a fresh statement %.120r'
                         % (text, second, fresh), size=len(text))
    return res


# ---------------------------------------------------------------------------
# (4) library functions called directly through the YaqlInterface stub: yi.name(...), yi.on(receiver).name(...)
# ---------------------------------------------------------------------------
# (receiver | None, function name, positional arguments, keyword arguments) - python source of host data,
# rebuilt for every call; results are mappings, sets, sequences, iterators, views and scalars.
STUB_CALLS = [
    (None, 'dict', "([['a', [1, 2]], ['b', (3, {4})]],)", '{}'),
    (None, 'list', "(1, (2, 3), [4, {'k': (5,)}])", '{}'),
    (None, 'set', '(1, 2, 2)', '{}'),
    (None, 'range', '(3,)', '{}'),
    (None, 'len', '([1, 2],)', '{}'),
    (None, 'str', '((1, 2),)', '{}'),
    (None, 'distinct', '([1, (2, 3), 1, (2, 3)],)', '{}'),
    (None, 'enumerate', "(['a', ('b',)],)", "{'start': 1}"),
    (None, 'append', "([1], (2,), {'k': [3]})", '{}'),
    (None, 'concat', '([1], (2, (3,)))', '{}'),
    (None, 'isDict', "({'a': 1},)", '{}'),
    (None, '#operator_+', "({'a': [1]}, {'b': (2, {3})})", '{}'),
    (None, '#operator_+', '([1, (2,)], [(3, [4])])', '{}'),
    (None, '#operator_+', '({1, 2}, {3})', '{}'),
    (None, '#operator_-', '({1, 2}, {2})', '{}'),
    (None, '#operator_*', '([1, (2,)], 2)', '{}'),
    (None, '#list', "(1, (2, 3), {'k': {4}})", '{}'),
    (None, '#indexer', '([(1, [2]), 3], 0)', '{}'),
    (None, '#indexer', "({'k': (1, {2})}, 'k')", '{}'),
    (None, '#indexer', "({'k': 1}, 'x', (7, [8]))", '{}'),
    ("{'a': 1}", 'set', "('b', {2, 3})", '{}'),
    ("{'a': 1}", 'set', "('b', [2, (3,)])", '{}'),
    ("{'a': (1,)}", 'set', "({'c': (1, {2}), 'd': {'e': [3]}},)", '{}'),
    ("{'a': (1, [2]), 'b': {3}}", 'keys', '()', '{}'),
    ("{'a': (1, [2]), 'b': {3}}", 'values', '()', '{}'),
    ("{'a': (1, [2]), 'b': {3}}", 'get', "('a',)", '{}'),
    ("{'a': (1, [2]), 'b': {3}}", 'get', "('x', (0, {1}))", '{}'),
    ("{'a': (1, [2]), 'b': {3}}", 'delete', "('b',)", '{}'),
    ("{'a': (1, [2]), 'b': {3}}", 'deleteAll', "(['b'],)", '{}'),
    ("{'a': (1, [2]), 'b': {'c': 1}}", 'mergeWith', "({'b': {'d': (2,)}, 'e': {4}},)", '{}'),
    ("{'a': (1, [2])}", 'len', '()', '{}'),
    ("{'a': (1, [2])}", 'containsKey', "('a',)", '{}'),
    ('[3, (1, 2), [4]]', 'toList', '()', '{}'),
    ('[3, 1, 3]', 'toSet', '()', '{}'),
    ('[3, (1, 2), [4]]', 'reverse', '()', '{}'),
    ('[3, (1, 2), [4]]', 'memorize', '()', '{}'),
    ('[3, (1, 2), [4]]', 'enumerate', '()', '{}'),
    ('[3, (1, 2), [4]]', 'zip', "(['a', ('b',)],)", '{}'),
    ('[3, (1, 2), [4]]', 'insert', "(0, (9, {'k': [8]}))", '{}'),
    ('(3, (1, 2), [4])', 'insert', '(1, {7})', '{}'),
    ('[3, (1, 2), [4]]', 'flatten', '()', '{}'),
    ('[3, (1, 2), [4]]', 'slice', '(2,)', '{}'),
    ('[3, (1, 2), [4]]', 'splitAt', '(1,)', '{}'),
    ('[3, (1, 2), [4]]', 'skip', '(1,)', '{}'),
    ('[3, (1, 2), [4]]', 'take', '(2,)', '{}'),
    ('[3, (1, 2), [4]]', 'first', '()', '{}'),
    ('[3, (1, 2), [4]]', 'last', '()', '{}'),
    ('[3, (1, 2), [4]]', 'delete', '(0,)', '{}'),
    ('[3, (1, 2), [4]]', 'replace', '(0, (7, [8]))', '{}'),
    ('[3, (1, 2)]', 'repeat', '(2,)', '{}'),
    ('[3, 1, 2]', 'orderBy', '(lambda x: x,)', '{}'),
    ('[3, 1, 2]', 'select', '(lambda x: (x, [x, {x}]),)', '{}'),
    ('[3, 1, 2]', 'where', '(lambda x: x > 1,)', '{}'),
    ('[3, 1, 2]', 'toDict', '(lambda x: x, lambda x: (x, {x}))', '{}'),
    ('[3, 1, 3]', 'groupBy', '(lambda x: x,)', '{}'),
    ('[3, 1, 2]', 'selectMany', '(lambda x: (x, (x,)),)', '{}'),
    ('[3, 1, 2]', 'accumulate', '(lambda a, b: (a, b),)', '{}'),
    ('[3, 1, 2]', 'sum', '()', '{}'),
    ('{1, 2}', 'union', '({3},)', '{}'),
    ('{1, 2}', 'intersect', '({2, 3},)', '{}'),
    ('{1, 2}', 'add', '(5, 6)', '{}'),
    ('{1, 2}', 'toList', '()', '{}'),
    ('{1, 2}', 'len', '()', '{}'),
    ("'a b'", 'split', '()', '{}'),
    ("'ab'", 'toCharArray', '()', '{}'),
    ("'ab'", 'len', '()', '{}'),
]


def _host(src):
    return eval(src, {'__builtins__': {}})        # STUB_CALLS literals only


def run_stub(spec, t2l, s2l, raw=False):
    """The call through the stub (finalised), or - raw=True - the same function called through the context
    (context(name, engine, receiver)(...), no finaliser involved), as the stub's documentation describes it."""
    recv, name, args, kwargs = spec
    ctx = yq.root().create_child_context()
    eng = yq.engine(options(t2l, s2l))
    try:
        if raw:
            receiver = _host(recv) if recv is not None else yutils.NO_VALUE
            return ('v', ctx(name, eng, receiver)(*yutils.convert_input_data(_host(args)),
                                                  **dict(yutils.convert_input_data(_host(kwargs)))))
        yi = yaql_interface.YaqlInterface(ctx, eng)
        if recv is not None:
            yi = yi.on(_host(recv))
        return ('v', getattr(yi, name)(*_host(args), **_host(kwargs)))
    except Exception as e:
        return ('e', type(e).__name__, str(e)[:160])


def judge_stub(spec, t2l, s2l):
    what = '%s%s%s%s through the YaqlInterface stub with tuples->lists=%s sets->lists=%s' % (
        'on(%s).' % spec[0] if spec[0] is not None else '', spec[1], spec[2], '' if spec[3] == '{}' else ' **' + spec[3], t2l, s2l)
    raw = run_stub(spec, t2l, s2l, raw=True)
    try:
        bad = []
        img = P.image(raw[1], t2l, s2l, bad) if raw[0] == 'v' else None
    except Exception as e:                       # the lazy result fails when forced
        raw = ('e', type(e).__name__, str(e)[:160])
    obs = run_stub(spec, t2l, s2l)
    if raw[0] == 'e':
        if obs[0] == 'e' and obs[1] == raw[1]:
            return 'call fails: ' + raw[1], None, obs
        return 'call fails: ' + raw[1], ('stub-error-differs error=%s' % raw[1], '%s: the plain call raises %s, the stub gave %.100r'
                                         % (what, raw[1], obs)), obs
    return ('value' if obs[0] == 'v' else obs[1]), judge(img, bad, obs, t2l, s2l, what), obs


def job_stub():
    res = Result()
    for spec in STUB_CALLS:
        for t2l, s2l in COMBOS:
            case = {'kind': 'stub', 'spec': list(spec), 't2l': t2l, 's2l': s2l}
            core.CURRENT_CASE[0] = case
            res.case(('stub', spec, t2l, s2l))
            label, verdict, obs = judge_stub(spec, t2l, s2l)
            res.evaluations += 2
            res.transitions += 1
            res.nontrivial += 0 if label.startswith('call fails') else 1
            kind = type(obs[1]).__name__ if obs[0] == 'v' else obs[1]
            res.outcomes['stub %s -> %s' % ('method' if spec[0] is not None else 'function', kind)] += 1
            if verdict:
                res.fail(verdict[0] + ' path=stub', case, verdict[1],
                         size=len(repr(spec)) + (0 if (t2l, s2l) == COMBOS[0] else 1000))
    res.sample({'stub': "on({'a': 1}).set('b', {2, 3})", 'options': 'defaults',
                'observed': repr(run_stub(STUB_CALLS[20], True, False))})
    return res


# ---------------------------------------------------------------------------
# (5) the engine captures its options (doc/source/extending_yaql.rst: the factory "attaches the options to the
# constructed engine after which they cannot be changed"): a host that reuses and mutates ONE options dict
# ---------------------------------------------------------------------------
def job_captured_options():
    """The 4 combination engines are created from one dict updated in place; afterwards the dict is cleared and
    then filled with the opposite flags.  In every phase each engine must finalise by the options it was
    created with (judged against the image of the raw result, as in (2))."""
    import yaql
    res = Result()
    opts = {}
    engines = []
    for t2l, s2l in COMBOS:
        opts.update(options(t2l, s2l))
        engines.append(((t2l, s2l), yaql.YaqlFactory().create(opts)))
    texts = [t for t, _n in expressions(1)] + ["[[1, [2]], set(3), {k => [4]}]"]
    for phase in ('reused for the next engines', 'cleared', 'opposite flags'):
        if phase == 'cleared':
            opts.clear()
        for (t2l, s2l), eng in engines:
            if phase == 'opposite flags':
                opts.clear()
                opts.update(options(not t2l, not s2l))
                opts['yaql.convertOutputData'] = False
            for text in texts:
                case = {'kind': 'captured', 'text': text, 't2l': t2l, 's2l': s2l, 'phase': phase}
                core.CURRENT_CASE[0] = case
                res.case(('captured', text, t2l, s2l, phase))
                exp = raw_image(text, t2l, s2l)
                try:
                    obs = ('v', eng(text).evaluate(context=yq.root().create_child_context()))
                except Exception as e:
                    obs = ('e', type(e).__name__, str(e)[:160])
                res.evaluations += 2
                res.transitions += 1
                if exp[0] == 'e':
                    res.outcomes['captured: evaluation fails'] += 1
                    continue
                res.nontrivial += 1
                verdict = judge(exp[1], exp[2], obs, t2l, s2l, '%s on an engine created with tuples->lists=%s sets->lists=%s, '
                                'host options dict afterwards %s' % (text, t2l, s2l, phase))
                res.outcomes['captured %s: %s' % (phase, 'value' if obs[0] == 'v' else obs[1])] += 1
                if verdict and not verdict[0].startswith('finalize-unhashable'):
                    res.fail('engine-follows-host-options-dict phase=%s' % phase.split()[0], case, verdict[1], size=len(text))
                elif verdict:
                    res.fail(verdict[0], case, verdict[1], size=len(text) + 2000)
    return res


# ---------------------------------------------------------------------------
# (6) identity-like expressions that rebind `$`; contexts whose ancestors already hold a `$`
# ---------------------------------------------------------------------------
SEQ = ('list', 'tuple', 'gen', 'set', 'frozenset')
REBINDERS = [
    # name, root kinds of the documents it applies to (None: all), text, what comes back (models.plain.rebound)
    ('$', None, '$', 'same'),
    ('let', None, 'let(x => $) -> $x', 'same'),
    ('[$].select', None, '[$].select($)', 'single'),
    ('[$].select.first', None, '[$].select($).first()', 'same'),
    ('{k=>$}.values', None, '{k => $}.values().select($)', 'single'),
    ('select', SEQ, '$.select($)', 'elements'),
    ('where', SEQ, '$.where(true)', 'elements'),
    ('toList.select', SEQ, '$.toList().select($)', 'elements'),
    ('select.select', SEQ, '$.select($).select($)', 'elements'),
    ('select-let', SEQ, '$.select(let(x => $) -> $x)', 'elements'),
    ('wrap.selectMany', SEQ, '$.select([$]).selectMany($)', 'elements'),
    ('enumerate', SEQ, '$.enumerate().select($[1])', 'elements'),
    ('values', ('dict',), '$.values().select($)', 'values'),
    ('items-value', ('dict',), '$.items().select($[1])', 'values'),
    ('keys', ('dict',), '$.keys().select($)', 'keys'),
    ('items.toDict', ('dict',), '$.items().toDict($[0], $[1])', 'same'),
    ('keys.toDict', ('dict',), 'let(d => $) -> $d.keys().toDict($, $d.get($))', 'same'),
]
# the document an enclosing host context holds: not null and different from every enumerated document
OUTER = {'D1': {'default': 'document'}, 'D2': [7]}
ARRANGEMENTS = ['fresh', 'prepared', 'parent', 'grandparent']
REBIND_FULL = {'quick': 0, 'thorough': 4}        # documents of <= that many nodes: every arrangement x every combination
REBIND_MOST = {'quick': 3, 'thorough': 4}        # up to here: every arrangement under the default options, fresh + prepared x 4
REBIND_DEFAULTS = {'quick': 3, 'thorough': 5}    # larger ones up to here: default options, fresh + prepared
_bases = {}


def base_context(arrangement):
    """The context whose child the statement is evaluated in (never written to: Statement.evaluate binds the
    document in the child).  fresh: the standard context; prepared: a host's own yaql.create_context(data=D1);
    parent / grandparent: a context with $ = D set as a variable, directly above / two levels above."""
    import yaql
    if arrangement not in _bases:
        if arrangement == 'fresh':
            ctx = yq.root()
        elif arrangement == 'prepared':
            ctx = yaql.create_context(data=OUTER['D1'])
        else:
            ctx = yq.root().create_child_context()
            ctx['$'] = yutils.convert_input_data(OUTER['D2' if arrangement == 'parent' else 'D1'])
            if arrangement == 'grandparent':
                ctx = ctx.create_child_context()
        _bases[arrangement] = ctx
    return _bases[arrangement]


def run_rebind(desc, text, arrangement, t2l, s2l):
    try:
        return ('v', yq.evaluate(text, data=P.build(desc), options=options(t2l, s2l), context=base_context(arrangement)))
    except Exception as e:
        return ('e', type(e).__name__, str(e)[:160])


def judge_rebind(desc, rebinder, arrangement, t2l, s2l):
    name, _kinds, text, how = rebinder
    bad = []
    img = P.image(P.rebound(P.build(desc, twin=True), how), t2l, s2l, bad)
    obs = run_rebind(desc, text, arrangement, t2l, s2l)
    verdict = judge(img, bad, obs, t2l, s2l, '%s on %s in a %s context with tuples->lists=%s sets->lists=%s'
                    % (text, P.spell(desc), arrangement, t2l, s2l))
    if verdict and not verdict[0].startswith('finalize-unhashable'):
        # one key per (expression, kind of context): what came back instead is in the detail
        verdict = ('%s path=rebind expr=%s context=%s' % ('wrong-image' if verdict[0].startswith('wrong-image') else verdict[0],
                                                          name, 'fresh' if arrangement == 'fresh' else 'ancestor-$'), verdict[1])
    return img, bad, obs, verdict


def rebind_plan(tier, desc):
    n = P.nodes(desc)
    if n <= REBIND_FULL[tier]:
        return [(a, c) for a in ARRANGEMENTS for c in COMBOS]
    if n <= REBIND_MOST[tier]:
        return [(a, COMBOS[0]) for a in ARRANGEMENTS] + [(a, c) for a in ARRANGEMENTS[:2] for c in COMBOS[1:]]
    return [(a, COMBOS[0]) for a in ARRANGEMENTS[:2]]


def job_rebind(tier, k, nchunks):
    res = Result()
    for desc in P.documents(3, 2, REBIND_DEFAULTS[tier])[k::nchunks]:
        doc = P.spell(desc)
        for rebinder in REBINDERS:
            if rebinder[1] is not None and desc[0] not in rebinder[1]:
                continue
            for arrangement, (t2l, s2l) in rebind_plan(tier, desc):
                case = {'kind': 'rebind', 'doc': doc, 'expr': rebinder[0], 'context': arrangement, 't2l': t2l, 's2l': s2l}
                core.CURRENT_CASE[0] = case
                res.case(('rebind', doc, rebinder[0], arrangement, t2l, s2l))
                img, bad, obs, verdict = judge_rebind(desc, rebinder, arrangement, t2l, s2l)
                res.evaluations += 1
                res.transitions += 1
                res.nontrivial += 1
                res.outcomes['rebind %s %s %s%s' % (rebinder[0], 'fresh' if arrangement == 'fresh' else 'ancestor-$',
                                                    'value' if obs[0] == 'v' else obs[1],
                                                    ' (image needs an unhashable member)' if bad else '')] += 1
                if verdict:
                    res.fail(verdict[0], case, verdict[1],
                             size=len(doc) + len(rebinder[2]) + (0 if (t2l, s2l) == COMBOS[0] else 1000)
                             + (2000 if verdict[0].startswith('finalize-unhashable') else 0))
    if k == 0:
        d = ('list', (('leaf', 0), ('leaf', 4), ('leaf', 2)))
        res.sample({'document': P.spell(d), 'expression': '$.select($)', 'context': 'prepared', 'options': 'defaults',
                    'observed': repr(run_rebind(d, '$.select($)', 'prepared', True, False))})
    return res


def jobs(tier, seed):
    nd = 16 if tier == 'quick' else 48
    npj = 16 if tier == 'quick' else 48
    return ([('docs-%02d' % k, 'job_documents', (tier, k, nd)) for k in range(nd)]
            + [('expr-%02d' % k, 'job_producers', (tier, k, npj)) for k in range(npj)]
            + [('seq-%02d' % k, 'job_context_sequence', (k, 8)) for k in range(8)]
            + [('rebind-%02d' % k, 'job_rebind', (tier, k, nd)) for k in range(nd)]
            + [('stub', 'job_stub', ()), ('captured-options', 'job_captured_options', ())])


def _parse_desc(text):
    """Inverse of models.plain.spell (replay files carry the spelling)."""
    env = {'__builtins__': {}, 'True': True, 'None': None}
    for kind in P.CONTAINERS:
        env[kind] = (lambda kind: lambda *kids: (kind, tuple(kids)))(kind)

    def wrap(x):
        if isinstance(x, tuple) and len(x) == 2 and x[0] in P.CONTAINERS and isinstance(x[1], tuple):
            return (x[0], tuple(wrap(c) for c in x[1]))
        for i, v in enumerate(P.LEAVES):
            if type(v) is type(x) and v == x:
                return ('leaf', i)
        raise ValueError(x)
    return wrap(eval(text, env))


def replay(case):
    t2l, s2l = case['t2l'], case['s2l']
    if case['kind'] == 'sequence':
        r = job_context_sequence(0, 1)
        hit = [f for f in r.failures.values()]
        return {'observed': [f.detail for f in hit], 'expected': 'same plain result as a fresh statement', 'ok': not hit}
    if case['kind'] == 'stub':
        label, verdict, obs = judge_stub(tuple(case['spec']), t2l, s2l)
        return {'observed': obs if obs[0] == 'e' else repr(obs[1]), 'expected': 'the finalised image of the plain call result',
                'ok': verdict is None, 'key': verdict[0] if verdict else None}
    if case['kind'] == 'captured':
        r = job_captured_options()
        hit = [f.detail for k, f in r.failures.items() if k.startswith('engine-follows')]
        return {'observed': hit, 'expected': 'every engine finalises by the options it was created with', 'ok': not hit}
    if case['kind'] == 'rebind':
        desc = _parse_desc(case['doc'])
        rebinder = [r for r in REBINDERS if r[0] == case['expr']][0]
        img, bad, obs, verdict = judge_rebind(desc, rebinder, case['context'], t2l, s2l)
        return {'observed': obs if obs[0] == 'e' else repr(obs[1]),
                'expected': P.show(img) + (' -- needs unhashable: %r' % sorted(set(bad)) if bad else ''),
                'ok': verdict is None, 'key': verdict[0] if verdict else None}
    if case['kind'] == 'doc':
        desc = _parse_desc(case['doc'])
        img, bad = expect_document(desc, t2l, s2l)
        obs = run_document(desc, t2l, s2l, case.get('iface', False))
        verdict = judge_document(desc, img, bad, obs, t2l, s2l, '$ on ' + case['doc'])
        return {'observed': obs if obs[0] == 'e' else repr(obs[1]),
                'expected': P.show(img) + (' -- needs unhashable: %r' % sorted(set(bad)) if bad else ''),
                'ok': verdict is None, 'key': verdict[0] if verdict else None}
    if case['kind'] == 'expr':
        label, verdict, obs = judge_expression(case['text'], t2l, s2l)
        exp = raw_image(case['text'], t2l, s2l)
        return {'observed': obs if obs[0] == 'e' else repr(obs[1]),
                'expected': (P.show(exp[1]) + (' -- needs unhashable: %r' % sorted(set(exp[2])) if exp[2] else ''))
                if exp[0] == 'img' else 'evaluation fails with ' + exp[1],
                'ok': verdict is None, 'key': verdict[0] if verdict else None}
    return {'ok': False, 'observed': 'unknown case kind'}
