"""Reference model of YAQL literals (property C16).  Imports nothing from yaql.

Source: doc/source/language_reference.rst, sections "Literals" and "Keywords":

* "String literals enclosed in either single (') or double (") quotes ...  The
  backslash character is used to escape characters that otherwise have a
  special meaning, such as newline, backslash itself, or the quote character"
  - the escape repertoire is that of Python string literals (the reference
  compares verbatim strings with Python's r'strings'): \\\\ \\' \\" \\a \\b \\f \\n \\r
  \\t \\v, octal \\o \\oo \\ooo, \\xHH, \\uHHHH, \\UHHHHHHHH, \\N{NAME}; a backslash in
  front of any other character stands for itself.
* "Verbatim strings enclosed in back quote characters ... suppress escape
  sequences" - the only thing a verbatim string unescapes is the back quote.
* "Integer literals: 123", "Floating point literals: 1.23, 1.0" - digits, one
  dot between digits; same numbers as in Python.
* A keyword "consists of alphanumeric characters and an underscore, doesn't
  start with a digit, doesn't start with two underscore characters";
  true/false/null "have the value of similar JSON keywords"; "all other
  keywords have the value of their string representation"; alphanumeric means
  latin letters and digits.

Ill-formed escapes (\\x \\u \\U \\N not followed by a complete field) are outside
this model's domain: whether they are *errors* is property C03's question.
"""
import fractions
import unicodedata

ILLFORMED = object()
HEX = '0123456789abcdefABCDEF'
OCT = '01234567'
SINGLE = {'\\': '\\', "'": "'", '"': '"', 'a': '\a', 'b': '\b', 'f': '\f', 'n': '\n', 'r': '\r', 't': '\t', 'v': '\v'}
FIELD = {'x': 2, 'u': 4, 'U': 8}
STYLES = ("'", '"', '`')


# --------------------------------------------------------------------------
# strings
# --------------------------------------------------------------------------
def quote(value, q):
    """The spelling of a string value in style q (the checker's quoting
    function): escape what has a special meaning - the backslash and the quote
    itself (for a verbatim string only the back quote can be escaped)."""
    if q == '`':
        return q + value.replace('`', '\\`') + q
    return q + value.replace('\\', '\\\\').replace(q, '\\' + q) + q


def verbatim_spellable(value):
    """A verbatim string cannot end its body with an unpaired backslash, nor
    contain an odd run of backslashes in front of a back quote (the backslash
    added for the back quote would pair up with the run instead)."""
    run = 0
    for c in value + '`':
        if c == '\\':
            run += 1
            continue
        if c == '`' and run % 2:
            return False
        run = 0
    return True


def is_token_body(body, q):
    """body is what may stand between two q: characters other than q and
    backslash, or a backslash followed by any character."""
    i = 0
    while i < len(body):
        if body[i] == '\\':
            if i + 1 >= len(body):
                return False
            i += 2
        elif body[i] == q:
            return False
        else:
            i += 1
    return True


def decode(body):
    """Value of the body of a '...' or "..." literal, or ILLFORMED."""
    out = []
    i = 0
    n = len(body)
    while i < n:
        c = body[i]
        if c != '\\' or i + 1 >= n:
            out.append(c)
            i += 1
            continue
        d = body[i + 1]
        if d in SINGLE:
            out.append(SINGLE[d])
            i += 2
        elif d in OCT:
            j = i + 1
            while j < n and j < i + 4 and body[j] in OCT:
                j += 1
            out.append(chr(int(body[i + 1:j], 8)))
            i = j
        elif d in FIELD:
            field = body[i + 2:i + 2 + FIELD[d]]
            if len(field) != FIELD[d] or any(h not in HEX for h in field):
                return ILLFORMED
            cp = int(field, 16)
            if cp > 0x10FFFF:
                return ILLFORMED
            out.append(chr(cp))
            i += 2 + FIELD[d]
        elif d == 'N':
            end = body.find('}', i + 3)
            if body[i + 2:i + 3] != '{' or end < 0:
                return ILLFORMED
            try:
                out.append(unicodedata.lookup(body[i + 3:end]))
            except KeyError:
                return ILLFORMED
            i = end + 1
        else:
            out.append(c)           # not an escape: the backslash stands for itself
            i += 1
    return ''.join(out)


def verbatim_value(body):
    return body.replace('\\`', '`')


UNTERMINATED = object()


def string_tokens(text):
    """The string literals of an expression text, left to right, as (q, body)
    pairs, or UNTERMINATED when a quote is opened and never closed.  A literal
    starts at a quote character outside any literal and ends at the first
    following q that is not paired with a backslash (the rule of
    is_token_body): where a literal ends is decided by its own characters,
    never by the text after it."""
    out = []
    i = 0
    n = len(text)
    while i < n:
        q = text[i]
        i += 1
        if q not in STYLES:
            continue
        start = i
        while i < n and text[i] != q:
            i += 2 if text[i] == '\\' else 1
        if i >= n:
            return UNTERMINATED
        out.append((q, text[start:i]))
        i += 1
    return out


# --------------------------------------------------------------------------
# numbers
# --------------------------------------------------------------------------
def int_value(digits):
    v = 0
    for c in digits:
        v = v * 10 + '0123456789'.index(c)
    return v


def decimal_value(whole, frac):
    """Correctly rounded double of whole.frac (as Python reads the same text),
    or None when it is not finite."""
    try:
        return float(fractions.Fraction(int_value(whole + frac), 10 ** len(frac)))
    except OverflowError:
        return None


# --------------------------------------------------------------------------
# keywords
# --------------------------------------------------------------------------
LATIN = 'abcdefghijklmnopqrstuvwxyzABCDEFGHIJKLMNOPQRSTUVWXYZ'
DIGITS = '0123456789'
CONSTANTS = {'true': True, 'false': False, 'null': None}


def keyword(word, operator_words):
    """('const', value) | ('text', word) | ('rejected',) | None = not covered
    by the reference (non-latin letters, digit first, operator words)."""
    if not word or any(c not in LATIN + DIGITS + '_' for c in word) or word[0] in DIGITS:
        return None
    if word in operator_words:
        return None
    if word.startswith('__'):
        return ('rejected',)
    if word in CONSTANTS:
        return ('const', CONSTANTS[word])
    return ('text', word)
