"""C15 - scalar operators form a consistent arithmetic and ordering.

E3 small-scope enumeration: every pair of a boundary-rich scalar corpus under
every binary operator (operands bound as variables and, where spellable, as
literals - constants are type-checked on a different path), every value under
every unary operator, list/string repetition by every corpus value; the result
is compared with models/scalar.py, and the laws of the statement (trichotomy,
a>b <=> b<a, <= <=> < or =, floor-division identity, transitivity on all
triples) are evaluated on the *observed* result table.
"""
import ast
import itertools

import vf.loader  # noqa: F401
from vf.core import Result, chunks
from models import scalar as M

import yaql
from yaql.language import contexts, utils
from yaql.language import exceptions as yexc

ID = 'C15'
TITLE = 'scalar operators'
RULE = ('all (operator, a, b) over the corpus, as variables and as literals; a case is '
        'non-trivial when the model defines a value or a specific error for it (in-domain) '
        'and is distinct by (form, operator, repr(a), repr(b)); laws are checked on the '
        'observed table for all pairs and all triples')
ASSUMPTIONS = ['CPython int/float arithmetic is the reference for exact integer and IEEE float results',
               'NaN and infinities are not part of the corpus (not spellable as YAQL data in the statement)']
BOUNDS = {'quick': 'corpus Q (50 values): all pairs x 15 binary ops x {variables of a child context, literals, mixed, variables of a LinkedContext scope, '
                   'of two MultiContext members, two layers up a context chain, left operand as the data $}, all triples for transitivity on observed table',
          'thorough': 'corpus T (~110 values): all pairs x 15 binary ops x the same seven operand deliveries, all triples'}

CORPUS_Q = [
    'None', 'True', 'False',
    '0', '1', '-1', '2', '3', '7', '-7', '10', '255',
    '9223372036854775807', '9223372036854775809', '-9223372036854775808',
    '10**40', '-10**40', '10**40+1',
    '0.0', '-0.0', '0.5', '-2.5', '1.0', '2.0', '0.1', '0.2', '0.30000000000000004',
    '5e-324', '1.7e308', '-1.7e308', '1e16', '9007199254740993.0', '9.223372036854775807e18',
    "''", "'a'", "'ab'", "'b'", "'A'", "'aa'", "'\\xe9'", "'\\U0001f600'", "'1'", "' '", "'a\\x00'",
    '3.5', '-3.5', '1e-7', '123456789.125',
    "'e\\u0301'", "'f'",        # a decomposed spelling next to its precomposed form '\xe9': code point order, no normalisation
]
CORPUS_T = CORPUS_Q + [
    '4', '5', '-2', '-3', '100', '-100', '2**31', '2**31-1', '-2**31', '2**32', '2**53', '2**53+1',
    '2**64', '-2**64', '10**18', '10**19', '10**100', '-10**100', '10**308', '10**309', '2**1024',
    '0.25', '-0.5', '1.5', '-1.0', '2.5', '1e-300', '-5e-324', '1e300', '4.0', '7.0', '-7.0', '1e22',
    '1e23', '0.3', '3.0000000000000004', '2.220446049250313e-16', '4503599627370496.5',
    "'B'", "'ba'", "'abc'", "'a b'", "'0'", "'-1'", "'true'", "'null'", "'\\u0301'", "'e\\u0301'",
    "'\\uffff'", "'\\U00010000'", "'z'", "'Z'", "'\\t'", "'aaa'", "'\\u0430'", "'a\\n'",
    '6', '-6', '9', '-9', '12', '0.75', '-0.75',
]


def corpus(tier):
    src = CORPUS_Q if tier == 'quick' else CORPUS_T
    seen = []
    for s in src:
        if s not in seen:
            seen.append(s)
    return seen


def val(src):
    return eval(src, {'__builtins__': {}})  # corpus literals only


def literal(src):
    """YAQL literal spelling of a corpus value, or None when it has none."""
    v = val(src)
    if v is None:
        return 'null'
    if v is True:
        return 'true'
    if v is False:
        return 'false'
    if isinstance(v, int):
        return str(v) if v >= 0 and v < 10 ** 60 else None
    if isinstance(v, float):
        r = repr(v)
        if 'e' in r or 'inf' in r or 'nan' in r or r.startswith('-'):
            return None
        return r
    if isinstance(v, str):
        if all(32 <= ord(c) < 127 and c not in "'\\" for c in v):
            return "'" + v + "'"
        return None
    return None


_state = {}


def setup():
    if not _state:
        _state['eng'] = yaql.YaqlFactory().create()
        _state['root'] = yaql.create_context()
        _state['st'] = {}
    return _state


DELIVERIES = ('linked', 'multi', 'chain', 'data')


def deliver(root, a, b, how):
    """The context an expression over $a and $b (for 'data': $ and $b) is evaluated in."""
    if how == 'linked':         # a host scope object linked in front of the library
        scope = contexts.Context()
        scope['a'] = a
        scope['b'] = b
        return contexts.LinkedContext(root, scope).create_child_context(), utils.NO_VALUE
    if how == 'multi':          # the operands live in two members of one MultiContext
        m1, m2 = contexts.Context(root), contexts.Context(root)
        m1['a'] = a
        m2['b'] = b
        return contexts.MultiContext([m1, m2]).create_child_context(), utils.NO_VALUE
    c = root.create_child_context()
    if how == 'data':
        c['b'] = b
        return c, a
    c['a'] = a
    c['b'] = b
    if how == 'chain':          # found two layers up, through an empty layer
        c = c.create_child_context().create_child_context()
    return c, utils.NO_VALUE


def observe(text, a=None, b=None, how='child'):
    s = setup()
    st = s['st'].get(text)
    if st is None:
        st = s['st'][text] = s['eng'](text)
    c, data = deliver(s['root'], a, b, how)
    try:
        return ('v', st.evaluate(data=data, context=c))
    except (yexc.NoMatchingFunctionException, yexc.NoMatchingMethodException):
        return M.NOMATCH
    except ZeroDivisionError:
        return M.ZERODIV
    except Exception as e:  # anything else is reported verbatim
        return ('e', type(e).__name__)


def agree(obs, exp):
    if obs[0] != exp[0]:
        return False
    if obs[0] == 'e':
        return obs[1] == exp[1]
    return M.same(obs[1], exp[1])


def resource_question(a, b):
    """True for a sequence/string repetition whose count exceeds the model's bound."""
    for s_, n in ((a, b), (b, a)):
        if isinstance(s_, (str, list, tuple)) and isinstance(n, int) and not isinstance(n, bool) and abs(n) > M.MAX_REP:
            return True
    return False


def classify(op, ka, kb, obs, exp, form):
    if exp == M.NOMATCH and obs[0] == 'v':
        if 'bool' in (ka, kb):
            return 'bool-accepted op=%s kinds=%s,%s' % (op, ka, kb)
        return 'unrelated-kinds-accepted op=%s kinds=%s,%s' % (op, ka, kb)
    return 'model-mismatch op=%s kinds=%s,%s form=%s' % (op, ka, kb, form)


def job_pairs(tier, a_slice):
    res = Result()
    vals = corpus(tier)
    table = {}
    for sa in a_slice:
        a = val(sa)
        la = literal(sa)
        for sb in vals:
            b = val(sb)
            lb = literal(sb)
            for op in M.BINARY:
                exp = M.binary(op, a, b)
                forms = [('var', '$a %s $b' % op)]
                if la is not None and lb is not None:
                    forms.append(('lit', '%s %s %s' % (la, op, lb)))
                    forms.append(('mixed', '$a %s %s' % (op, lb)))
                forms += [(how, ('$ %s $b' if how == 'data' else '$a %s $b') % op) for how in DELIVERIES]
                for form, text in forms:
                    res.case((form, op, sa, sb))
                    if op == '*' and resource_question(a, b):
                        # a repetition count beyond MAX_REP is a memory question (C08), executing it would
                        # allocate gigabytes: enumerated, not executed
                        res.out_of_domain += 1
                        res.outcomes['ood: repetition count beyond the model bound (not executed)'] += 1
                        continue
                    obs = observe(text, a, b, form if form in DELIVERIES else 'child')
                    res.evaluations += 1
                    res.transitions += 1
                    if form == 'var':
                        table['%s|%s|%s' % (op, sa, sb)] = _enc(obs)
                    if exp is None:
                        res.out_of_domain += 1
                        res.outcomes['ood'] += 1
                        continue
                    res.nontrivial += 1
                    res.outcomes['%s %s' % (op, obs[1] if obs[0] == 'e' else 'value:' + M.kind(obs[1]))] += 1
                    if not agree(obs, exp):
                        res.fail(classify(op, M.kind(a), M.kind(b), obs, exp, form),
                                 {'kind': 'binary', 'text': text, 'a': sa, 'b': sb, 'op': op, 'form': form},
                                 'observed %r expected %r' % (obs, exp))
            if len(res.samples) < 2 and sb == vals[len(vals) // 3]:
                res.sample({'text': '$a * $b', 'a': sa, 'b': sb,
                            'observed': repr(observe('$a * $b', a, b))})
    res.extra['table'] = table
    return res


def _enc(obs):
    if obs[0] == 'e':
        return 'e:' + obs[1]
    return 'v:' + repr(obs[1])


def job_unary_rep(tier):
    res = Result()
    vals = corpus(tier)
    for sa in vals:
        a = val(sa)
        la = literal(sa)
        for op in M.UNARY:
            exp = M.unary(op, a)
            forms = [('var', '%s $a' % op)]
            if la is not None:
                forms.append(('lit', '%s %s' % (op, la)))
            for form, text in forms:
                res.case((form, 'u' + op, sa))
                obs = observe(text, a)
                res.evaluations += 1
                res.transitions += 1
                res.nontrivial += 1
                res.outcomes['u%s %s' % (op, obs[1] if obs[0] == 'e' else 'value:' + M.kind(obs[1]))] += 1
                if not agree(obs, exp):
                    key = ('bool-accepted op=unary%s' % op if M.kind(a) == 'bool' and obs[0] == 'v'
                           else 'model-mismatch op=unary%s kind=%s form=%s' % (op, M.kind(a), form))
                    res.fail(key, {'kind': 'unary', 'text': text, 'a': sa, 'op': op},
                             'observed %r expected %r' % (obs, exp))
        # repetition of a list by every corpus value, both orders
        for text, order in (('$b * $a', 'list*x'), ('$a * $b', 'x*list')):
            lst = [1, 2]
            res.case(('rep', order, sa))
            if resource_question(a, lst):
                res.out_of_domain += 1
                continue
            exp = M.binary('*', lst, a) if order == 'list*x' else M.binary('*', a, lst)
            obs = observe(text, a, tuple(lst))
            if obs[0] == 'v' and isinstance(obs[1], (list, tuple)):
                obs = ('v', list(obs[1]))
            res.evaluations += 1
            res.transitions += 1
            if exp is None:
                res.out_of_domain += 1
                continue
            res.nontrivial += 1
            res.outcomes['rep %s' % (obs[1] if obs[0] == 'e' else 'value')] += 1
            if not agree(obs, exp):
                ka = M.kind(a)
                key = ('bool-accepted op=* kinds=%s' % ('list,bool' if order == 'list*x' else 'bool,list')
                       if ka == 'bool' and obs[0] == 'v'
                       else 'model-mismatch op=* list repetition kind=%s' % ka)
                res.fail(key, {'kind': 'rep', 'text': text, 'a': sa, 'order': order},
                         'observed %r expected %r' % (obs, exp))
    return res


def jobs(tier, seed):
    vals = corpus(tier)
    out = []
    for i, sl in enumerate(chunks(vals, 32)):
        out.append(('pairs-%02d' % i, 'job_pairs', (tier, sl)))
    out.append(('unary-rep', 'job_unary_rep', (tier,)))
    return out


def finish(total, tier):
    """Laws on the observed table: all pairs, all triples."""
    table = total.extra.pop('table', {})
    vals = corpus(tier)
    pv = {s: val(s) for s in vals}

    def R(op, sa, sb):
        r = table.get('%s|%s|%s' % (op, sa, sb))
        if r is None:
            return None
        if r.startswith('v:'):
            return ('v', ast.literal_eval(r[2:]) if not r[2:] in ('inf', '-inf', 'nan') else float(r[2:]))
        return ('e', r[2:])

    def orderable(a, b):
        ks = {M.kind(a), M.kind(b)}
        return ks <= {'int', 'float', 'null'} or ks <= {'str', 'null'}

    npairs = ntriples = 0
    for sa, sb in itertools.product(vals, repeat=2):
        a, b = pv[sa], pv[sb]
        if not orderable(a, b):
            continue
        npairs += 1
        lt, gt, le, ge, eq = (R(o, sa, sb) for o in ('<', '>', '<=', '>=', '='))
        rlt = R('<', sb, sa)
        case = {'kind': 'law', 'a': sa, 'b': sb}
        if any(x is None or x[0] != 'v' for x in (lt, gt, le, ge, eq, rlt)):
            total.fail('law: orderable pair raised', case, repr((lt, gt, le, ge, eq)))
            continue
        if gt[1] != rlt[1]:
            total.fail('law: a>b differs from b<a', case, repr((gt, rlt)))
        if le[1] != (lt[1] or eq[1]):
            total.fail('law: a<=b differs from a<b or a=b', case, repr((le, lt, eq)))
        if ge[1] != (gt[1] or eq[1]):
            total.fail('law: a>=b differs from a>b or a=b', case, repr((ge, gt, eq)))
        if [lt[1], eq[1], gt[1]].count(True) != 1:
            total.fail('law: trichotomy', case, repr((lt, eq, gt)))
        if M.kind(a) == 'int' and M.kind(b) == 'int' and b != 0:
            q, m = R('/', sa, sb), R('mod', sa, sb)
            if q[0] != 'v' or m[0] != 'v' or not isinstance(q[1], int) or q[1] * b + m[1] != a:
                total.fail('law: a = (a / b) * b + (a mod b)', case, repr((q, m)))
    # transitivity on all triples of mutually orderable values
    lt_true = {}
    for sa in vals:
        for sb in vals:
            r = R('<', sa, sb)
            lt_true[(sa, sb)] = bool(r and r[0] == 'v' and r[1] is True)
    groups = [[s for s in vals if M.kind(pv[s]) in ('int', 'float', 'null')],
              [s for s in vals if M.kind(pv[s]) in ('str', 'null')]]
    for g in groups:
        for sa, sb, sc in itertools.product(g, repeat=3):
            ntriples += 1
            if lt_true[(sa, sb)] and lt_true[(sb, sc)] and not lt_true[(sa, sc)]:
                total.fail('law: transitivity of <', {'kind': 'law3', 'a': sa, 'b': sb, 'c': sc},
                           'a<b and b<c but not a<c')
    total.extra['law_pairs_checked'] = npairs
    total.extra['law_triples_checked'] = ntriples
    total.transitions += npairs + ntriples


def replay(case):
    k = case['kind']
    if k in ('binary',):
        a, b = val(case['a']), val(case['b'])
        form = case.get('form')
        obs = observe(case['text'], a, b, form if form in DELIVERIES else 'child')
        exp = M.binary(case['op'], a, b)
        return {'observed': repr(obs), 'expected': repr(exp), 'ok': exp is None or agree(obs, exp)}
    if k == 'unary':
        a = val(case['a'])
        obs = observe(case['text'], a)
        exp = M.unary(case['op'], a)
        return {'observed': repr(obs), 'expected': repr(exp), 'ok': agree(obs, exp)}
    if k == 'rep':
        a = val(case['a'])
        lst = [1, 2]
        exp = M.binary('*', lst, a) if case['order'] == 'list*x' else M.binary('*', a, lst)
        obs = observe(case['text'], a, tuple(lst))
        if obs[0] == 'v' and isinstance(obs[1], (list, tuple)):
            obs = ('v', list(obs[1]))
        return {'observed': repr(obs), 'expected': repr(exp), 'ok': exp is None or agree(obs, exp)}
    if k in ('law', 'law3'):
        out = {}
        for op in ('<', '<=', '>', '>=', '=', '/', 'mod'):
            out[op] = repr(observe('$a %s $b' % op, val(case['a']), val(case['b'])))
        return {'observed': out, 'expected': 'laws of the statement', 'ok': False}
    return {'ok': False, 'observed': 'unknown case kind'}
