"""Small helpers shared by the property drivers for driving the real yaql.

Everything here is per-process state (workers are forked once per check and
build their engines/contexts lazily, once).
"""
import collections
import itertools

import vf.loader  # noqa: F401
import yaql
from yaql.language import contexts as ycontexts
from yaql.language import exceptions as yexc
from yaql.language import utils as yutils

NO_VALUE = yutils.NO_VALUE

_engines = {}
_roots = {}
_stmts = {}


def engine(options=None, allow_delegates=False, legacy=False):
    """A cached engine per (options, delegates, legacy)."""
    key = (tuple(sorted((options or {}).items())), allow_delegates, legacy)
    e = _engines.get(key)
    if e is None:
        if legacy:
            from yaql import legacy as ylegacy
            f = ylegacy.YaqlFactory(allow_delegates=allow_delegates)
        else:
            f = yaql.YaqlFactory(allow_delegates=allow_delegates)
        e = _engines[key] = f.create(options=dict(options or {}))
    return e


def fresh_engine(options=None, allow_delegates=False):
    return yaql.YaqlFactory(allow_delegates=allow_delegates).create(options=dict(options or {}))


def root(delegates=False, legacy=False):
    """A cached fully populated standard-library context (never written to by
    the drivers: always evaluate in root().create_child_context())."""
    key = (delegates, legacy)
    r = _roots.get(key)
    if r is None:
        if legacy:
            from yaql import legacy as ylegacy
            r = ylegacy.create_context(delegates=delegates)
        else:
            r = yaql.create_context(delegates=delegates)
        _roots[key] = r
    return r


def bare_context():
    """A hand-assembled standard-library context WITHOUT the #finalize / #iter functions that
    yaql.create_context() adds (hosts may build contexts this way; Statement then falls back to an identity
    finaliser in a private child)."""
    from yaql.language import contexts as ycontexts, conventions
    from yaql.standard_library import (boolean, branching, collections as scoll, common, date_time, math,
                                       queries, regex, strings, system, yaqlized)
    ctx = ycontexts.Context(convention=conventions.CamelCaseConvention())
    system.register_fallbacks(ctx)
    ctx = ctx.create_child_context()
    system.register(ctx, False)
    for m in (common, boolean, strings, math):
        m.register(ctx)
    scoll.register(ctx, False)
    queries.register(ctx, True)
    for m in (regex, branching, date_time):
        m.register(ctx)
    return yaqlized.register(ctx)


def parse(text, options=None, allow_delegates=False, legacy=False):
    key = (text, tuple(sorted((options or {}).items())), allow_delegates, legacy)
    s = _stmts.get(key)
    if s is None:
        s = engine(options, allow_delegates, legacy)(text)
        if len(_stmts) < 200000:
            _stmts[key] = s
    return s


def evaluate(text, data=NO_VALUE, variables=None, options=None, delegates=False,
             legacy=False, context=None):
    """Evaluate text on the real engine in a fresh child of the cached root
    context (or of `context`).  Exceptions propagate."""
    st = parse(text, options, delegates, legacy)
    ctx = (context if context is not None else root(delegates, legacy)).create_child_context()
    if variables:
        for k, v in variables.items():
            ctx[k] = v
    return st.evaluate(data=data, context=ctx)


def outcome(text, data=NO_VALUE, variables=None, options=None, delegates=False,
            legacy=False, context=None):
    """('v', value) or ('e', ExceptionClassName, message[:200]).  BaseExceptions
    (Horizon, KeyboardInterrupt, harness timeouts) propagate."""
    try:
        return ('v', evaluate(text, data, variables, options, delegates, legacy, context))
    except Exception as e:
        return ('e', type(e).__name__, str(e)[:200])


# ---------------------------------------------------------------------------
# instrumented sources and probes
# ---------------------------------------------------------------------------
class Horizon(BaseException):
    """Raised by an instrumented endless source when it is pulled beyond its
    horizon.  A BaseException, so no `except Exception` in the library can
    swallow it: over-consumption is observed deterministically, without timers."""

    def __init__(self, pulls):
        BaseException.__init__(self, 'HORIZON pulls=%d' % pulls)
        self.pulls = pulls


class Source(collections.abc.Iterator):
    """Endless one-shot iterator 0, 1, 2, ... (or cycling through `items`, or
    produced by `fn(i)`), counting pulls; pull number `horizon`+1 raises Horizon."""

    def __init__(self, horizon, items=None, fn=None):
        self.horizon = horizon
        self.pulls = 0
        self.items = items
        self.fn = fn

    def __iter__(self):
        return self

    def __next__(self):
        if self.pulls >= self.horizon:
            raise Horizon(self.pulls + 1)
        i = self.pulls
        self.pulls += 1
        if self.fn is not None:
            return self.fn(i)
        if self.items is not None:
            return self.items[i % len(self.items)]
        return i


class FiniteSource(collections.abc.Iterator):
    """One-shot iterator over a finite sequence that counts pulls (including the
    final StopIteration pull)."""

    def __init__(self, items):
        self._it = iter(list(items))
        self.pulls = 0

    def __iter__(self):
        return self

    def __next__(self):
        self.pulls += 1
        return next(self._it)


def tick_context(parent=None, delegates=False):
    """A child context with a function tick(id, value=null) that appends id to
    the returned log and returns value."""
    log = []
    ctx = (parent if parent is not None else root(delegates)).create_child_context()

    def tick(ident, value=None):
        log.append(ident)
        return value
    ctx.register_function(tick, name='tick')
    return ctx, log


# ---------------------------------------------------------------------------
# canonical forms
# ---------------------------------------------------------------------------
def canon(v, depth=0):
    """JSON-able canonical form that keeps container types visible:
    list -> ['L', ...], tuple -> ['T', ...], set/frozenset -> ['S', sorted...],
    dict-like -> ['D', sorted pairs], iterator/other iterable -> ['I', typename],
    scalars as (typename, repr) for non-JSON scalars."""
    if depth > 12:
        return ['DEEP']
    if v is None or isinstance(v, (bool, str)):
        return v
    if isinstance(v, int):
        return v if abs(v) < 2 ** 53 else ['int', str(v)]
    if isinstance(v, float):
        return ['float', repr(v)]
    if isinstance(v, list):
        return ['L'] + [canon(x, depth + 1) for x in v]
    if isinstance(v, tuple):
        return ['T'] + [canon(x, depth + 1) for x in v]
    if isinstance(v, (set, frozenset)):
        return ['S' if isinstance(v, set) else 'FS'] + sorted((canon(x, depth + 1) for x in v), key=repr)
    if isinstance(v, dict):
        return ['D'] + sorted(([canon(k, depth + 1), canon(x, depth + 1)] for k, x in v.items()), key=repr)
    if isinstance(v, yutils.FrozenDict):
        return ['FD'] + sorted(([canon(k, depth + 1), canon(x, depth + 1)] for k, x in v.items()), key=repr)
    if isinstance(v, collections.abc.Iterator):
        return ['ITER', type(v).__name__]
    if type(v).__repr__ is object.__repr__:
        return ['OBJ', type(v).__name__]          # default repr carries an address: compare by type only
    return ['OBJ', type(v).__name__, repr(v)[:80]]


def plain(v):
    """Deep conversion of a finalised result to plain comparable Python data
    (lists for sequences, frozensets for sets, dict for mappings)."""
    if isinstance(v, (list, tuple)):
        return [plain(x) for x in v]
    if isinstance(v, (set, frozenset)):
        return frozenset(_hashable(plain(x)) for x in v)
    if isinstance(v, collections.abc.Mapping):
        return {_hashable(plain(k)): plain(x) for k, x in v.items()}
    return v


def _hashable(v):
    if isinstance(v, list):
        return tuple(_hashable(x) for x in v)
    if isinstance(v, dict):
        return tuple(sorted(((k, _hashable(x)) for k, x in v.items()), key=repr))
    return v


def all_definitions(ctx=None):
    """Every FunctionDefinition registered along a context chain:
    list of (layer_index, name, FunctionDefinition)."""
    ctx = ctx if ctx is not None else root()
    out = []
    i = 0
    while ctx is not None:
        funcs = getattr(ctx, '_functions', None)
        if funcs:
            for name in sorted(funcs):
                for fd in sorted(funcs[name], key=lambda f: (f.payload.__module__, f.payload.__qualname__, repr(sorted(f.parameters)))):
                    out.append((i, name, fd))
        ctx = ctx.parent
        i += 1
    return out
