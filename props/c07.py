"""C07 - expressions cannot reach host objects except through granted members.

Part 1 (containment, E3 scan): a canary host object that is NOT yaqlized and
whose __getattribute__ logs every name is put into every visible parameter
position of every registered definition (other positions from vf.corpus, string
positions also holding attack strings), into every member / index / call form
of the language, and into all depth-2 compositions g(f($c)) of the calls that
accepted it.  Judged on every evaluation: names read on the canary are a subset
of {__class__, __yaqlization__} (isinstance checks and the yaqlization lookup;
Python's implicit special-method lookups go through the type and are not
logged), its __getitem__ and __call__ never run, the secret marker occurs in no
result and no exception text; a name beginning with two underscores is rejected
by the lexer.

Part 2 (policy, complete enumeration): every yaqlization setting (4 switches x
whitelist x blacklist x remapping) x every member name of a probe class x
{attribute, method, method with keyword, index} is evaluated and the members
actually touched (probe log) and the outcome are compared with models/policy.py.
"""
import collections
import itertools
import re
import resource

import vf.loader  # noqa: F401
from vf import core
from vf import corpus as C
from vf import yq
from vf.core import Result, chunks
from models import policy as P

from yaql import yaqlization
from yaql.language import exceptions as yexc

ID = 'C07'
TITLE = 'host object containment'
RULE = ('part 1: every (definition, argument tuple, canary position, canary variant, call form[, attack string]) '
        'plus every (member/index/call template, member name, variant) plus every composition g(f($c)) of accepted '
        'calls; a case is non-trivial when the expression produced a value (the canary flowed through the library); '
        'part 2: every (settings, member name, access template), non-trivial when inside the documented policy '
        '(everything except attribute access through a method remapping); cases are distinct by their text and bindings')
ASSUMPTIONS = [
    'the engine is the default one (delegate expressions disabled: with them the host opted in to calling callables)',
    'an object that defines __iter__ is a YAQL collection by the data model: the iterable canary variant is iterated '
    'legitimately (by collection functions and by result finalisation); its __iter__ calls are counted, not judged; '
    'the same holds for Python\'s legacy iteration protocol (obj[0], obj[1], ... until IndexError): integer keys make the '
    'canary raise IndexError and are counted, every other key is judged',
    'str()/repr() of a host object use the type-level protocol and are not members reached by name',
    'CPython: implicit special-method lookup bypasses __getattribute__, hence the explicit __getitem__/__call__ counters',
]
BOUNDS = {
    'quick': 'scan: base tuple + *args/** variants per definition, 2 canary variants, all call forms, 6 attack strings; '
             '32 member/index/call templates x 8 names; compositions of all accepted direct calls (plain canary); '
             'policy: 16 switch settings x 4 whitelists x 4 blacklists x 3 remappings x 10 names x 10 templates; '
             'sequences of two accesses (3 forms x 3 names, squared) to one object whose whitelist/blacklist entries were given as a list, tuple, '
             'generator, iterator or filter object x 4 x 4 lists x 2 remappings; results that carry their own settings (instance-level, class-level, '
             'the parent itself) reached by attribute, method and index from a parent with auto_yaqlize_result on/off',
    'thorough': 'scan: corpus star of 2 values per parameter; compositions for both canary variants; '
                'policy: 16 x 8 whitelists x 8 blacklists x 4 remappings x 10 names x 10 templates; sequences over all 9 x 9 lists',
}

OPTIONS = {'yaql.limitIterators': C.LIMIT}
MARK = 'S3CR3T-7f3a9c'
INFRA = ('__class__', '__yaqlization__')
ATTACKS = ['{0.secret}', '{0.__class__}', '%(secret)s', 'secret', '_private', '__class__']


# ---------------------------------------------------------------------------
# the canary
# ---------------------------------------------------------------------------
class Log(object):
    def __init__(self):
        self.reset()

    def reset(self):
        self.names = []
        self.getitem = self.call = self.iter = self.legacy_iter = 0


LOG = Log()


class Canary(object):
    """Not yaqlized.  Everything it holds is the marker."""

    def __init__(self):
        d = object.__getattribute__(self, '__dict__')
        d['secret'] = MARK
        d['_private'] = MARK + '-private'
        d['__dunder_x__'] = MARK + '-dunder'

    def leak(self):
        return MARK + '-leak'

    def __getattribute__(self, name):
        LOG.names.append(name)
        return object.__getattribute__(self, name)

    def __getitem__(self, key):
        if isinstance(key, int):
            LOG.legacy_iter += 1            # `for x in obj` on an object without __iter__ asks for obj[0]
            raise IndexError(key)
        LOG.getitem += 1
        return MARK + '-item'

    def __call__(self, *args, **kwargs):
        LOG.call += 1
        return MARK + '-call'


class IterableCanary(Canary):
    def __iter__(self):
        LOG.iter += 1
        return iter(('element',))


VARIANTS = {'plain': Canary, 'iterable': IterableCanary}


def guard():
    """A runaway allocation must become a MemoryError of one case, not an OOM-killed worker (which hangs the pool)."""
    resource.setrlimit(resource.RLIMIT_AS, (6 * 2 ** 30, 6 * 2 ** 30))


def run(text, variables):
    """Evaluate on the default engine; ('lex'|'grammar', class) | ('v', value) | ('e', class, message) and the findings."""
    LOG.reset()
    try:
        yq.parse(text, OPTIONS)
    except yexc.YaqlLexicalException as e:
        return ('lex', type(e).__name__), []
    except yexc.YaqlGrammarException as e:
        return ('grammar', type(e).__name__), []
    try:
        v = yq.evaluate(text, variables=variables, options=OPTIONS)
        out = ('v', v)
        shown = repr(v)
    except Exception as e:
        out = ('e', type(e).__name__, str(e)[:200])
        shown = '%s %r' % (e, e.args)
    found = []
    bad = sorted(set(LOG.names) - set(INFRA))
    if bad:
        found.append('read ' + ','.join(bad))
    if LOG.getitem:
        found.append('__getitem__ x%d' % LOG.getitem)
    if LOG.call:
        found.append('__call__ x%d' % LOG.call)
    if MARK in shown:
        found.append('marker in ' + ('result' if out[0] == 'v' else 'exception text'))
    return out, found


def tally(res, out):
    res.evaluations += 1
    res.transitions += 1
    if out[0] == 'v':
        res.nontrivial += 1
    res.outcomes['contain %s' % (out[1] if out[0] != 'v' else 'value')] += 1
    for n in set(LOG.names):
        res.extra.setdefault('names_read_on_canary', collections.Counter())[n] += 1
    res.extra['canary_iter_calls'] = res.extra.get('canary_iter_calls', 0) + LOG.iter
    res.extra['canary_legacy_iteration_calls'] = res.extra.get('canary_legacy_iteration_calls', 0) + LOG.legacy_iter


# ---------------------------------------------------------------------------
# part 1a: the canary in every position of every definition
# ---------------------------------------------------------------------------
def scannable():
    """Definitions of the default (no delegates) context; #call and lambda exist in delegate mode only."""
    return [r for r in C.definitions() if r.syntax != 'delegate' and r.ident != 'lambda|system.lambda_']


def scan_tuples(rec, tier):
    return C.argument_tuples(rec, per_param=2 if tier == 'thorough' else 1, mode='star')


def slots(rec, args):
    """Positions that can hold the canary: ('p', i) positional, ('a', i) *args, ('k', name) **kwargs."""
    return [('p', i) for i in range(len(args.pos))] + [('a', i) for i in range(len(args.var))] + \
        [('k', k) for k in sorted(args.kw)]


def build(rec, args, slot, form, bykw, fill='$c', prefix='v', attack=None):
    """Text and fresh variables of one call with `fill` in `slot`; None when the form does not exist.
    bykw: the slot parameter and all later ones are passed by keyword.  attack: (position, string)."""
    values = list(args.pos) + list(args.var)
    texts, variables = C.bind(values, prefix)
    kwt, kwv = C.bind([args.kw[k] for k in sorted(args.kw)], prefix + 'k')
    variables.update(kwv)
    kw = list(zip(sorted(args.kw), kwt))
    if slot[0] == 'k':
        kw = [(k, fill if k == slot[1] else t) for k, t in kw]
        variables.pop('%sk%d' % (prefix, sorted(args.kw).index(slot[1])), None)
    else:
        at = slot[1] + (len(args.pos) if slot[0] == 'a' else 0)
        texts[at] = fill
        variables.pop('%s%d' % (prefix, at), None)
    if attack is not None:
        texts[attack[0]] = "'%s'" % attack[1]
        variables.pop('%s%d' % (prefix, attack[0]), None)
    n = len(args.pos)
    if bykw:
        if slot[0] != 'p' or args.var or rec.no_kwargs:
            return None
        k = slot[1]
        kw = [(rec.params[i].alias, texts[i]) for i in range(k, n)] + kw
        texts = texts[:k]
    text = C.call_text(rec, form, texts, kw)
    return None if text is None else (text, variables)


def forms_of(rec):
    if rec.syntax == 'name':
        direct = (['fn'] if rec.fd.is_function else []) + (['method'] if rec.fd.is_method else [])
    else:
        direct = [] if rec.syntax == 'internal' else ['op']
    return direct, (['call'] if rec.fd.is_function else []) + (['mcall'] if rec.fd.is_method else [])


def site_of(rec, args, slot, form, found):
    """The failing site: the call() bridge when the canary was treated as a lambda, else the parameter."""
    if form in ('call', 'mcall') and any('__unwrapped__' in f or '__call__' in f for f in found):
        return 'host callable used as lambda through call()'
    if slot[0] == 'p':
        p = rec.params[slot[1]]
    else:
        p = rec.varargs if slot[0] == 'a' else rec.varkw
    return 'def=%s param=%s' % (rec.ident, p.name)


def scan_cases(rec, tier):
    """(descr, slot, form, text, variables-factory) of every scan case of one definition."""
    direct, indirect = forms_of(rec)
    for ti, args in enumerate(scan_tuples(rec, tier)):
        for slot in slots(rec, args):
            strings = [j for j, p in enumerate(rec.params) if p.kind == 'string' and ('p', j) != slot]
            for form in direct + indirect:
                for bykw in (False, True):
                    for attack in [None] + [(j, a) for j in strings for a in ATTACKS]:
                        if attack is not None and bykw:
                            continue
                        built = build(rec, args, slot, form, bykw, attack=attack)
                        if built is None:
                            continue
                        yield ({'def': rec.ident, 'tier': tier, 'tuple': ti, 'slot': list(slot), 'form': form, 'bykw': bykw,
                                'attack': list(attack) if attack else None}, args, slot, form, built[0])


def job_scan(tier, idents):
    res = Result()
    guard()
    by = {r.ident: r for r in C.definitions()}
    for ident in idents:
        rec = by[ident]
        for descr, args, slot, form, text in scan_cases(rec, tier):
            for variant in sorted(VARIANTS):
                case = dict(descr, kind='scan', variant=variant, text=text)
                core.CURRENT_CASE[0] = case
                res.case((ident, descr['tuple'], tuple(descr['slot']), form, descr['bykw'],
                          tuple(descr['attack'] or ()), variant))
                variables = build(rec, args, slot, form, descr['bykw'],
                                  attack=tuple(descr['attack']) if descr['attack'] else None)[1]
                variables['c'] = VARIANTS[variant]()
                out, found = run(text, variables)
                tally(res, out)
                rules = any(p is not None and p.kind in ('mappingrule', 'lazyrule') for p in rec.params + [rec.varargs])
                if out[0] in ('lex', 'grammar') and not rules:      # `f(a => 1, $c)` is not in the grammar
                    res.fail('harness: scan text rejected by the parser', case, text)
                elif found:
                    res.fail('canary-reached ' + site_of(rec, args, slot, form, found), case,
                             '%s -> %s; outcome %s' % (text, '; '.join(found), repr(out)[:160]))
            res.sample({'def': ident, 'text': text}, 1)
    return res


# ---------------------------------------------------------------------------
# part 1b: member / index / call forms
# ---------------------------------------------------------------------------
NAMES = ['secret', 'leak', '_private', '_', '__dunder_x__', '__class__', '__dict__', '__init__']
TEMPLATES = [            # (template, N is a bare token)
    ('$c.N', True), ('$c.N()', True), ('$c?.N', True), ('$c?.N()', True), ('$c.N.N', True),
    ('$c[N]', True), ("$c['N']", False), ('[$c].N', True), ('[$c].select($.N)', True),
    ('{k => $c}.k.N', True), ('{k => $c}[k].N', True), ('{k => $c}.values().N', True),
    ('call(N, [$c], {})', True), ("call('N', [$c], {})", False), ("call('N', [], {}, $c)", False),
    ("call('#operator_.', [$c, N], {})", True), ("call('#operator_.', [$c, 'N'], {})", False),
    ("call('#indexer', [$c, 'N'], {})", False), ("call('#property#N', [$c], {})", False),
    ("call('#operator_?.', [$c, 'N'], {})", False), ("call('N', [], {N => $c})", True),
    ("'{0.N}'.format($c)", False), ("format('{0.N}', $c)", False), ("'%(N)s' * $c", False),
    ("$c.toString()", False), ("str($c)", False), ("[$c, $c.N]", True), ("$c.N = 1", True),
    ("let(x => $c) -> $x.N", True), ("[$c].where($.N)", True), ("[$c].orderBy($.N)", True),
    ("dict(N => $c).N.N", True),
]


def keyword_token(template, bare):
    """True when N stands as a keyword token in the template.  `__x__(` is a FUNC token: the lexer's (?!__)
    guard is on keywords only, so dunder *call* names reach resolution and are judged for containment only."""
    return bare and not (template.count('N') == 1 and 'N(' in template)


def job_forms(tier):
    res = Result()
    guard()
    for (template, bare), name, variant in itertools.product(TEMPLATES, NAMES, sorted(VARIANTS)):
        if 'N' not in template and name != NAMES[0]:
            continue
        text = template.replace('N', name)
        case = {'kind': 'form', 'template': template, 'name': name, 'variant': variant, 'text': text}
        res.case((template, name, variant))
        out, found = run(text, {'c': VARIANTS[variant]()})
        tally(res, out)
        cls = 'dunder' if name.startswith('__') else 'underscore' if name.startswith('_') else 'public'
        bare = keyword_token(template, bare)
        if bare and name.startswith('__') and out[0] != 'lex':
            res.fail('dunder-token-accepted form=%s' % template, case,
                     '%s: a token beginning with __ must be a lexical error, observed %r' % (text, out[:2]))
        elif out[0] == 'grammar' or (out[0] == 'lex' and not (bare and name.startswith('__'))):
            res.fail('harness: form text rejected by the parser', case, text)
        elif found:
            res.fail('canary-reached form=%s name=%s' % (template, cls), case,
                     '%s -> %s; outcome %s' % (text, '; '.join(found), repr(out)[:160]))
    return res


# ---------------------------------------------------------------------------
# part 1c: depth-2 compositions g(f($c))
# ---------------------------------------------------------------------------
def accepted(tier, variant):
    """Direct, all-positional scan cases of the base tuple whose evaluation produced a value."""
    out = []
    for rec in scannable():
        direct, _ = forms_of(rec)
        tuples = scan_tuples(rec, tier)[:1] + [a for a in scan_tuples(rec, tier)[1:] if a.var][:1]
        for ti, args in enumerate(tuples):
            for slot in slots(rec, args):
                for form in direct:
                    built = build(rec, args, slot, form, False, prefix='f')
                    if built is None:
                        continue
                    variables = built[1]
                    variables['c'] = VARIANTS[variant]()
                    o, _ = run(built[0], variables)
                    if o[0] == 'v':
                        out.append((rec.ident, ti, slot, form))
    return out


def job_compose(tier, variant, part, nparts):
    res = Result()
    guard()
    by = {r.ident: r for r in C.definitions()}
    acc = accepted(tier, variant)
    res.extra['accepted_calls_%s' % variant] = len(acc) if part == 0 else 0

    def tuple_of(rec, ti):
        ts = scan_tuples(rec, tier)
        return (ts[:1] + [a for a in ts[1:] if a.var][:1])[ti]
    for fi, (fident, fti, fslot, fform) in enumerate(acc):
        if fi % nparts != part:
            continue
        frec = by[fident]
        ftext, fvars = build(frec, tuple_of(frec, fti), fslot, fform, False, prefix='f')
        for gident, gti, gslot, gform in acc:
            grec = by[gident]
            gtext, gvars = build(grec, tuple_of(grec, gti), gslot, gform, False, fill='(%s)' % ftext, prefix='g')
            case = {'kind': 'compose', 'tier': tier, 'variant': variant, 'text': gtext,
                    'f': [fident, fti, list(fslot), fform], 'g': [gident, gti, list(gslot), gform]}
            core.CURRENT_CASE[0] = case
            res.case((variant, fident, fti, fslot, fform, gident, gti, gslot, gform))
            variables = dict(fvars)
            variables.update(gvars)
            # one-shot values must be fresh per evaluation
            variables.update(build(frec, tuple_of(frec, fti), fslot, fform, False, prefix='f')[1])
            variables['c'] = VARIANTS[variant]()
            out, found = run(gtext, variables)
            tally(res, out)
            if out[0] in ('lex', 'grammar'):
                res.fail('harness: composed text rejected by the parser', case, gtext)
            elif found:
                res.fail('canary-reached compose g=%s f=%s' % (gident, fident), case,
                         '%s -> %s; outcome %s' % (gtext, '; '.join(found), repr(out)[:160]))
    return res


# ---------------------------------------------------------------------------
# part 2: the yaqlization policy
# ---------------------------------------------------------------------------
PLOG = []


class Kid(object):
    foo = 'kid-foo'

    def __getattribute__(self, name):
        if name not in INFRA:
            PLOG.append(('kid', name))
        return object.__getattribute__(self, name)


class Probe(object):
    def __init__(self):
        d = object.__getattribute__(self, '__dict__')
        d.update({'foo': 'v-foo', 'food': 'v-food', 'bar': 'v-bar', '_private': 'v-private',
                  '__dunder__': 'v-dunder', 'kid': Kid()})

    def meth(self, *args, **kwargs):
        PLOG.append(('call', 'meth', sorted(kwargs.items())))
        return 'v-meth'

    def getkid(self, **kwargs):
        PLOG.append(('call', 'getkid', sorted(kwargs.items())))
        return Kid()

    def __getattribute__(self, name):
        if name not in INFRA:
            PLOG.append(('attr', name))
        return object.__getattribute__(self, name)

    def __getitem__(self, key):
        PLOG.append(('item', key))
        return Kid() if key == 'kid' else 'i-%s' % (key,)


ATTRS = {'foo': 'v-foo', 'food': 'v-food', 'bar': 'v-bar', '_private': 'v-private', '__dunder__': 'v-dunder',
         'kid': 'Kid'}
METHODS = {'meth': 'v-meth', 'getkid': 'Kid'}
MEMBER_NAMES = ['foo', 'food', 'bar', 'meth', 'alias', 'kid', 'getkid', 'zz', '_private', '__dunder__']

RE_FO = re.compile('^fo')
RE_D = re.compile('d$')
RE_OO = re.compile('oo|et')      # unanchored: matches inside foo, food, meth(od) names only in the middle


def pred_short(name):
    return len(name) <= 4


def pred_a(name):
    return 'a' in name


LISTS = collections.OrderedDict([
    ('none', []), ('str', ['foo']), ('regex', [RE_OO]), ('pred', [pred_short]),
    ('regex^', [RE_FO]),
    ('str2', ['foo', 'alias']), ('regex+str', [RE_D, 'meth']), ('pred+regex', [pred_a, RE_FO]), ('alias', ['alias', 'kid']),
])
REMAPS = collections.OrderedDict([
    ('none', {}), ('attr', {'alias': 'foo'}), ('method', {'alias': ('meth', {'k': 'kk'})}),
    ('both', {'alias': 'food', 'bar': ('getkid', {'k': 'kk'})}),
])
ACCESS = [            # (template, access kind, keyword arguments, chained .foo)
    ('$o.N', P.ATTRIBUTE, (), False), ('$o?.N', P.ATTRIBUTE, (), False),
    ('$o.N()', P.METHOD, (), False), ('$o?.N()', P.METHOD, (), False), ('$o.N(k => 1)', P.METHOD, (('k', 1),), False),
    ('$o[N]', P.INDEX, (), False), ("$o['N']", P.INDEX, (), False),
    ('$o.N.foo', P.ATTRIBUTE, (), True), ('$o.N().foo', P.METHOD, (), True), ('$o[N].foo', P.INDEX, (), True),
]
OFF_ERROR = {          # an access kind that is switched off falls through to the library's generic overloads (A.3)
    P.ATTRIBUTE: 'NoFunctionRegisteredException',   # '.' fallback get_property -> #property#<name> is unknown
    P.METHOD: 'NoMethodRegisteredException',        # system.op_dot -> no method of that name
    P.INDEX: 'NoMatchingFunctionException',         # no #indexer overload accepts a plain object
}
DENIED_ERROR = {P.ATTRIBUTE: 'AttributeError', P.METHOD: 'AttributeError', P.INDEX: 'KeyError'}


def policy_lists(tier):
    keys = list(LISTS) if tier == 'thorough' else list(LISTS)[:4]
    remaps = list(REMAPS) if tier == 'thorough' else list(REMAPS)[:3]
    return keys, remaps


def expected(settings, access, name, kwargs, chained):
    """(outcome, log) the model predicts, or None when undocumented."""
    d = P.decide(settings, access, name, kwargs)
    if d[0] == 'off':
        return ('e', OFF_ERROR[access]), []
    if d[0] == 'denied':
        return ('e', DENIED_ERROR[access]), []
    if d[0] == 'undocumented':
        return None
    _, how, member, kw = d
    if how == 'item':
        log = [('item', member)]
        value = 'Kid' if member == 'kid' else 'i-' + member
    elif how == 'attr':
        log = [('attr', member)]
        if member in ATTRS:
            value = ATTRS[member]
        elif member in METHODS:
            value = 'bound method'
        else:
            return ('e', 'AttributeError'), log
    else:
        log = [('attr', member)]
        if member in ATTRS:
            return ('e', 'TypeError'), log                 # the member exists but is not callable
        if member not in METHODS:
            return ('e', 'AttributeError'), log
        log.append(('call', member, sorted(kw.items())))
        value = METHODS[member]
    if not chained:
        return ('v', value), log
    if value != 'Kid':
        return None                                        # .foo on a string / bound method: not a policy question
    sub = P.inherited(settings)
    if sub is None:
        return ('e', OFF_ERROR[P.ATTRIBUTE]), log
    d2 = P.decide(sub, P.ATTRIBUTE, 'foo')
    assert d2 == ('reach', 'attr', 'foo', {})
    return ('v', 'kid-foo'), log + [('kid', 'foo')]


def observe_policy(settings, text):
    o = Probe()
    yaqlization.yaqlize(o, yaqlize_attributes=settings['attributes'], yaqlize_methods=settings['methods'],
                        yaqlize_indexer=settings['indexer'], auto_yaqlize_result=settings['auto'],
                        whitelist=list(settings['whitelist']), blacklist=list(settings['blacklist']),
                        attribute_remapping=dict(settings['remapping']))
    del PLOG[:]
    try:
        v = yq.evaluate(text, variables={'o': o}, options=OPTIONS)
        if isinstance(v, Kid):
            v = 'Kid'
        elif callable(v):
            v = 'bound method'
        out = ('v', v)
    except Exception as e:
        out = ('e', type(e).__name__)
    return out, list(PLOG)


def settings_of(switches, w, b, r):
    return {'attributes': switches[0], 'methods': switches[1], 'indexer': switches[2], 'auto': switches[3],
            'whitelist': LISTS[w], 'blacklist': LISTS[b], 'remapping': REMAPS[r]}


def policy_key(settings, access, name, kwargs, exp, obs):
    d = P.decide(settings, access, name, kwargs)
    touched = [x for x in obs[1] if x[0] != 'kid']
    if d == ('denied', 'blacklisted') and any(P.matches(name, e) for e in settings['whitelist']):
        return 'policy: blacklisted name accepted when a whitelist entry matches'
    if d[0] == 'denied' and touched:
        return 'policy: denied member reached (%s)' % d[1]
    if d[0] == 'off' and touched:
        return 'policy: member reached although %s access is switched off' % access
    if d[0] == 'reach' and exp[0][0] == 'v' and obs[0][0] == 'e':
        return 'policy: allowed %s%s fails with %s' % (access, ' with remapped keyword argument' if d[3] and
                                                       settings['remapping'] else '', obs[0][1])
    return 'policy: mismatch access=%s decision=%s' % (access, d[0])


def judge_policy(res, switches, w, b, r, name, template, access, kwargs, chained):
    settings = settings_of(switches, w, b, r)
    text = template.replace('N', name)
    case = {'kind': 'policy', 'switches': list(switches), 'w': w, 'b': b, 'r': r, 'name': name,
            'template': template, 'text': text}
    res.case((switches, w, b, r, name, template))
    exp = expected(settings, access, name, kwargs, chained)
    obs = observe_policy(settings, text)
    res.evaluations += 1
    res.transitions += 1
    if exp is None:
        res.out_of_domain += 1
        res.outcomes['policy undocumented'] += 1
        d = P.decide(settings, access, name, kwargs)
        allowed = [] if d[0] != 'reach' else [('attr', d[2]), ('item', d[2])]
        extra = [x for x in obs[1] if x[0] in ('attr', 'item') and x not in allowed]
        if d[0] == 'undocumented' and obs[1]:
            res.fail('policy: member reached through an undocumented remapping form', case, repr(obs))
        elif extra:
            res.fail('policy: mismatch access=%s decision=%s' % (access, d[0]), case, repr(obs))
        return
    res.nontrivial += 1
    res.outcomes['policy %s -> %s' % (P.decide(settings, access, name, kwargs)[0],
                                      exp[0][1] if exp[0][0] == 'e' else 'value')] += 1
    if obs != exp:
        res.fail(policy_key(settings, access, name, kwargs, exp, obs), case,
                 '%s with %s: observed %r expected %r' % (text, describe(settings, w, b, r), obs, exp))
    # evaluation may yaqlize the *object* it returns (auto_yaqlize_result), never a host class: a class-level
    # mark would grant access to every other instance, in every later evaluation of the process
    for cls in (Kid, Probe, Canary, str, int, list, dict, tuple):
        if '__yaqlization__' in vars(cls):
            res.fail('policy: evaluation yaqlized the host class %s (every instance becomes reachable)' % cls.__name__,
                     case, '%s with %s left %s.__yaqlization__ set' % (text, describe(settings, w, b, r), cls.__name__))
            try:
                delattr(cls, '__yaqlization__')
            except Exception:
                pass


def describe(settings, w, b, r):
    return 'attributes=%s methods=%s indexer=%s auto=%s whitelist=%s blacklist=%s remapping=%s' % (
        settings['attributes'], settings['methods'], settings['indexer'], settings['auto'], w, b, r)


def job_policy(tier, switches):
    res = Result()
    guard()
    lists, remaps = policy_lists(tier)
    for w, b, r, name, (template, access, kwargs, chained) in itertools.product(lists, lists, remaps, MEMBER_NAMES, ACCESS):
        if name.startswith('__') and "'N'" not in template and 'N(' not in template:
            continue                       # not a keyword token (part 1b checks that the lexer rejects it)
        if chained and name not in ('kid', 'getkid', 'foo'):
            continue
        judge_policy(res, tuple(switches), w, b, r, name, template, access, kwargs, chained)
    res.sample({'switches': list(switches), 'cases': res.states}, 1)
    return res


# ---------------------------------------------------------------------------
# part 2b: the same policy when the entries arrive in another kind of collection, over SEQUENCES of accesses to one
# yaqlized object (the decision about a name does not depend on what was asked before)
CONTAINERS = collections.OrderedDict([
    ('list', list), ('tuple', tuple), ('generator', lambda entries: (e for e in entries)),
    ('iterator', lambda entries: iter(list(entries))), ('filter', lambda entries: filter(None, list(entries))),
])
SEQ_ACCESS = [('$o.N', P.ATTRIBUTE), ('$o.N()', P.METHOD), ('$o[N]', P.INDEX)]
SEQ_NAMES = ['foo', 'bar', 'meth']


def observe_sequence(settings, container, texts):
    o = Probe()
    make = CONTAINERS[container]
    yaqlization.yaqlize(o, yaqlize_attributes=True, yaqlize_methods=True, yaqlize_indexer=True, auto_yaqlize_result=False,
                        whitelist=make(settings['whitelist']), blacklist=make(settings['blacklist']),
                        attribute_remapping=dict(settings['remapping']))
    out = []
    for text in texts:
        del PLOG[:]
        try:
            v = yq.evaluate(text, variables={'o': o}, options=OPTIONS)
            v = 'Kid' if isinstance(v, Kid) else 'bound method' if callable(v) else v
            out.append((('v', v), list(PLOG)))
        except Exception as e:
            out.append((('e', type(e).__name__), list(PLOG)))
    return out


def job_policy_sequences(tier, containers):
    res = Result()
    guard()
    lists, remaps = policy_lists(tier)
    steps = [(t, a, n) for (t, a) in SEQ_ACCESS for n in SEQ_NAMES]
    for container in containers:
        for w, b, r in itertools.product(lists, lists, remaps[:2]):
            settings = settings_of((True, True, True, False), w, b, r)
            for first, second in itertools.product(steps, repeat=2):
                texts = [first[0].replace('N', first[2]), second[0].replace('N', second[2])]
                case = {'kind': 'policy-sequence', 'container': container, 'w': w, 'b': b, 'r': r, 'texts': texts,
                        'steps': [[first[1], first[2]], [second[1], second[2]]]}
                res.case(('seq', container, w, b, r, texts[0], texts[1]))
                exps = [expected(settings, st[1], st[2], (), False) for st in (first, second)]
                obs = observe_sequence(settings, container, texts)
                res.evaluations += 2
                res.transitions += 2
                if None in exps:
                    res.out_of_domain += 1
                    continue
                res.nontrivial += 1
                res.outcomes['sequence %s: %s then %s' % (container, P.decide(settings, first[1], first[2])[0],
                                                          P.decide(settings, second[1], second[2])[0])] += 1
                for i in (0, 1):
                    if obs[i] != exps[i]:
                        st = (first, second)[i]
                        d = P.decide(settings, st[1], st[2])
                        res.fail('policy: %s access of a sequence decided differently (entries given as %s): %s'
                                 % (('first', 'second')[i], 'a one-shot iterator' if container in ('generator', 'iterator', 'filter')
                                    else 'a ' + container, 'denied member reached' if d[0] == 'denied' else
                                    'allowed member refused' if obs[i][0][0] == 'e' else 'mismatch'),
                                 case, '%s then %s with whitelist=%s blacklist=%s remapping=%s as %s: step %d observed %r expected %r'
                                 % (texts[0], texts[1], w, b, r, container, i + 1, obs[i], exps[i]))
                        break
    return res


# part 2c: an access that returns an object carrying its OWN policy (yaqlized by the host as an instance, through its
# class, or the parent itself): the result's own settings decide, whatever the parent's auto_yaqlize_result says
class KidOwn(Kid):
    ok = 'kid-ok'


@yaqlization.yaqlize(blacklist=['foo'])
class KidCls(object):
    foo = 'kid-foo'
    ok = 'kid-ok'

    def __getattribute__(self, name):
        if name not in INFRA:
            PLOG.append(('kid', name))
        return object.__getattribute__(self, name)


class KidPlain(Kid):
    ok = 'kid-ok'


def make_kid(mode):
    if mode == 'class-policy':
        return KidCls()
    if mode == 'instance-policy':
        k = KidOwn()
        yaqlization.yaqlize(k, blacklist=['foo'])
        return k
    return KidPlain()


class Parent(Probe):
    def __init__(self, mode):
        Probe.__init__(self)
        d = object.__getattribute__(self, '__dict__')
        d['kid'] = make_kid(mode)
        d['_mode'] = mode

    def getkid(self, **kwargs):
        PLOG.append(('call', 'getkid', sorted(kwargs.items())))
        return make_kid(object.__getattribute__(self, '__dict__')['_mode'])

    def getself(self):
        PLOG.append(('call', 'getself', []))
        return self

    def __getitem__(self, key):
        PLOG.append(('item', key))
        return make_kid(object.__getattribute__(self, '__dict__')['_mode']) if key == 'kid' else 'i-%s' % (key,)


OWN_PATHS = [('$o.kid', 'kid'), ('$o.getkid()', 'kid'), ('$o[kid]', 'kid'), ('$o.getself()', 'self')]


def job_policy_own(tier):
    res = Result()
    guard()
    for auto, pbl, mode, (path, what) in itertools.product((True, False), ((), ('food',)), ('plain', 'instance-policy', 'class-policy'),
                                                           OWN_PATHS):
        for member in (('foo', 'ok') if what == 'kid' else ('foo', 'food')):
            text = '%s.%s' % (path, member)
            case = {'kind': 'policy-own', 'auto': auto, 'parent_blacklist': list(pbl), 'mode': mode, 'text': text}
            res.case(('own', auto, pbl, mode, text))
            o = Parent(mode)
            yaqlization.yaqlize(o, auto_yaqlize_result=auto, blacklist=list(pbl))
            del PLOG[:]
            try:
                obs = ('v', yq.evaluate(text, variables={'o': o}, options=OPTIONS))
            except Exception as e:
                obs = ('e', type(e).__name__)
            log = list(PLOG)
            res.evaluations += 1
            res.transitions += 1
            res.nontrivial += 1
            if what == 'self':
                exp = ('e', 'AttributeError') if member in pbl else ('v', 'v-' + member)
                reached = ('attr', member) in log
            else:
                if mode == 'plain':
                    exp = ('v', 'kid-' + member) if auto else ('e', OFF_ERROR[P.ATTRIBUTE])
                else:
                    exp = ('e', 'AttributeError') if member == 'foo' else ('v', 'kid-' + member)
                reached = ('kid', member) in log
            res.outcomes['own policy %s %s -> %s' % (what, mode, exp[1] if exp[0] == 'e' else 'value')] += 1
            if exp[0] == 'e' and reached:
                res.fail('policy: member denied by the result\'s own settings reached through %s'
                         % ('the parent returned by its own method' if what == 'self' else 'a parent with auto_yaqlize_result=%s' % auto),
                         case, '%s (result %s, parent blacklist %r): observed %r, log %r, expected %r' % (text, mode, list(pbl), obs, log, exp))
            elif obs != exp:
                res.fail('policy: access to a result that carries its own settings: mismatch', case,
                         '%s (result %s, parent auto=%s blacklist %r): observed %r expected %r' % (text, mode, auto, list(pbl), obs, exp))
            for cls in (Kid, KidOwn, KidPlain, Probe, Parent):
                if '__yaqlization__' in vars(cls):
                    res.fail('policy: evaluation yaqlized the host class %s (every instance becomes reachable)' % cls.__name__, case, text)
                    delattr(cls, '__yaqlization__')
    return res


# ---------------------------------------------------------------------------
def jobs(tier, seed):
    out = []
    idents = [r.ident for r in scannable()]
    for i, part in enumerate(chunks(idents, 16)):
        out.append(('scan-%02d' % i, 'job_scan', (tier, part)))
    out.append(('forms', 'job_forms', (tier,)))
    nparts = 12
    for variant in (sorted(VARIANTS) if tier == 'thorough' else ['plain']):
        for part in range(nparts):
            out.append(('compose-%s-%02d' % (variant, part), 'job_compose', (tier, variant, part, nparts)))
    for switches in itertools.product((True, False), repeat=4):
        out.append(('policy-%s' % ''.join('1' if s else '0' for s in switches), 'job_policy', (tier, list(switches))))
    for container in CONTAINERS:
        out.append(('policy-sequences-%s' % container, 'job_policy_sequences', (tier, [container])))
    out.append(('policy-own', 'job_policy_own', (tier,)))
    return out


def finish(total, tier):
    names = total.extra.get('names_read_on_canary')
    if names:
        total.extra['names_read_on_canary'] = dict(names)


def replay(case):
    kind = case['kind']
    by = {r.ident: r for r in C.definitions()}
    if kind == 'policy':
        access = [a for a in ACCESS if a[0] == case['template']][0]
        settings = settings_of(tuple(case['switches']), case['w'], case['b'], case['r'])
        exp = expected(settings, access[1], case['name'], access[2], access[3])
        obs = observe_policy(settings, case['text'])
        return {'observed': repr(obs), 'expected': repr(exp), 'ok': exp is None or obs == exp}
    if kind == 'policy-sequence':
        settings = settings_of((True, True, True, False), case['w'], case['b'], case['r'])
        exps = [expected(settings, a, n, (), False) for a, n in case['steps']]
        obs = observe_sequence(settings, case['container'], case['texts'])
        return {'observed': repr(obs), 'expected': repr(exps), 'ok': obs == exps}
    if kind == 'policy-own':
        r = job_policy_own('quick')
        hit = [f.detail for f in r.failures.values() if f.case['text'] == case['text'] and f.case['mode'] == case['mode']
               and f.case['auto'] == case['auto'] and f.case['parent_blacklist'] == case['parent_blacklist']]
        return {'observed': hit or 'as the result\'s own settings say', 'expected': "the result's own settings decide", 'ok': not hit}
    if kind == 'form':
        out, found = run(case['text'], {'c': VARIANTS[case['variant']]()})
        ok = not found
        if case['name'].startswith('__') and keyword_token(case['template'], dict(TEMPLATES)[case['template']]):
            ok = out[0] == 'lex'
        return {'observed': {'outcome': re.sub(r' at 0x[0-9a-f]+', '', repr(out))[:200], 'canary': found}, 'ok': ok,
                'expected': 'nothing read/called on the canary, no marker; bare __ tokens are lexical errors'}
    if kind == 'scan':
        rec = by[case['def']]
        args = scan_tuples(rec, case['tier'])[case['tuple']]
        text, variables = build(rec, args, tuple(case['slot']), case['form'], case['bykw'],
                                attack=tuple(case['attack']) if case['attack'] else None)
    else:
        tier = case['tier']

        def tuple_of(rec, ti):
            ts = scan_tuples(rec, tier)
            return (ts[:1] + [a for a in ts[1:] if a.var][:1])[ti]
        f, g = case['f'], case['g']
        ftext, variables = build(by[f[0]], tuple_of(by[f[0]], f[1]), tuple(f[2]), f[3], False, prefix='f')
        text, gvars = build(by[g[0]], tuple_of(by[g[0]], g[1]), tuple(g[2]), g[3], False, fill='(%s)' % ftext, prefix='g')
        variables.update(gvars)
    variables['c'] = VARIANTS[case['variant']]()
    out, found = run(text, variables)
    return {'observed': {'text': text, 'outcome': re.sub(r' at 0x[0-9a-f]+', '', repr(out))[:200], 'canary': found},
            'expected': 'names read on the canary within %s, __getitem__/__call__ never run, no marker' % (INFRA,),
            'ok': not found and text == case['text']}
