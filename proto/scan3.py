import warnings; warnings.filterwarnings('ignore')
import collections, itertools, re, datetime, sys
sys.path.insert(0, '/tmp/proto')
import yaql
from yaql.language import yaqltypes, utils, contexts, exceptions
N = 5
eng = yaql.YaqlFactory(allow_delegates=True).create({'yaql.limitIterators': N})
ROOT = yaql.create_context(delegates=True)
class Horizon(BaseException): pass
class Src:
    def __init__(self, h=60): self.n = 0; self.h = h
    def __iter__(self): return self
    def __next__(self):
        self.n += 1
        if self.n > self.h: raise Horizon()
        return self.n
exec(open('/tmp/proto/scan.py').read().split("# ---------- C09 scan")[0].split("fds = []")[0].replace("engRaw = ", "engRaw_ = ").replace("eng = yaql", "eng_ = yaql").replace("ROOT = yaql", "ROOT_ = yaql"))
fds = []
c = ROOT
while c is not None:
    for name, s in c._functions.items():
        for fd in s: fds.append(fd)
    c = c.parent
src = open('/tmp/proto/scan.py').read()
ns = {}
start = src.index("def slot_kind(p):"); end = src.index("# ---------- C09 scan")
exec(src[start:end])
hits = collections.OrderedDict(); n = 0
for fd in sorted(fds, key=lambda f: (f.name, f.payload.__name__)):
    ps = visible(fd)
    # also varargs param
    for i, p in enumerate(ps):
        k = slot_kind(p)
        if k not in ('seq', 'iter', 'any'): continue
        vals = []; ok = True
        for j, q in enumerate(ps):
            if j == i: vals.append('$s'); continue
            f = FILL.get(slot_kind(q))
            if f is None: ok = False; break
            vals.append(f)
        if not ok: continue
        txt = call_text(fd, vals)
        if txt is None: continue
        s = Src(); ctx = ROOT.create_child_context(); ctx['s'] = s
        try: r = repr(eng(txt).evaluate(context=ctx))[:40]; out = 'ok'
        except Horizon: out = 'HORIZON'; r = ''
        except exceptions.CollectionTooLargeException: out = 'TOO_LARGE'; r = ''
        except Exception as e: out = 'EXC ' + type(e).__name__; r = ''
        n += 1
        if out == 'HORIZON' or s.n > N + 1:
            hits[(fd.name, fd.payload.__name__, p.name)] = (txt, out, s.n, r)
print('calls', n, 'N', N)
for k, v in hits.items(): print('  ', k, v)
